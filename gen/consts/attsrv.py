import os, re, sys
sys.path.insert(0, os.path.dirname(os.path.dirname(os.path.abspath(__file__))))
from srcutil import read, strip_comments, cint
MODULE = "GenAttSrv"


def enum(src, name):
    m = re.search(r"enum\s+(?:class\s+)?%s\b[^{]*\{(.*?)\}" % re.escape(name), src, re.S)
    if not m:
        raise ValueError("enum %s not found" % name)
    out, nxt = [], 0
    for item in m.group(1).split(","):
        item = item.strip()
        if not item:
            continue
        if "=" in item:
            k, v = [x.strip() for x in item.split("=", 1)]
            nxt = cint(v)
        else:
            k = item
        out.append((k, nxt))
        nxt += 1
    return out


def extract(repo):
    s = strip_comments(read(repo, "bluetoe/utility/include/bluetoe/codes.hpp"))
    r = []
    ns = s.split("namespace error_codes")[0]     # details:: part
    for k, v in enum(ns, "att_opcodes"):
        r.append(("opcode_" + k, "N", str(v)))
    for k, v in enum(ns, "att_error_codes"):
        r.append(("att_error_" + k, "N", str(v)))
    for k, v in enum(ns, "gatt_uuids"):
        r.append(("gatt_uuid_" + k, "N", str(v)))
    for k, v in enum(ns, "gatt_characteristic_properties"):
        r.append(("char_property_" + k, "N", str(v)))
    m = re.search(r"default_att_mtu_size\s*=\s*(\d+)", ns)
    r.append(("default_att_mtu_size", "N", m.group(1)))
    a = strip_comments(read(repo, "bluetoe/utility/include/bluetoe/attribute.hpp"))
    for k, v in enum(a, "attribute_access_result"):
        if v < 0x100:
            r.append(("access_result_" + k, "N", str(v)))
    srv = strip_comments(read(repo, "bluetoe/server.hpp"))
    m = re.search(r"maximum_pdu_size\s*=\s*(\d+)u?", srv)
    r.append(("collect_attributes_maximum_pdu_size", "N", m.group(1)))
    return r


def lints(repo):
    bad = []
    srv = strip_comments(read(repo, "bluetoe/server.hpp"))
    # modelling assumption of AttSrvModel: the 8 bit size counters of the two collectors
    for cls in ("collect_attributes", "collect_find_by_type_groups"):
        body = srv.split("struct " + cls)[1][:4000]
        if not re.search(r"std::uint8_t\s+size\(\)\s+const", body):
            bad.append("%s::size() is no longer std::uint8_t (AttSrvModel transcribes the 8 bit truncation)" % cls)
    return bad
