import os, re, sys
sys.path.insert(0, os.path.dirname(os.path.dirname(os.path.abspath(__file__))))
from srcutil import read, strip_comments, enums_containing, parse_enum_body
MODULE = "GenBoot"
def extract(repo):
    s = strip_comments(read(repo, "bluetoe/services/bootloader.hpp"))
    codes = enums_containing(strip_comments(read(repo, "bluetoe/utility/include/bluetoe/codes.hpp")), "application_error_start")
    ops = enums_containing(s, "opc_get_version")
    m = re.search(r"enum\s+att_error_codes\s*:\s*std::uint8_t\s*\{([^}]*)\}", s)
    if not m:
        raise ValueError("att_error_codes not found")
    body = m.group(1).replace("bluetoe::error_codes::application_error_start", str(codes["application_error_start"]))
    errs = parse_enum_body(body)
    hc = enums_containing(s, "not_authorized")
    m = re.search(r"number_of_concurrent_flashs\s*=\s*(\d+)", s)
    if not m:
        raise ValueError("number_of_concurrent_flashs not found")
    r = [(k, "N", str(v)) for k, v in sorted(ops.items())]
    r += [("err_" + k, "N", str(v)) for k, v in sorted(errs.items())]
    r += [("att_" + k, "N", str(codes[k])) for k in ("invalid_offset", "invalid_attribute_value_length", "success")]
    r += [("handler_" + k, "N", str(v)) for k, v in sorted(hc.items())]
    r += [("number_of_concurrent_flashs", "N", m.group(1))]
    return r
