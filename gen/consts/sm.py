"""translator plugin for the security manager model (C32..C35): enumerations and sizes the model
refers to, read from the current sources.
  security_manager.hpp           sm_opcodes, sm_error_codes, PDU sizes, key size limits
  security_connection_data.hpp   sm_pairing_state (order), authentication_requirements_flags
  pairing_status.hpp             device_pairing_status (order)
  io_capabilities.hpp            legacy_/lesc_pairing_algorithm (order)
plus one source-shape switch: whether the combined manager's legacy Pairing Response carries the OOB
flag of legacy_local_io_caps() (fix/C36-combined-legacy-oob-flag) or the constant 0 of
lesc_local_io_caps() (the tree as first checked out). The model takes it as a configuration field.
No lints: everything else is tied by the differential runs."""
import os, re, sys
sys.path.insert(0, os.path.dirname(os.path.dirname(os.path.abspath(__file__))))
from srcutil import read, strip_comments, cint
MODULE = "GenSM"
IO = "bluetoe/sm/include/bluetoe/io_capabilities.hpp"
CD = "bluetoe/sm/include/bluetoe/security_connection_data.hpp"
SM = "bluetoe/sm/include/bluetoe/security_manager.hpp"
PS = "bluetoe/pairing_status.hpp"


def enum(src, name, cls=True):
    m = re.search(r"enum\s+%s%s\s*(?::\s*[\w:]+\s*)?\{([^}]*)\}" % ("class\s+" if cls else "", re.escape(name)), src)
    if not m:
        raise ValueError("enum %s not found" % name)
    out, nxt, env = [], 0, {}
    for item in m.group(1).split(","):
        item = item.strip()
        if not item:
            continue
        if "=" in item:
            k, v = [x.strip() for x in item.split("=", 1)]
            val = env[v] if v in env else cint(v)
        else:
            k, val = item, nxt
        env[k] = val
        out.append((k, val))
        nxt = val + 1
    return out


def combined_legacy_oob(sm):
    """body of security_manager_impl::handle_pairing_request, the legacy branch (after `else`)"""
    m = re.search(r"security_manager_impl<[^>]*>::handle_pairing_request\s*\((.*?)\n    \}", sm, flags=re.S)
    if not m:
        raise ValueError("security_manager_impl::handle_pairing_request not found")
    body = m.group(1)
    k = body.rfind("else")
    if k < 0:
        raise ValueError("legacy branch of handle_pairing_request not found")
    leg = body[k:]
    if "create_pairing_response" not in leg:
        raise ValueError("legacy branch does not create a pairing response")
    return "legacy_local_io_caps" in leg


def extract(repo):
    io = strip_comments(read(repo, IO))
    cd = strip_comments(read(repo, CD))
    sm = strip_comments(read(repo, SM))
    ps = strip_comments(read(repo, PS))
    res = []
    for k, v in enum(sm, "sm_opcodes"):
        res.append(("op_" + k, "N", str(v)))
    for k, v in enum(sm, "sm_error_codes"):
        res.append(("err_" + k, "N", str(v)))
    for k, v in enum(cd, "sm_pairing_state"):
        res.append(("st_" + k, "N", str(v)))
    for k, v in enum(cd, "authentication_requirements_flags"):
        res.append(("flag_" + k, "N", str(v)))
    for k, v in enum(ps, "device_pairing_status"):
        res.append(("status_" + k, "N", str(v)))
    for k in ("min_max_key_size", "max_max_key_size", "pairing_req_resp_size", "public_key_exchange_size",
              "pairing_confirm_size", "pairing_random_size", "pairing_dhkey_check_size"):
        m = re.search(r"%s\s*=\s*(\w+)\s*;" % k, sm)
        if not m:
            raise ValueError("constant %s not found" % k)
        res.append((k, "N", str(cint(m.group(1)))))
    res.append(("combined_legacy_response_oob_flag", "bool", "true" if combined_legacy_oob(sm) else "false"))
    return res
