import os, re, sys
sys.path.insert(0, os.path.dirname(os.path.dirname(os.path.abspath(__file__))))
from srcutil import read, strip_comments, enums_containing, const, cint
MODULE = "GenAdvData"
def extract(repo):
    codes = enums_containing(strip_comments(read(repo, "bluetoe/utility/include/bluetoe/codes.hpp")), "complete_local_name")
    names = ["flags", "incomplete_service_uuids_16", "complete_service_uuids_16", "incomplete_service_uuids_128",
             "complete_service_uuids_128", "shortened_local_name", "complete_local_name", "appearance"]
    r = [("gap_" + k, "N", str(codes[k])) for k in names]
    rng = strip_comments(read(repo, "bluetoe/peripheral_connection_interval_range.hpp"))
    m = re.search(r"\*begin\s*=\s*(0x[0-9a-fA-F]+)\s*;\s*\+\+begin\s*;\s*\*begin\s*=\s*(0x[0-9a-fA-F]+)\s*;", rng)
    if not m:
        raise ValueError("interval range AD header not found")
    r += [("range_ad_length", "N", str(int(m.group(1), 16))), ("range_ad_type", "N", str(int(m.group(2), 16)))]
    app = strip_comments(read(repo, "bluetoe/appearance.hpp"))
    r.append(("appearance_ad_size", "N", str(cint(const(app, "adv_data_size")))))
    cust = strip_comments(read(repo, "bluetoe/custom_advertising.hpp"))
    r.append(("runtime_adv_max_size", "N", str(cint(const(cust, "advertising_data_max_size")))))
    r.append(("runtime_scan_max_size", "N", str(cint(const(cust, "scan_response_data_max_size")))))
    srv = strip_comments(read(repo, "bluetoe/server.hpp"))
    m = re.search(r"if\s*\(\s*buffer_size\s*>=\s*(\d+)\s*\)\s*\{\s*begin\[\s*0\s*\]\s*=\s*(\d+)\s*;\s*begin\[\s*1\s*\]\s*=\s*bits\(\s*details::gap_types::flags\s*\)\s*;\s*begin\[\s*2\s*\]\s*=\s*(\d+)\s*;", srv)
    if not m:
        raise ValueError("flags AD not found in advertising_data_impl")
    r += [("flags_min_buffer", "N", m.group(1)), ("flags_ad_length", "N", m.group(2)), ("flags_value", "N", m.group(3))]
    return r
