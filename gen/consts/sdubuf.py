import os, re, sys
sys.path.insert(0, os.path.dirname(os.path.dirname(os.path.abspath(__file__))))
from srcutil import read, strip_comments, const, cint
MODULE = "GenSduBuf"
HDR = "bluetoe/link_layer/include/bluetoe/ll_l2cap_sdu_buffer.hpp"
def extract(repo):
    s = strip_comments(read(repo, HDR))
    p = strip_comments(read(repo, "bluetoe/link_layer/include/bluetoe/ll_data_pdu_buffer.hpp"))
    c = strip_comments(read(repo, "bluetoe/utility/include/bluetoe/codes.hpp"))
    m = re.search(r"receive_buffer_\s*\[\s*MTUSize\s*\+\s*(\w+)\s*\]", s)
    t = re.search(r"transmit_buffer_\s*\[\s*MTUSize\s*\+\s*(\w+)\s*\]", s)
    if not m or not t or m.group(1) != "overall_overhead" or t.group(1) != "overall_overhead":
        raise ValueError("receive_buffer_/transmit_buffer_ are no longer MTUSize + overall_overhead bytes")
    if not re.search(r"overall_overhead\s*=\s*header_size\s*\+\s*layout_overhead\s*\+\s*l2cap_header_size", s):
        raise ValueError("overall_overhead is no longer header_size + layout_overhead + l2cap_header_size")
    if not re.search(r"std::uint16_t\s+receive_size_\s*;", s) or not re.search(r"std::uint16_t\s+transmit_size_\s*;", s):
        raise ValueError("receive_size_/transmit_size_ are no longer 16 bit")
    return [("pdu_type_mask", "N", str(cint(const(s, "pdu_type_mask")))),
            ("pdu_type_link_layer", "N", str(cint(const(s, "pdu_type_link_layer")))),
            ("pdu_type_start", "N", str(cint(const(s, "pdu_type_start")))),
            ("pdu_type_continuation", "N", str(cint(const(s, "pdu_type_continuation")))),
            ("l2cap_header_size", "N", str(cint(const(s, "l2cap_header_size")))),
            ("default_att_mtu_size", "N", str(cint(const(c, "default_att_mtu_size")))),
            ("min_buffer_size", "N", str(cint(const(p, "min_buffer_size")))),
            ("max_buffer_size", "N", str(cint(const(p, "max_buffer_size")))),
            ("header_size", "N", str(cint(const(p, "header_size"))))]
def lints(repo):
    s = strip_comments(read(repo, HDR))
    bad = []
    # the harness bounds-checks the intra-object arrays by replacing std::copy: every access to the two
    # arrays has to be a std::copy (3 of them) or the hand-out of &receive_buffer_[0]
    if len(re.findall(r"std::copy\s*\(", s)) != 3:
        bad.append("ll_l2cap_sdu_buffer.hpp: number of std::copy calls changed (harness bounds check)")
    if len(re.findall(r"receive_buffer_\s*\[", s)) != 2 or len(re.findall(r"transmit_buffer_\s*\[", s)) != 5:
        bad.append("ll_l2cap_sdu_buffer.hpp: receive_buffer_ / transmit_buffer_ indexed at new places")
    if re.search(r"mem(cpy|move|set)\s*\(", s):
        bad.append("ll_l2cap_sdu_buffer.hpp: raw memcpy/memmove/memset (not seen by the harness bounds check)")
    return bad
