"""translator plugin for bluetoe/utility/include/bluetoe/ring.hpp (component Ring, property C30)

constants: length - S, and the order of the memory accesses of try_push / try_pop as code lists
    1 read_ptr_.load()   2 write_ptr_.load()   3 data_[..] = ..   4 write_ptr_.store(..)
    5 .. = data_[..]     6 read_ptr_.store(..) 9 any other use of read_ptr_/write_ptr_/data_
plus the shape of the two tests and of the two increments (booleans).
lints: both pointers are std::atomic_int; every load()/store() uses the default (seq_cst) order."""
import os, re, sys
sys.path.insert(0, os.path.dirname(os.path.dirname(os.path.abspath(__file__))))
from srcutil import read, strip_comments
MODULE = "GenRing"
PATH = "bluetoe/utility/include/bluetoe/ring.hpp"

TOKENS = [
    (1, r"read_ptr_\s*\.\s*load\s*\("),
    (2, r"write_ptr_\s*\.\s*load\s*\("),
    (4, r"write_ptr_\s*\.\s*store\s*\("),
    (6, r"read_ptr_\s*\.\s*store\s*\("),
    (3, r"data_\s*\[[^\]]*\]\s*=(?!=)"),
    (5, r"(?<![=!<>])=\s*data_\s*\["),
    (9, r"read_ptr_|write_ptr_|data_"),
]


def body(src, fn):
    m = re.search(r"ring\s*<\s*S\s*,\s*T\s*>\s*::\s*%s\s*\([^)]*\)\s*\{" % fn, src)
    if not m:
        raise ValueError("definition of ring<S,T>::%s not found" % fn)
    i, depth = m.end(), 1
    while depth and i < len(src):
        depth += {"{": 1, "}": -1}.get(src[i], 0)
        i += 1
    return src[m.end():i - 1]


def accesses(b):
    out, i = [], 0
    while i < len(b):
        best = None
        for code, pat in TOKENS:
            m = re.compile(pat).search(b, i)
            if m and (best is None or m.start() < best[1].start()):
                best = (code, m)
        if best is None:
            break
        out.append(best[0])
        i = best[1].end()
    return out


def coq_list(l):
    return "[" + "; ".join(str(x) for x in l) + "]"


def coq_bool(b):
    return "true" if b else "false"


def extract(repo):
    s = strip_comments(read(repo, PATH))
    m = re.search(r"length\s*=\s*S\s*\+\s*(\d+)\s*;", s)
    if not m:
        raise ValueError("length = S + <n> not found")
    push, pop = body(s, "try_push"), body(s, "try_pop")
    sp = lambda t: re.sub(r"\s+", "", t)
    return [
        ("length_minus_S", "N", m.group(1)),
        ("push_accesses", "list N", coq_list(accesses(push))),
        ("pop_accesses", "list N", coq_list(accesses(pop))),
        ("push_next_is_succ_mod_length", "bool", coq_bool("next=(write+1)%length;" in sp(push))),
        ("push_full_test_is_next_eq_read", "bool", coq_bool("if(next==read)returnfalse;" in sp(push))),
        ("pop_empty_test_is_read_eq_write", "bool", coq_bool("if(read==write)returnfalse;" in sp(pop))),
        ("pop_next_is_succ_mod_length", "bool", coq_bool("next=(read+1)%length;" in sp(pop))),
        ("data_has_length_elements", "bool", coq_bool("Tdata_[length];" in sp(s))),
    ]


def lints(repo):
    s = strip_comments(read(repo, PATH))
    bad = []
    for name in ("read_ptr_", "write_ptr_"):
        if not re.search(r"std\s*::\s*atomic_int\s+%s\s*;" % name, s):
            bad.append("%s is not declared as std::atomic_int" % name)
    for m in re.finditer(r"\.\s*load\s*\(([^)]*)\)", s):
        if m.group(1).strip():
            bad.append("load with explicit memory order: %s" % m.group(1).strip())
    for m in re.finditer(r"\.\s*store\s*\(([^)]*)\)", s):
        if "," in m.group(1):
            bad.append("store with explicit memory order: %s" % m.group(1).strip())
    if re.search(r"memory_order", s):
        bad.append("memory_order mentioned in ring.hpp")
    return bad
