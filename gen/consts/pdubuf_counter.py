"""C16: the packet counter of bindings/nordic/nrf52 (widths + a lint on the text of counter::increment)"""
import os, re, sys
sys.path.insert(0, os.path.dirname(os.path.dirname(os.path.abspath(__file__))))
from srcutil import read, strip_comments
MODULE = "GenPduBufCounter"
NRF52_HPP = "bluetoe/bindings/nordic/nrf52/include/bluetoe/nrf52.hpp"
NRF52_CPP = "bluetoe/bindings/nordic/nrf52/nrf52.cpp"


def _norm(s):
    return re.sub(r"\s+", "", s)


def extract(repo):
    h = strip_comments(read(repo, NRF52_HPP))
    m = re.search(r"struct\s+counter\s*\{\s*std::uint(\d+)_t\s+low;\s*std::uint(\d+)_t\s+high;", h)
    if not m:
        raise ValueError("struct counter { uintN_t low; uintM_t high; not found")
    return [("counter_low_bits", "N", m.group(1)), ("counter_high_bits", "N", m.group(2))]
