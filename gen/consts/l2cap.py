import os, re, sys
sys.path.insert(0, os.path.dirname(os.path.dirname(os.path.abspath(__file__))))
from srcutil import read, strip_comments, const, cint, enums_containing
MODULE = "GenL2cap"
SIG = "bluetoe/link_layer/include/bluetoe/l2cap_signaling_channel.hpp"
def arith(txt):
    t = re.sub(r"(?<=[0-9a-fA-F])[uUlL]+\b", "", txt.strip())
    if not re.fullmatch(r"[0-9a-fA-FxX+\-*() ]+", t):
        raise ValueError("not a constant expression: %s" % txt)
    return int(eval(t, {"__builtins__": {}}))
def body_of(src, name):
    """text of the out-of-class definition of signaling_channel< Options... >::<name>"""
    m = re.search(r"signaling_channel<\s*Options\.\.\.\s*>::%s\s*\(" % re.escape(name), src)
    if not m:
        raise ValueError("definition of %s not found" % name)
    i = src.index("{", m.end())
    depth, j = 0, i
    while True:
        depth += {"{": 1, "}": -1}.get(src[j], 0)
        j += 1
        if depth == 0:
            return src[i:j]
def opt(src, name):
    try:
        return "Some %d" % arith(const(src, name))
    except ValueError:
        return "None"
def extract(repo):
    l2 = strip_comments(read(repo, "bluetoe/l2cap.hpp"))
    ch = enums_containing(strip_comments(read(repo, "bluetoe/l2cap_channels.hpp")), "signaling")
    sg = strip_comments(read(repo, SIG))
    codes = strip_comments(read(repo, "bluetoe/utility/include/bluetoe/codes.hpp"))
    r = [("l2cap_layer_header_size", "N", str(arith(const(l2, "l2cap_layer_header_size"))))]
    r += [("cid_" + k, "N", str(ch[k])) for k in ("att", "signaling", "sm")]
    for k in ("command_reject_code", "connection_parameter_update_request_code",
              "connection_parameter_update_response_code", "invalid_identifier"):
        r.append((k, "N", str(arith(const(sg, k)))))
    r.append(("default_att_mtu_size", "N", str(arith(const(codes, "default_att_mtu_size")))))
    r.append(("request_pdu_size", "N", str(arith(const(body_of(sg, "l2cap_output"), "pdu_size")))))
    r.append(("reject_pdu_size", "N", str(arith(const(body_of(sg, "reject_command"), "pdu_size")))))
    m = re.search(r"signaling_channel<\s*Options\.\.\.\s*>::signaling_channel\s*\(\s*\)[^{]*?identifier_\(\s*([0-9a-fxA-FX]+)\s*\)", sg)
    if not m:
        raise ValueError("initial identifier not found")
    r.append(("initial_identifier", "N", str(int(m.group(1), 0))))
    # constants introduced by the repair fix/C31-signaling-response-match (None on a tree without it)
    inp = body_of(sg, "l2cap_input")
    r.append(("response_pdu_size", "option N", opt(inp, "response_pdu_size")))
    r.append(("response_data_length", "option N", opt(inp, "response_data_length")))
    # how many bytes the multiplexer asks the link layer for / offers to a channel
    r.append(("alloc_calls_with_maximum_mtu_size", "N",
              str(len(re.findall(r"allocate_l2cap_output_buffer\(\s*maximum_mtu_size\s*\)", l2)))))
    return r
def lints(repo):
    l2 = strip_comments(read(repo, "bluetoe/l2cap.hpp"))
    bad = []
    # modelling assumptions about the offsets / sizes handed to the channels
    if not re.search(r"output\.second\s*\+\s*l2cap_layer_header_size\s*,\s*maximum_mtu_size\s*,\s*connection", l2):
        bad.append("handle_l2cap_input no longer offers maximum_mtu_size bytes at offset l2cap_layer_header_size")
    if not re.search(r"output\.second\s*\+\s*l2cap_layer_header_size\s*,\s*output\.first\s*-\s*l2cap_layer_header_size\s*,\s*connection", l2):
        bad.append("transmit_single_pending_l2cap_output no longer offers output.first - header bytes at offset header")
    return bad
