import os, re, sys
sys.path.insert(0, os.path.dirname(os.path.dirname(os.path.abspath(__file__))))
from srcutil import read, strip_comments
MODULE = "GenWhiteList"
HPP = "bluetoe/link_layer/include/bluetoe/white_list.hpp"
ADDR = "bluetoe/utility/address.cpp"


def _bool(txt):
    t = txt.strip()
    if t not in ("true", "false"):
        raise ValueError("not a bool literal: %s" % txt)
    return t


def extract(repo):
    s = strip_comments(read(repo, HPP))
    a = strip_comments(read(repo, ADDR))
    m = re.search(r"template\s*<\s*std::size_t\s+Size\s*=\s*(\d+)\s*>\s*class\s+white_list\b", s)
    if not m:
        raise ValueError("default Size of white_list<> not found")
    sw = s.split("class white_list_implementation< Size, true, Radio, LinkLayer >")[1].split("class white_list_implementation< Size, false")[0]
    ctor = re.search(r"white_list_implementation\(\)\s*:(.*?)\{", sw, re.S)
    if not ctor:
        raise ValueError("constructor of the software white list not found")
    inits = dict((k, v.strip()) for k, v in re.findall(r"(\w+)\(\s*([^()]*?)\s*\)", ctor.group(1)))
    for k in ("free_size_", "connection_filter_", "scan_filter_"):
        if k not in inits:
            raise ValueError("member initialiser %s not found" % k)
    d = re.search(r"device_address::device_address\(\)\s*:\s*address\(\)\s*,\s*is_random_\(\s*(\w+)\s*\)", a)
    if not d:
        raise ValueError("device_address default constructor not found")
    z = re.search(r"address::address\(\)\s*\{\s*std::fill\(\s*std::begin\(\s*value_\s*\)\s*,\s*std::end\(\s*value_\s*\)\s*,\s*(\d+)\s*\)", a)
    if not z:
        raise ValueError("address default constructor not found")
    return [("default_size", "N", m.group(1)),
            ("init_free_is_size", "bool", "true" if inits["free_size_"] == "Size" else "false"),
            ("init_connection_filter", "bool", _bool(inits["connection_filter_"])),
            ("init_scan_filter", "bool", _bool(inits["scan_filter_"])),
            ("default_address_byte", "N", z.group(1)),
            ("default_address_is_random", "bool", _bool(d.group(1)))]

