import os, sys
sys.path.insert(0, os.path.dirname(os.path.dirname(os.path.abspath(__file__))))
from srcutil import read, strip_comments, enums_containing
MODULE = "GenCsc"
def extract(repo):
    s = strip_comments(read(repo, "bluetoe/services/csc.hpp"))
    ops = enums_containing(s, "set_cumulative_value_opcode")
    rcs = enums_containing(s, "rc_success")
    codes = enums_containing(strip_comments(read(repo, "bluetoe/utility/include/bluetoe/codes.hpp")), "procedure_already_in_progress")
    r = [(k, "N", str(v)) for k, v in sorted(ops.items())] + [(k, "N", str(v)) for k, v in sorted(rcs.items())]
    r += [("err_" + k, "N", str(codes[k])) for k in ("procedure_already_in_progress", "cccd_improperly_configured")]
    return r
