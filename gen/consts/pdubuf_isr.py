"""C17: the parts of the nRF52 binding that are modelled from source (PduBufSpec.isr_decide,
received_pdu_flags) but not executed by the harness: when their text changes GenPduBufIsr.v stops
compiling and Properties_C17.v names the broken obligation; the model has to be re-read."""
import os, re, sys
sys.path.insert(0, os.path.dirname(os.path.dirname(os.path.abspath(__file__))))
from srcutil import read, strip_comments
MODULE = "GenPduBufIsr"
NRF52_HPP = "bluetoe/bindings/nordic/nrf52/include/bluetoe/nrf52.hpp"
NRF52_CPP = "bluetoe/bindings/nordic/nrf52/nrf52.cpp"


def _norm(s):
    return re.sub(r"\s+", "", s)


def extract(repo):
    return [("isr_text_checked", "bool", "true")]


def lints(repo):
    bad = []
    h = _norm(strip_comments(read(repo, NRF52_HPP)))
    isr = _norm("""( receive_buffer_.buffer == &empty_receive_[ 0 ] || !valid_crc )
                            ? this->next_transmit()
                            : ( valid_pdu
                                ? this->received( receive_buffer_ )
                                : this->acknowledge( receive_buffer_ ) )""")
    if isr not in h or _norm("if ( valid_anchor && ( valid_pdu || valid_crc ) )") not in h:
        bad.append("nrf52.hpp radio_interrupt_handler decision differs from PduBufSpec.isr_decide")
    c = _norm(strip_comments(read(repo, NRF52_CPP)))
    for frag in ("const bool valid_anchor = !timeout && !bus_error;",
                 "const bool valid_pdu = valid_anchor && !crc_error && !not_decrypt && !mic_error;",
                 "const bool mic_error = receive_encrypted_ && receive_size() != 0 && ( nrf_ccm->MICSTATUS & CCM_MICSTATUS_MICSTATUS_Msk ) == CCM_MICSTATUS_MICSTATUS_CheckFailed;",
                 "return { valid_anchor, valid_pdu, !crc_error };"):
        if _norm(frag) not in c:
            bad.append("nrf52.cpp received_pdu differs from the modelled text: " + frag[:40])
    return bad
