"""translator plugin for the PDU ring (C18): layout constants of default_pdu_layout.hpp and nrf.hpp
(encrypted layout), constants of ring_buffer.hpp and the width of the 8 bit pdu_length overload."""
import os, re, sys
sys.path.insert(0, os.path.dirname(os.path.dirname(os.path.abspath(__file__))))
from srcutil import read, strip_comments, const, cint
MODULE = "GenPduRing"

RING = "bluetoe/link_layer/include/bluetoe/ring_buffer.hpp"
DEFAULT_LAYOUT = "bluetoe/link_layer/include/bluetoe/default_pdu_layout.hpp"
NRF = "bluetoe/bindings/nordic/include/bluetoe/nrf.hpp"

SIZEOF = {"std::uint8_t": 1, "std::uint16_t": 2, "std::uint32_t": 4, "std::size_t": 8, "std::uint64_t": 8}
MODULUS = {"std::uint8_t": 256, "std::uint16_t": 65536, "std::uint32_t": 2 ** 32, "std::uint64_t": 0, "std::size_t": 0}


def struct_body(src, name):
    m = re.search(r"struct\s+%s\b[^{;]*\{" % re.escape(name), src)
    if not m:
        raise ValueError("struct %s not found" % name)
    depth, i = 1, m.end()
    while depth and i < len(src):
        depth += {"{": 1, "}": -1}.get(src[i], 0)
        i += 1
    return src[m.end():i - 1]


def layout(src, name):
    """-> (header_size, data_channel_pdu_memory_size(0), data_channel_pdu_memory_size(7), body offset)"""
    b = struct_body(src, name)
    hs = const(b, "header_size")
    m = re.fullmatch(r"sizeof\(\s*([\w:]+)\s*\)", hs)
    header_size = SIZEOF[m.group(1)] if m else cint(hs)
    m = re.search(r"data_channel_pdu_memory_size\(\s*std::size_t\s+(\w+)\s*\)\s*\{\s*return\s+([^;]+);", b)
    if not m:
        raise ValueError("data_channel_pdu_memory_size of %s not found" % name)
    var, expr = m.group(1), m.group(2)
    if not re.fullmatch(r"[\w\s+]+", expr):
        raise ValueError("unexpected size expression in %s: %s" % (name, expr))
    ev = lambda p: eval(expr, {"__builtins__": {}}, {"header_size": header_size, var: p})
    bodies = re.findall(r"&pdu\.buffer\[\s*([^\]]+?)\s*\]\s*,", b)
    offs = set(eval(x, {"__builtins__": {}}, {"header_size": header_size}) for x in bodies)
    if len(offs) != 1:
        raise ValueError("body() offsets of %s: %s" % (name, bodies))
    return header_size, ev(0), ev(7), offs.pop()


def extract(repo):
    ring = strip_comments(read(repo, RING))
    d = layout(strip_comments(read(repo, DEFAULT_LAYOUT)), "default_pdu_layout")
    n = layout(strip_comments(read(repo, NRF)), "encrypted_pdu_layout")
    for hs, m0, m7, _ in (d, n):
        if m7 - m0 != 7:
            raise ValueError("data_channel_pdu_memory_size is not header + payload + constant")
    m = re.search(r"static\s+([\w:]+)\s+pdu_length\(\s*const\s+P&", ring)
    if not m or m.group(1) not in MODULUS:
        raise ValueError("return type of pdu_length( const P& ) not recognised")
    m2 = re.search(r"static\s+([\w:]+)\s+pdu_length\(\s*P\*", ring)
    if not m2 or m2.group(1) != "std::size_t":
        raise ValueError("pdu_length( P* ) no longer returns std::size_t")
    # the definition must agree with the declaration
    md = re.search(r"template\s*<\s*class\s+P\s*>\s*([\w:]+)\s+pdu_ring_buffer<[^>]*>::pdu_length\(\s*const\s+P&", ring)
    if not md or md.group(1) != m.group(1):
        raise ValueError("declaration and definition of pdu_length( const P& ) disagree")
    return [("ll_header_size", "nat", "%d%%nat" % cint(const(ring, "ll_header_size"))),
            ("wrap_mark", "N", str(cint(const(ring, "wrap_mark")))),
            ("default_header_size", "nat", "%d%%nat" % d[0]),
            ("default_overhead", "nat", "%d%%nat" % (d[1] - d[0])),
            ("default_body_offset", "nat", "%d%%nat" % d[3]),
            ("nrf_header_size", "nat", "%d%%nat" % n[0]),
            ("nrf_overhead", "nat", "%d%%nat" % (n[1] - n[0])),
            ("nrf_body_offset", "nat", "%d%%nat" % n[3]),
            ("push_len_mod", "nat", "%d%%nat" % MODULUS[m.group(1)])]


def lints(repo):
    ring = strip_comments(read(repo, RING))
    bad = []
    # modelling assumption: the length field is the high byte of the 16 bit header
    if not re.search(r"Layout::header\(\s*p\s*\)\s*>>\s*8", ring):
        bad.append("pdu_length no longer uses Layout::header( p ) >> 8")
    return bad


if __name__ == "__main__":
    print(extract(sys.argv[1] if len(sys.argv) > 1 else "/repo"))
