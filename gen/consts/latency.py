import os, re, sys
sys.path.insert(0, os.path.dirname(os.path.dirname(os.path.abspath(__file__))))
from srcutil import read, strip_comments, const, cint, enums_containing
MODULE = "GenLatency"
HPP = "bluetoe/link_layer/include/bluetoe/peripheral_latency.hpp"
def extract(repo):
    s = strip_comments(read(repo, HPP))
    cm = strip_comments(read(repo, "bluetoe/link_layer/include/bluetoe/channel_map.hpp"))
    r = [("maximum_link_layer_peripheral_latency", "N", str(cint(const(s, "maximum_link_layer_peripheral_latency")))),
         ("max_number_of_data_channels", "N", str(cint(const(cm, "max_number_of_data_channels"))))]
    # the option enumeration, in declaration order (the harness and the drivers name options by these numbers)
    opts = enums_containing(s, "listen_if_pending_transmit_data")
    r += [("opt_" + k, "N", str(v)) for k, v in sorted(opts.items(), key=lambda kv: kv[1])]
    r.append(("number_of_options", "N", str(len(opts))))
    # the offset expression of peripheral_latency_move_connection_event, as written
    m = re.search(r"offset\s*=\s*\(\s*maximum_link_layer_peripheral_latency\s*/\s*channel_map::max_number_of_data_channels\s*\+\s*1\s*\)\s*\*\s*channel_map::max_number_of_data_channels\s*;", s)
    if not m:
        raise ValueError("move_connection_event offset expression changed")
    r.append(("move_offset", "N", "(maximum_link_layer_peripheral_latency / max_number_of_data_channels + 1) * max_number_of_data_channels"))
    # the named configurations as option lists
    for name in ("peripheral_latency_ignored", "peripheral_latency_strict", "peripheral_latency_strict_plus",
                 "periperal_latency_default_configuration"):
        mm = re.search(r"using\s+%s\s*=\s*peripheral_latency_configuration<([^>]*)>" % name, s)
        if not mm:
            raise ValueError("named configuration %s not found" % name)
        items = [x.strip().split("::")[-1] for x in mm.group(1).split(",") if x.strip()]
        r.append(("cfg_" + name, "list N", "[" + "; ".join("opt_" + i for i in items) + "]"))
    return r
def lints(repo):
    s = strip_comments(read(repo, HPP))
    bad = []
    # modelling assumptions: the only legality rule is the one static_assert on listen_always, and a
    # configuration set is always disarmable
    if len(re.findall(r"static_assert\s*\(\s*!\s*\(\s*listen_always_given\s+and\s+other_parameters_given\s*\)", s)) != 1:
        bad.append("static_assert on listen_always changed")
    if not re.search(r"other_parameters_given\s*=\s*sizeof\.\.\.\(\s*Options\s*\)\s*>\s*1", s):
        bad.append("other_parameters_given changed")
    if not re.search(r"struct\s+listen_if_pending_transmit_data_is_part_of_any_configuration\s*\{\s*using\s+type\s*=\s*std::true_type", s):
        bad.append("configuration_set disarm support changed")
    return bad
