"""translator plugin for the nRF52 security tool box (C37, C38): the constants and buffer offsets the
model transcribes, read from the current sources on every run.
  bindings/nordic/nrf52/security_tool_box.cpp   f5 salt, keyID / length+padding fill bytes, CMAC constant C
                                                (both sub-key functions), f4 padding octet, every &buffer[..] /
                                                &m4_m3[..] offset of f5 / f6 in source order, passkey limit + mask
  bindings/nordic/nrf52/nrf52.cpp               setup_encryption: offsets of SKDm / SKDs in the session key
                                                diversifier and that the key is aes_le( key, session_descriminator )
  tests/test_tools/aes.c                        the S-box of the reference AES (compared with coq/ToolBox/Aes.v)
Properties_C37.v / Properties_C38.v pin them against the model's definitions."""
import os, re, sys
sys.path.insert(0, os.path.dirname(os.path.dirname(os.path.abspath(__file__))))
from srcutil import read, strip_comments
MODULE = "GenToolBox"
TB = "bluetoe/bindings/nordic/nrf52/security_tool_box.cpp"
NRF52 = "bluetoe/bindings/nordic/nrf52/nrf52.cpp"
AESC = "tests/test_tools/aes.c"


def nlist(vals):
    return "[" + "; ".join(str(v) for v in vals) + "]"


def ints(txt):
    return [int(x, 0) for x in re.findall(r"0[xX][0-9a-fA-F]+|\d+", txt)]


def body(src, head):
    """text of the function whose definition starts with regex `head`, up to its closing brace at column 4"""
    m = re.search(head, src)
    if not m:
        raise ValueError("function %s not found" % head)
    e = src.index("\n    }\n", m.end())
    return src[m.end():e]


def array(src, name):
    m = re.search(r"\b%s\s*(?:\[\s*\])?\s*=\s*\{\{?([^}]*)\}" % re.escape(name), src)
    if not m:
        raise ValueError("array %s not found" % name)
    return ints(m.group(1))


def offsets(src, var):
    """value of every index expression `var[ a + b ]` (sums of literals only), in source order"""
    out = []
    for m in re.finditer(r"\b%s\s*\[\s*([0-9+\s]+?)\s*\]" % re.escape(var), src):
        out.append(sum(int(x) for x in m.group(1).split("+")))
    return out


def extract(repo):
    s = strip_comments(read(repo, TB))
    r = []
    f5 = body(s, r"security_tool_box::f5\(")
    f5key = body(s, r"uint128_t f5_key\(")
    f6 = body(s, r"security_tool_box::f6\(")
    f4 = body(s, r"security_tool_box::f4\(")
    k1 = body(s, r"uint128_t aes_cmac_k1_subkey_generation\(")
    k2 = body(s, r"uint128_t aes_cmac_k2_subkey_generation\(")
    r.append(("f5_salt", "list N", nlist(array(f5key, "salt"))))
    r.append(("f5_m0_fill", "list N", nlist(array(f5, "m0_fill"))))
    r.append(("f5_m3_fill", "list N", nlist(array(f5, "m3_fill"))))
    r.append(("cmac_C_k1", "list N", nlist(array(k1, "C"))))
    r.append(("cmac_C_k2", "list N", nlist(array(k2, "C"))))
    r.append(("f4_m4", "list N", nlist(ints(re.search(r"m4\s*=\s*\{\{([^}]*)\}", f4).group(1).replace("z", "")))))
    r.append(("f5_buffer_size", "N", re.search(r"buffer\[\s*(\d+)\s*\]\s*=", f5).group(1)))
    r.append(("f5_offsets", "list N", nlist(offsets(f5.split("=", 1)[1], "buffer"))))
    r.append(("f6_buffer_size", "N", re.search(r"m4_m3\[\s*(\d+)\s*\]\s*=", f6).group(1)))
    r.append(("f6_offsets", "list N", nlist(offsets(f6.split("=", 1)[1], "m4_m3"))))
    # create_passkey: absent (0) on a tree without the range check
    pk = body(s, r"security_tool_box::create_passkey\(\)")
    m = re.search(r"passkey_limit\s*=\s*(\d+)", pk)
    r.append(("passkey_limit", "N", m.group(1) if m else "0"))
    m = re.search(r"&\s*(0[xX][0-9a-fA-F]+)\s*;", pk)
    r.append(("passkey_mask", "N", str(int(m.group(1), 16)) if m else "0"))
    r.append(("passkey_draws_per_sample", "N", str(len(re.findall(r"random_number8\(\)", pk)))))
    # session key
    n = strip_comments(read(repo, NRF52))
    se = body(n, r"radio_hardware_with_crypto_support::setup_encryption\(")
    m1 = re.search(r"write_64bit\(\s*&session_descriminator\[\s*(\d+)\s*\]\s*,\s*skdm\s*\)", se)
    m2 = re.search(r"write_64bit\(\s*&session_descriminator\[\s*(\d+)\s*\]\s*,\s*skds\s*\)", se)
    if not (m1 and m2 and re.search(r"aes_le\(\s*key\s*,\s*session_descriminator\s*\)", se)):
        raise ValueError("setup_encryption: session key derivation has changed shape")
    r.append(("skdm_offset", "N", m1.group(1)))
    r.append(("skds_offset", "N", m2.group(1)))
    a = strip_comments(read(repo, AESC))
    m = re.search(r"\bsbox\s*\[\s*256\s*\]\s*=\s*\{([^}]*)\}", a)
    sb = ints(m.group(1))
    if len(sb) != 256:
        raise ValueError("aes.c sbox: %d entries" % len(sb))
    r.append(("aes_c_sbox", "list N", nlist(sb)))
    return r
