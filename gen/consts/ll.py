"""Translator plugin for component LL: constants of link_layer.hpp / delta_time.cpp / connection_callbacks.hpp /
ll_options.hpp read from the CURRENT sources into coq/gen/GenLL.v.

Besides the plain constants it reads three tables:
  acceptance        the (opcode, size) pairs tested in handle_ll_control_data(), handle_encryption_pdus() and
                    handle_phy_request() (every `opcode == LL::X && size == N` comparison), in source order
  inaccuracy_ppm    the sleep clock accuracy table of sleep_clock_accuracy()
  timing_checks     the member names compared in check_timing_paremeters() (so that a check that is added or removed
                    there changes a pinned Example in Props/Properties_C22.v)
"""
import os, re, sys
sys.path.insert(0, os.path.dirname(os.path.dirname(os.path.abspath(__file__))))
from srcutil import read, strip_comments, cint
MODULE = "GenLL"
LL = "bluetoe/link_layer/include/bluetoe/link_layer.hpp"
DT = "bluetoe/link_layer/delta_time.cpp"
CB = "bluetoe/link_layer/include/bluetoe/connection_callbacks.hpp"
OPT = "bluetoe/link_layer/include/bluetoe/ll_options.hpp"


def _consts(src, pat=r"static\s+constexpr\s+[\w:]+\s+(\w+)\s*=\s*([^;]+);"):
    return dict((k, v.strip()) for k, v in re.findall(pat, src))


def _eval(txt):
    t = re.sub(r"(?<=[0-9a-fA-F])[uUlL]+\b", "", txt)
    if not re.fullmatch(r"[0-9a-fA-Fx\s*+\-()]+", t):
        raise ValueError("cannot evaluate constant expression: %s" % txt)
    return int(eval(t, {"__builtins__": {}}, {}))


def _cexpr(txt, env=None):
    """a C integer constant expression over non negative values (+ - * / % << >> & | and parentheses; `/` truncates)"""
    t = re.sub(r"(?<=[0-9a-fA-F])[uUlL]+\b", "", txt).strip()
    if not t or not re.fullmatch(r"[0-9a-fA-FxX\s*+\-()/%<>&|]+", t):
        raise ValueError("cannot evaluate constant expression: %s" % txt)
    return int(eval(t.replace("/", "//"), {"__builtins__": {}}, dict(env or {})))


def _sca_table(s):
    """What sleep_clock_accuracy() RETURNS for the SCA fields 0..7 - not how the table is spelled: the initialiser
    expressions are evaluated with C semantics (integer division, width of the element type) and put through the
    arithmetic of the return statement. A function that cannot be read this way yields [] (the model then disagrees
    with the implementation and the pinned Example in Props/Properties_C22.v fails) - never an exception: the
    specification monitor, which has the Core table as a literal, must still get to judge the implementation."""
    try:
        m = re.search(r"::sleep_clock_accuracy\s*\([^)]*\)\s*const\s*\{(.*?)\n    \}", s, re.S)
        body = m.group(1)
        m = re.search(r"([\w:]+)\s+(\w+)\s*\[\s*\d*\s*\]\s*=\s*\{([^}]*)\}", body)
        typ, name, init = m.group(1), m.group(2), m.group(3)
        w = re.search(r"int(\d+)_t", typ)
        mask = (1 << int(w.group(1))) - 1 if w else 0xffffffff
        stored = [_cexpr(x) & mask for x in init.split(",") if x.strip()]
        ret = re.search(r"return\s+(.*?);", body, re.S).group(1)
        # replace `name[ <index expression> ]` (brackets nest once: received_body[ 33 ]) by X
        i = ret.index(name)
        j, depth = ret.index("[", i), 0
        for k in range(j, len(ret)):
            depth += ret[k] == "["
            depth -= ret[k] == "]"
            if depth == 0:
                break
        idx = ret[j + 1:k]
        if not re.search(r">>\s*5", idx) or not re.search(r"&\s*(0x7|7)\b", idx):
            return []
        expr = ret[:i] + " X " + ret[k + 1:]
        expr = re.sub(r"static_cast\s*<[^>]*>", "", expr)
        if len(stored) != 8 or not re.fullmatch(r"[0-9a-fA-FxXuUlL\s*+\-()/%<>&|]+", expr):
            return []
        out = []
        for v in stored:
            e = re.sub(r"\bX\b", str(v), expr)
            out.append(_cexpr(e) & 0xffffffff)
        return out
    except Exception:
        return []


def extract(repo):
    s = strip_comments(read(repo, LL))
    c = _consts(s)
    r = []
    ops = sorted((k, _eval(v)) for k, v in c.items() if re.fullmatch(r"LL_[A-Z_0-9]+", k) and k not in ("LL_VERSION_NR", "LL_VERSION_40"))
    if len(ops) < 20:
        raise ValueError("LL control opcodes not found")
    for k, v in ops:
        r.append((k, "N", str(v)))
    r.append(("opcodes", "list N", "[" + "; ".join(k for k, _ in sorted(ops, key=lambda x: x[1])) + "]"))
    for k in ("LL_VERSION_NR", "LL_VERSION_40", "err_pin_or_key_missing", "company_identifier", "connection_timeout",
              "connection_terminated_by_local_host", "connection_ll_response_timeout", "connection_instant_passed",
              "default_procedure_timeout_us", "num_windows_til_timeout", "us_per_digits", "ll_control_pdu_code",
              "lld_data_pdu_code", "maximum_ll_payload_size", "first_advertising_channel"):
        if k not in c:
            m = re.search(r"static\s+constexpr\s+auto\s+%s\s*=\s*([^;]+);" % k, s)
            if not m:
                raise ValueError("constant %s not found" % k)
            c[k] = m.group(1)
        r.append((k, "N", str(_eval(c[k]))))
    # feature bits
    m = re.search(r"struct\s+link_layer_feature\s*\{\s*enum\s*:\s*std::uint16_t\s*\{([^}]*)\}", s)
    if not m:
        raise ValueError("link_layer_feature not found")
    for item in m.group(1).split(","):
        k, v = item.split("=")
        r.append(("feature_" + k.strip(), "N", str(cint(v))))
    # sleep clock accuracy table
    r.append(("inaccuracy_ppm", "list N", "[" + "; ".join(map(str, _sca_table(s))) + "]"))
    # (opcode, size) acceptance comparisons, in source order
    acc = re.findall(r"opcode\s*==\s*(?:LinkLayer::|LL::)?(LL_\w+)\s*&&\s*size\s*==\s*(\d+)", s)
    if len(acc) < 14:
        raise ValueError("acceptance comparisons not found (%d)" % len(acc))
    r.append(("acceptance", "list (N * N)", "[" + "; ".join("(%s, %s)" % (o, n) for o, n in acc) + "]"))
    # check_timing_paremeters: limits and the members that are compared
    m = re.search(r"::check_timing_paremeters\(\)\s*const\s*\{(.*?)\n    \}", s, re.S)
    if not m:
        raise ValueError("check_timing_paremeters not found")
    body = m.group(1)
    lim = dict(re.findall(r"static\s+constexpr\s+delta_time\s+(\w+)\(\s*([^;]+?)\s*\);", body))
    for k in ("maximum_transmit_window_offset", "maximum_connection_timeout", "minimum_connection_timeout"):
        if k not in lim:
            raise ValueError("limit %s not found" % k)
        r.append((k, "N", str(_eval(lim[k]))))
    for k in ("minimum_transmit_window_size", "minimum_connection_interval", "maximum_connection_interval"):
        if k in lim:     # present after the repair fix/C22-connect-timing-ranges
            r.append((k, "N", str(_eval(lim[k].replace("us_per_digits", c["us_per_digits"])))))
    ret = re.search(r"return(.*?);", body, re.S).group(1)
    conj = [re.sub(r"\s+", " ", x.strip()) for x in ret.split("&&")]
    r.append(("timing_checks", "list string", "[" + "; ".join('"%s"%%string' % x for x in conj) + "]"))
    # does the LL_PHY_REQ branch of transmit_pending_control_pdus() arm procedure_timeout_ ? (finding C27-phy-req-no-timeout)
    r.append(("phy_request_arms_timeout", "bool",
              "true" if re.search(r"else if \( phy_update_request_pending_ \)\s*\{[^}]*procedure_timeout_\s*=", s) else "false"))
    # delta_time::ppm
    d = strip_comments(read(repo, DT))
    m = re.search(r"usec_\s*\)\s*\*\s*part\s*\*\s*(\d+)\s*\)\s*>>\s*(\d+)", d)
    if not m:
        raise ValueError("ppm formula not found")
    r.append(("ppm_multiplier", "N", m.group(1)))
    r.append(("ppm_shift", "N", m.group(2)))
    # connection_callbacks
    cb = _consts(strip_comments(read(repo, CB)))
    for k in ("max_events", "version_ind_size", "feature_field_size"):
        r.append((k, "N", str(_eval(cb[k]))))
    # ll_options: parameter request limits
    o = _consts(strip_comments(read(repo, OPT)))
    for k in ("interval_minimum", "interval_maximum", "latency_maximum", "invalid_ll_paramerters", "unacceptable_connection_parameters"):
        r.append((k, "N", str(_eval(o[k]))))
    return r
