import os, re, sys
sys.path.insert(0, os.path.dirname(os.path.dirname(os.path.abspath(__file__))))
from srcutil import read, strip_comments, const, cint
MODULE = "GenAdv"


def extract(repo):
    s = strip_comments(read(repo, "bluetoe/link_layer/include/bluetoe/advertising.hpp"))
    out = []
    for n in ["header_txaddr_field", "header_rxaddr_field", "advertising_pdu_header_size", "adv_ind_pdu_type_code",
              "adv_direct_ind_pdu_type_code", "adv_nonconn_ind_pdu_type_code", "adv_scan_ind_pdu_type_code",
              "scan_response_pdu_type_code", "address_length", "maximum_adv_request_size", "connect_request_size",
              "connect_request_code", "scan_request_code", "first_advertising_channel", "last_advertising_channel",
              "max_adv_perturbation_"]:
        out.append((n.rstrip("_"), "N", str(cint(const(s, n)))))
    # scan_request_size = 2 * address_length
    m = re.search(r"scan_request_size\s*=\s*(\d+)\s*\*\s*address_length\s*;", s)
    if not m:
        raise ValueError("scan_request_size")
    out.append(("scan_request_size", "N", str(int(m.group(1)) * cint(const(s, "address_length")))))
    # adv_perturbation_ = ( adv_perturbation_ + 7 ) % ( max_adv_perturbation_ + 1 );
    m = re.search(r"adv_perturbation_\s*=\s*\(\s*adv_perturbation_\s*\+\s*(\d+)\s*\)\s*%\s*\(\s*max_adv_perturbation_\s*\+\s*1\s*\)", s)
    if not m:
        raise ValueError("perturbation stride")
    out.append(("perturbation_stride", "N", m.group(1)))
    # the perturbation is added in milliseconds
    if not re.search(r"current_advertising_interval\(\)\s*\+\s*delta_time::msec\(\s*adv_perturbation_\s*\)", s):
        raise ValueError("perturbation unit")
    # default interval: advertising_interval< 100 > as default option, msec( 100 ) in variable_advertising_interval
    m = re.search(r"advertising_interval_meta_type,\s*Options\.\.\.,\s*advertising_interval<\s*(\d+)\s*>", s)
    m2 = re.search(r"interval_\(\s*delta_time::msec\(\s*(\d+)\s*\)\s*\)", s)
    if not m or not m2:
        raise ValueError("default interval")
    out.append(("default_interval_ms", "N", m.group(1)))
    out.append(("default_variable_interval_ms", "N", m2.group(1)))
    # accepted range of the interval (static_assert and both setters)
    lo = re.findall(r"AdvertisingIntervalMilliSeconds\s*>=\s*(\d+)", s) + re.findall(r"interval_ms\s*>=\s*(\d+)", s) + re.findall(r"interval\s*>=\s*delta_time::msec\(\s*(\d+)\s*\)", s)
    hi = re.findall(r"AdvertisingIntervalMilliSeconds\s*<=\s*(\d+)", s) + re.findall(r"interval_ms\s*<=\s*(\d+)", s) + re.findall(r"interval\s*<=\s*delta_time::msec\(\s*(\d+)\s*\)", s)
    if len(lo) != 3 or len(hi) != 3 or len(set(lo)) != 1 or len(set(hi)) != 1:
        raise ValueError("interval range")
    out.append(("min_interval_ms", "N", lo[0]))
    out.append(("max_interval_ms", "N", hi[0]))
    # the variable channel map starts with all three channels
    m = re.search(r"map_\(\s*(0x[0-9a-fA-F]+|\d+)\s*\)", s)
    if not m:
        raise ValueError("initial map")
    out.append(("initial_channel_map", "N", str(cint(m.group(1)))))
    return out


def lints(repo):
    s = strip_comments(read(repo, "bluetoe/link_layer/include/bluetoe/advertising.hpp"))
    bad = []
    # modelling assumption: the single type and the multi type advertiser share the text of
    # handle_adv_receive up to the extra argument selected_
    bodies = re.findall(r"bool handle_adv_receive\(.*?\n            \}", s, re.S)
    if len(bodies) != 2 or bodies[0].replace(" ", "") != bodies[1].replace(", selected_", "").replace(" ", ""):
        bad.append("handle_adv_receive of the single and the multi type advertiser differ")
    # the stub link layer of harness/adv_harness.cpp stands for link_layer<>: its callers of the mixin are
    # adv_received -> handle_adv_receive( receive, remote_address ), adv_timeout -> handle_adv_timeout(),
    # start_advertising_impl -> handle_start_advertising(), and handle_stop_advertising() after a connection
    l = strip_comments(read(repo, "bluetoe/link_layer/include/bluetoe/link_layer.hpp"))
    def body(name):
        m = re.search(r"::%s\([^)]*\)\s*\{(.*?)\n    \}" % name, l, re.S)
        return m.group(1) if m else ""
    if len(re.findall(r"this->handle_adv_receive\(\s*receive\s*,\s*remote_address\s*\)", body("adv_received"))) != 1 \
            or len(re.findall(r"handle_adv_receive", l)) != 1:
        bad.append("link_layer adv_received no longer calls handle_adv_receive exactly once")
    if not re.search(r"this->handle_stop_advertising\(\)", body("adv_received")):
        bad.append("link_layer adv_received no longer calls handle_stop_advertising")
    if re.sub(r"\s|assert\([^;]*\);", "", body("adv_timeout")) != "this->handle_adv_timeout();" or len(re.findall(r"handle_adv_timeout", l)) != 1:
        bad.append("link_layer adv_timeout is no longer just handle_adv_timeout")
    if len(re.findall(r"this->handle_start_advertising\(\)", body("start_advertising_impl"))) != 1 or len(re.findall(r"handle_start_advertising", l)) != 1:
        bad.append("link_layer start_advertising_impl no longer calls handle_start_advertising exactly once")
    return bad
