import os, re, sys
sys.path.insert(0, os.path.dirname(os.path.dirname(os.path.abspath(__file__))))
from srcutil import read, strip_comments, cint
MODULE = "GenPduBuf"
HPP = "bluetoe/link_layer/include/bluetoe/ll_data_pdu_buffer.hpp"
NRF52_HPP = "bluetoe/bindings/nordic/nrf52/include/bluetoe/nrf52.hpp"
NRF52_CPP = "bluetoe/bindings/nordic/nrf52/nrf52.cpp"


def _const(src, name):
    m = re.search(r"\b%s\s*=\s*([^;,}]+)[;,}]" % re.escape(name), src)
    if not m:
        raise ValueError("constant %s not found" % name)
    return cint(m.group(1))


def _norm(s):
    return re.sub(r"\s+", "", s)


def extract(repo):
    s = strip_comments(read(repo, HPP))
    out = [(n, "N", str(_const(s, n))) for n in
           ("min_buffer_size", "max_buffer_size", "header_size", "ll_header_size", "more_data_flag", "sn_flag",
            "nesn_flag", "ll_empty_id", "header_rfu_mask")]
    return out
