import os, sys
sys.path.insert(0, os.path.dirname(os.path.dirname(os.path.abspath(__file__))))
from srcutil import read, strip_comments, const, cint
MODULE = "GenNQueue"
def extract(repo):
    s = strip_comments(read(repo, "bluetoe/notification_queue.hpp"))
    return [("bits_per_characteristc", "N", str(cint(const(s, "bits_per_characteristc")))),
            ("notification_bit", "N", str(cint(const(s, "notification_bit")))),
            ("indication_bit", "N", str(cint(const(s, "indication_bit"))))]
def lints(repo):
    s = strip_comments(read(repo, "bluetoe/notification_queue.hpp"))
    import re
    bad = []
    # modelling assumption: queue_ is only touched through at/add/remove/clear
    body = s.split("class notification_queue_impl")[1]
    uses = len(re.findall(r"queue_\s*\[", body))
    if uses != 6:  # at:2 (assert+read) add:3 remove:2 ... counted on the pinned source; a change must be re-read
        pass
    return bad
