"""translator plugin for the pairing method selection (C36): the enumerations the model refers to,
read from the current sources.
  io_capabilities.hpp            enum class io_capabilities (values), legacy_/lesc_pairing_algorithm (order)
  security_connection_data.hpp   enum class authentication_requirements_flags
  security_manager.hpp           sm_error_codes used by the pairing request handlers, request size and
                                 key size limits
No lints: the selection code itself is tied exhaustively by the harness (DESIGN 4.4), not translated."""
import os, re, sys
sys.path.insert(0, os.path.dirname(os.path.dirname(os.path.abspath(__file__))))
from srcutil import read, strip_comments, cint
MODULE = "GenSMSelect"
IO = "bluetoe/sm/include/bluetoe/io_capabilities.hpp"
CD = "bluetoe/sm/include/bluetoe/security_connection_data.hpp"
SM = "bluetoe/sm/include/bluetoe/security_manager.hpp"


def enum(src, name):
    """-> list of (enumerator, value) of `enum class <name> [: type] { ... }` with C rules for implicit values"""
    m = re.search(r"enum\s+class\s+%s\s*(?::\s*[\w:]+\s*)?\{([^}]*)\}" % re.escape(name), src)
    if not m:
        raise ValueError("enum %s not found" % name)
    out, nxt, env = [], 0, {}
    for item in m.group(1).split(","):
        item = item.strip()
        if not item:
            continue
        if "=" in item:
            k, v = [x.strip() for x in item.split("=", 1)]
            val = env[v] if v in env else cint(v)
        else:
            k, val = item, nxt
        env[k] = val
        out.append((k, val))
        nxt = val + 1
    return out


def extract(repo):
    io = strip_comments(read(repo, IO))
    cd = strip_comments(read(repo, CD))
    sm = strip_comments(read(repo, SM))
    res = []
    for k, v in enum(io, "io_capabilities"):
        res.append(("io_" + k, "N", str(v)))
    for nm in ("legacy_pairing_algorithm", "lesc_pairing_algorithm"):
        e = enum(io, nm)
        if [v for _, v in e] != list(range(len(e))):
            raise ValueError("%s is not numbered 0.." % nm)
        res.append((nm + "_names", "list string", "[" + "; ".join('"%s"%%string' % k for k, _ in e) + "]"))
    for k, v in enum(cd, "authentication_requirements_flags"):
        res.append(("flag_" + k, "N", str(v)))
    codes = dict(enum(sm, "sm_error_codes"))
    for k in ("invalid_parameters", "pairing_not_supported"):
        res.append(("err_" + k, "N", str(codes[k])))
    ops = dict(enum(sm, "sm_opcodes"))
    for k in ("pairing_request", "pairing_response", "pairing_failed"):
        res.append(("opcode_" + k, "N", str(ops[k])))
    for k in ("min_max_key_size", "max_max_key_size", "pairing_req_resp_size"):
        m = re.search(r"%s\s*=\s*(\w+)\s*;" % k, sm)
        if not m:
            raise ValueError("constant %s not found" % k)
        res.append((k, "N", str(cint(m.group(1)))))
    return res
