import os, re, sys
sys.path.insert(0, os.path.dirname(os.path.dirname(os.path.abspath(__file__))))
from srcutil import read, strip_comments, const, cint
MODULE = "GenChanMap"
HPP = "bluetoe/link_layer/include/bluetoe/channel_map.hpp"
CPP = "bluetoe/link_layer/channel_map.cpp"
LL = "bluetoe/link_layer/include/bluetoe/link_layer.hpp"
PL = "bluetoe/link_layer/include/bluetoe/peripheral_latency.hpp"
def _ws(s):
    return re.sub(r"\s+", "", s)
def extract(repo):
    h = strip_comments(read(repo, HPP))
    c = strip_comments(read(repo, CPP))
    l = strip_comments(read(repo, LL))
    m = re.search(r"if\s*\(\s*hop\s*<\s*(\w+)\s*\|\|\s*hop\s*>\s*(\w+)\s*\)\s*return\s+false", c)
    if not m:
        raise ValueError("hop range check of channel_map::reset not found")
    u = re.search(r"if\s*\(\s*used_channels_count\s*<\s*(\w+)\s*\)\s*return\s+false", c)
    if not u:
        raise ValueError("used channel count check of channel_map::reset not found")
    r = re.search(r"channels_\.reset\(\s*&body\[\s*(\w+)\s*\]\s*,\s*body\[\s*(\w+)\s*\]\s*&\s*(\w+)\s*\)", l)
    if not r:
        raise ValueError("channels_.reset( &body[..], body[..] & mask ) of adv_received not found")
    return [("max_number_of_data_channels", "nat", str(cint(const(h, "max_number_of_data_channels"))) + "%nat"),
            ("hop_min", "N", str(cint(m.group(1)))), ("hop_max", "N", str(cint(m.group(2)))),
            ("min_used_channels", "nat", str(cint(u.group(1))) + "%nat"),
            ("connect_ind_map_offset", "nat", str(cint(r.group(1))) + "%nat"),
            ("connect_ind_hop_offset", "nat", str(cint(r.group(2))) + "%nat"),
            ("connect_ind_hop_mask", "N", str(cint(r.group(3))))]
def lints(repo):
    """the shapes of link_layer.hpp / peripheral_latency.hpp / channel_map.cpp that ChanMapModel.v transcribes
    (textual tie of the ll_step decisions; a changed shape must be re-read)"""
    bad = []
    c = _ws(strip_comments(read(repo, CPP)))
    l = _ws(strip_comments(read(repo, LL)))
    p = _ws(strip_comments(read(repo, PL)))
    def need(src, text, what):
        if _ws(text) not in src:
            bad.append(what)
    need(l, "if ( channels_.reset( &body[ 28 ], body[ 33 ] & 0x1f ) && parse_timing_parameters_from_connect_request( body ) ) { this->reset_connection_state(); state_ = state::connecting;",
         "adv_received connect request decision changed")
    need(l, "if ( opcode == LL_CHANNEL_MAP_REQ ) { channels_.reset( &body[ 1 ] ); }", "handle_pending_ll_control channel map update changed")
    need(l, "channels_.data_channel( this->current_channel_index() )", "setup_next_connection_event channel lookup changed")
    if len(re.findall(r"channels_\.reset\(", l)) != 2:
        bad.append("number of channels_.reset call sites in link_layer.hpp is not 2")
    need(p, "channel_index_ = ( channel_index_ + connection_peripheral_latency ) % channel_map::max_number_of_data_channels;", "plan_next_connection_event channel index changed")
    need(p, "channel_index_ = ( channel_index_ + 1 ) % channel_map::max_number_of_data_channels;", "plan_next_connection_event_after_timeout channel index changed")
    need(p, "void reset_connection_state() { channel_index_ = 0;", "reset_connection_state channel index changed")
    need(c, "return map[ index / 8 ] & ( 1 << ( index % 8 ) );", "in_map changed")
    need(c, "bool channel_map::reset( const std::uint8_t* map ) { return reset( map, hop_ ); }", "reset( map ) changed")
    return bad
