#!/usr/bin/env python3
"""Configuration language of the AttDb/AttSrv components: a JSON description of a
`bluetoe::server<...>` declaration, turned into

  (a) the C++ declaration + bound variables + per-characteristic tables for harness/attsrv_harness.cpp
      (emit_cpp / emit_inc), and
  (b) the one-token text encoding that is the 2nd cfg word of a CASE line (encode); the OCaml driver
      ocaml/attsrv_driver.ml parses it into the Coq record AttDbModel.cfg.

JSON schema (all keys optional unless marked *):
  { "name": str, "mtu": int (max_mtu_size<N>, default 23), "wq": int|null (shared_write_queue<S>),
    "enc": [enc-option...], "prio": [service uuid...] (higher_outgoing_priority<...> at the server),
    "services"*: [ { "uuid"*: uuid, "secondary": bool, "handle": int|null (attribute_handle<H>),
                     "includes": [service uuid...], "enc": [...], "prio": [characteristic uuid...],
                     "chars": [ { "uuid"*: uuid, "handle": null | int | [decl, value, cccd],
                                  "value"*: value, "opts": [opt...], "name": str|null,
                                  "descs": [ {"uuid": uuid16, "bytes": hex} ], "enc": [...] } ] } ] }
  uuid        4 hex digits (16 bit) or 32 hex digits (128 bit, textual order AAAAAAAABBBBCCCCDDDDEEEEEEEEEEEE)
  enc-option  "requires_encryption" | "no_encryption_required" | "may_require_encryption"
  opt         "no_read_access" | "no_write_access" | "notify" | "indicate" | "write_without_response" |
              "only_write_without_response"
  value       {"kind": "bind", "size": n, "const": bool}      bind_characteristic_value< [const] verif::blob<n>, &v >
              {"kind": "fixed", "size": 1|2|4, "value": int}   fixed_value< std::uintN_t, value >
              {"kind": "cstring", "text": str}                cstring_value< name >      (printable ASCII)
              {"kind": "blob", "bytes": hex}                  fixed_blob_value< bytes, n >
              {"kind": "handler", "size": n, "read": bool, "write": bool, "blob": bool}
                     free_read[_blob]_handler / free_[raw_]write[_blob]_handler over a harness buffer of n bytes

`no_gap_service_for_gatt_servers` is always added. Only the combinations that the headers accept are
meaningful (AttDbModel.wf_b); props/att_common.py filters generated configurations through the model's wf_b.

Text encoding (no blanks; ';'-separated words, 'S' starts a service, 'C' a characteristic):
  mtu=<n>;wq=<n|->;enc=<enc>;prio=<uuids>{;S;u=<uuid>;sec=<0|1>;h=<n|->;inc=<uuids>;enc=<enc>;prio=<uuids>
      {;C;u=<uuid>;h=<-|n|d/v/c>;v=<value>;opt=<opts>;name=<-|:hex>;desc=<-|uuid16:hex,...>;enc=<enc>}}
  enc    '-' or letters of r (requires) n (no_encryption_required) m (may_require)
  uuids  '-' or comma separated uuids           opts  '-' or comma separated of nr,nw,n,i,wwr,owwr
  value  b:<n> | cb:<n> | f:<size>:<hex value> | s:<hex> | x:<hex> | hd:<n>:<letters of r,w,b>
"""
import hashlib, json, sys

ENC = {"requires_encryption": "r", "no_encryption_required": "n", "may_require_encryption": "m"}
OPT = {"no_read_access": "nr", "no_write_access": "nw", "notify": "n", "indicate": "i",
       "write_without_response": "wwr", "only_write_without_response": "owwr"}


def norm(cfg):
    """fill in defaults; returns a new dict"""
    c = dict(name=cfg.get("name", "cfg"), mtu=cfg.get("mtu", 23), wq=cfg.get("wq"), enc=list(cfg.get("enc") or []),
             prio=[u.lower() for u in (cfg.get("prio") or [])], services=[])
    for s in cfg["services"]:
        ns = dict(uuid=s["uuid"].lower(), secondary=bool(s.get("secondary")), handle=s.get("handle"),
                  includes=[u.lower() for u in (s.get("includes") or [])], enc=list(s.get("enc") or []),
                  prio=[u.lower() for u in (s.get("prio") or [])], chars=[])
        for ch in s.get("chars") or []:
            v = dict(ch["value"])
            ns["chars"].append(dict(uuid=ch["uuid"].lower(), handle=ch.get("handle"), value=v, opts=list(ch.get("opts") or []),
                                    name=ch.get("name"), descs=[dict(uuid=d["uuid"].lower(), bytes=d["bytes"].lower()) for d in (ch.get("descs") or [])],
                                    enc=list(ch.get("enc") or [])))
        c["services"].append(ns)
    return c


def _enc(l):
    return "".join(ENC[x] for x in l) or "-"


def _uuids(l):
    return ",".join(l) or "-"


def _value(v):
    k = v["kind"]
    if k == "bind":
        return ("cb:%d" if v.get("const") else "b:%d") % v["size"]
    if k == "fixed":
        return "f:%d:%x" % (v["size"], v["value"])
    if k == "cstring":
        return "s:" + v["text"].encode("ascii").hex()
    if k == "blob":
        return "x:" + v["bytes"].lower()
    if k == "handler":
        return "hd:%d:%s" % (v["size"], ("r" if v.get("read") else "") + ("w" if v.get("write") else "") + ("b" if v.get("blob") else ""))
    raise ValueError(k)


def encode(cfg):
    c = norm(cfg)
    w = ["mtu=%d" % c["mtu"], "wq=%s" % ("-" if c["wq"] is None else c["wq"]), "enc=" + _enc(c["enc"]), "prio=" + _uuids(c["prio"])]
    for s in c["services"]:
        w += ["S", "u=" + s["uuid"], "sec=%d" % s["secondary"], "h=%s" % ("-" if s["handle"] is None else s["handle"]),
              "inc=" + _uuids(s["includes"]), "enc=" + _enc(s["enc"]), "prio=" + _uuids(s["prio"])]
        for ch in s["chars"]:
            h = ch["handle"]
            hs = "-" if h is None else ("%d/%d/%d" % tuple(h) if isinstance(h, (list, tuple)) else "%d" % h)
            w += ["C", "u=" + ch["uuid"], "h=" + hs, "v=" + _value(ch["value"]), "opt=" + (",".join(OPT[o] for o in ch["opts"]) or "-"),
                  "name=" + ("-" if ch["name"] is None else ":" + ch["name"].encode("ascii").hex()),
                  "desc=" + (",".join("%s:%s" % (d["uuid"], d["bytes"]) for d in ch["descs"]) or "-"), "enc=" + _enc(ch["enc"])]
    return ";".join(w)


def decode(text, name="cfg"):
    """inverse of encode: the JSON description from the text encoding (so that a replay / corpus trace is
    self-contained: the harness configuration is regenerated from the CASE line)"""
    ENC_R = {v: k for k, v in ENC.items()}
    OPT_R = {v: k for k, v in OPT.items()}
    lst = lambda s: [] if s == "-" else s.split(",")
    cfg, svc, ch = dict(name=name, services=[]), None, None
    cur = cfg
    for w in text.split(";"):
        if w == "S":
            svc = dict(chars=[])
            cfg["services"].append(svc)
            cur = svc
            continue
        if w == "C":
            ch = dict()
            svc["chars"].append(ch)
            cur = ch
            continue
        k, v = w.split("=", 1)
        if k == "mtu":
            cur["mtu"] = int(v)
        elif k == "wq":
            cur["wq"] = None if v == "-" else int(v)
        elif k == "enc":
            cur["enc"] = [] if v == "-" else [ENC_R[x] for x in v]
        elif k == "prio":
            cur["prio"] = lst(v)
        elif k == "u":
            cur["uuid"] = v
        elif k == "sec":
            cur["secondary"] = v == "1"
        elif k == "inc":
            cur["includes"] = lst(v)
        elif k == "h":
            if cur is svc:
                cur["handle"] = None if v == "-" else int(v)
            else:
                cur["handle"] = None if v == "-" else ([int(x) for x in v.split("/")] if "/" in v else int(v))
        elif k == "v":
            p = v.split(":")
            if p[0] in ("b", "cb"):
                cur["value"] = dict(kind="bind", size=int(p[1]), const=p[0] == "cb")
            elif p[0] == "f":
                cur["value"] = dict(kind="fixed", size=int(p[1]), value=int(p[2], 16))
            elif p[0] == "s":
                cur["value"] = dict(kind="cstring", text=bytes.fromhex(p[1]).decode("ascii"))
            elif p[0] == "x":
                cur["value"] = dict(kind="blob", bytes=p[1])
            elif p[0] == "hd":
                cur["value"] = dict(kind="handler", size=int(p[1]), read="r" in p[2], write="w" in p[2], blob="b" in p[2])
            else:
                raise ValueError(v)
        elif k == "opt":
            cur["opts"] = [OPT_R[x] for x in lst(v)]
        elif k == "name":
            cur["name"] = None if v == "-" else bytes.fromhex(v[1:]).decode("ascii")
        elif k == "desc":
            cur["descs"] = [dict(uuid=d.split(":")[0], bytes=d.split(":")[1]) for d in lst(v)]
        else:
            raise ValueError(w)
    return cfg


def cfg_id(cfg):
    return "c" + hashlib.sha1(encode(cfg).encode()).hexdigest()[:10]


def cfg_words(cfg):
    """the cfg words of a CASE line: [registry id, encoding]"""
    return [cfg_id(cfg), encode(cfg)]


def all_chars(cfg):
    """characteristics in declaration order: (global index, service index, char dict)"""
    out = []
    for si, s in enumerate(norm(cfg)["services"]):
        for ch in s["chars"]:
            out.append((len(out), si, ch))
    return out


def has_cccd(ch):
    return "notify" in ch["opts"] or "indicate" in ch["opts"]


def init_bytes(ci, n):
    """initial content of the bound variable / handler buffer of characteristic ci (both sides use it)"""
    return [(ci * 37 + j * 11 + 1) & 0xff for j in range(n)]


# ------------------------------------------------------------------ Coq term (for Examples in the proofs)
def _coq_uuid(u):
    if len(u) == 4:
        return "U16 %d" % int(u, 16)
    return "U128 [%s]" % "; ".join(str(b) for b in reversed(bytes.fromhex(u)))


def _coq_enc(l):
    b = lambda x: "true" if x in l else "false"
    return "(mkEnc %s %s %s)" % (b("requires_encryption"), b("no_encryption_required"), b("may_require_encryption"))


def _coq_bytes(bs):
    return "[%s]" % "; ".join(str(b) for b in bs)


def emit_coq(cfg, name=None):
    """Gallina term of type AttDbModel.cfg (scope N_scope, ListNotations)"""
    c = norm(cfg)
    b = lambda x: "true" if x else "false"
    svcs = []
    for s in c["services"]:
        chs = []
        for ch in s["chars"]:
            v = ch["value"]
            k = v["kind"]
            val = ("VBind %d %s" % (v["size"], b(v.get("const"))) if k == "bind" else
                   "VFixed %d %d" % (v["size"], v["value"]) if k == "fixed" else
                   "VString %s" % _coq_bytes(v["text"].encode("ascii")) if k == "cstring" else
                   "VString %s" % _coq_bytes(bytes.fromhex(v["bytes"])) if k == "blob" else
                   "VHandler %d %s %s %s" % (v["size"], b(v.get("read")), b(v.get("write")), b(v.get("blob"))))
            h = ch["handle"]
            hs = "HNone" if h is None else ("(HThree %d %d %d)" % tuple(h) if isinstance(h, (list, tuple)) else "(HOne %d)" % h)
            o = ch["opts"]
            chs.append("mkChar (%s) %s (%s) %s %s %s %s %s %s %s [%s] %s" % (
                _coq_uuid(ch["uuid"]), hs, val, b("no_read_access" in o), b("no_write_access" in o), b("notify" in o), b("indicate" in o),
                b("write_without_response" in o), b("only_write_without_response" in o),
                "None" if ch["name"] is None else "(Some %s)" % _coq_bytes(ch["name"].encode("ascii")),
                "; ".join("(%d, %s)" % (int(d["uuid"], 16), _coq_bytes(bytes.fromhex(d["bytes"]))) for d in ch["descs"]), _coq_enc(ch["enc"])))
        svcs.append("mkSvc (%s) %s %s [%s]\n      [%s]\n      %s [%s]" % (
            _coq_uuid(s["uuid"]), b(s["secondary"]), "None" if s["handle"] is None else "(Some %d)" % s["handle"],
            "; ".join(_coq_uuid(u) for u in s["includes"]), ";\n       ".join(chs), _coq_enc(s["enc"]), "; ".join(_coq_uuid(u) for u in s["prio"])))
    return "Definition %s : cfg :=\n  mkCfg\n    [%s]\n    %d %s [%s] %s." % (
        name or ("cfg_" + c["name"]), ";\n     ".join(svcs), c["mtu"], "None" if c["wq"] is None else "(Some %d)" % c["wq"],
        "; ".join(_coq_uuid(u) for u in c["prio"]), _coq_enc(c["enc"]))


# ------------------------------------------------------------------ C++
def _uuid_cpp(kind, u):
    """kind: 'service' | 'characteristic'"""
    if len(u) == 4:
        return "%s_uuid16< 0x%s >" % (kind, u)
    assert len(u) == 32, u
    return "%s_uuid< 0x%s, 0x%s, 0x%s, 0x%s, 0x%s >" % (kind, u[0:8], u[8:12], u[12:16], u[16:20], u[20:32])


def _arr(bs):
    return ", ".join("0x%02x" % b for b in bs)


def emit_cpp(cfg):
    """C++ namespace block for one configuration + its registration"""
    c = norm(cfg)
    cid = cfg_id(cfg)
    pre, svcs, tbl, fns = [], [], [], []
    # which characteristic is the first with its uuid (server::notify<UUID>() finds the first one)
    first_by_uuid = {}
    chars = all_chars(cfg)
    for ci, si, ch in chars:
        first_by_uuid.setdefault(ch["uuid"], ci)
    ci = 0
    for si, s in enumerate(c["services"]):
        so = ["        " + _uuid_cpp("service", s["uuid"])]
        if s["secondary"]:
            so.append("        is_secondary_service")
        if s["handle"] is not None:
            so.append("        attribute_handle< %d >" % s["handle"])
        for u in s["includes"]:
            so.append("        include_service< %s >" % _uuid_cpp("service", u))
        so += ["        " + e for e in s["enc"]]
        if s["prio"]:
            so.append("        higher_outgoing_priority< %s >" % ", ".join(_uuid_cpp("characteristic", u) for u in s["prio"]))
        for ch in s["chars"]:
            v = ch["value"]
            k = v["kind"]
            co = [_uuid_cpp("characteristic", ch["uuid"])]
            var, size, cst, hlog = "nullptr", 0, "nullptr", "nullptr"
            if k == "bind":
                size = v["size"]
                if v.get("const"):
                    pre.append("const verif::blob< %d > v%d = {{ %s }};" % (size, ci, _arr(init_bytes(ci, size))))
                    co.append("bind_characteristic_value< const verif::blob< %d >, &v%d >" % (size, ci))
                    cst = "v%d.b" % ci
                else:
                    pre.append("verif::blob< %d > v%d;" % (size, ci))
                    co.append("bind_characteristic_value< verif::blob< %d >, &v%d >" % (size, ci))
                    var = "v%d.b" % ci
            elif k == "fixed":
                co.append("fixed_value< std::uint%d_t, 0x%xu >" % (8 * v["size"], v["value"]))
            elif k == "cstring":
                pre.append("constexpr char s%d[] = { %s };" % (ci, ", ".join(str(b) for b in list(v["text"].encode("ascii")) + [0])))
                co.append("cstring_value< s%d >" % ci)
            elif k == "blob":
                bs = list(bytes.fromhex(v["bytes"]))
                pre.append("constexpr std::uint8_t x%d[] = { %s };" % (ci, _arr(bs)))
                co.append("fixed_blob_value< x%d, %d >" % (ci, len(bs)))
            elif k == "handler":
                size = v["size"]
                pre.append("std::uint8_t h%d[ %d ]; verif::handler_log hl%d;" % (ci, size, ci))
                var, hlog = "h%d" % ci, "&hl%d" % ci
                blob = v.get("blob")
                if v.get("read"):
                    if blob:
                        pre.append("std::uint8_t hr%d( std::size_t o, std::size_t n, std::uint8_t* out, std::size_t& on ) { return verif::handler_read( h%d, %d, hl%d, o, n, out, on ); }" % (ci, ci, size, ci))
                        co.append("free_read_blob_handler< &hr%d >" % ci)
                    else:
                        pre.append("std::uint8_t hr%d( std::size_t n, std::uint8_t* out, std::size_t& on ) { return verif::handler_read( h%d, %d, hl%d, 0, n, out, on ); }" % (ci, ci, size, ci))
                        co.append("free_read_handler< &hr%d >" % ci)
                if v.get("write"):
                    if blob:
                        pre.append("std::uint8_t hw%d( std::size_t o, std::size_t n, const std::uint8_t* val ) { return verif::handler_write( h%d, %d, hl%d, o, n, val ); }" % (ci, ci, size, ci))
                        co.append("free_write_blob_handler< &hw%d >" % ci)
                    else:
                        pre.append("std::uint8_t hw%d( std::size_t n, const std::uint8_t* val ) { return verif::handler_write( h%d, %d, hl%d, 0, n, val ); }" % (ci, ci, size, ci))
                        co.append("free_raw_write_handler< &hw%d >" % ci)
            else:
                raise ValueError(k)
            h = ch["handle"]
            if isinstance(h, (list, tuple)):
                co.append("attribute_handles< %d, %d, %d >" % tuple(h))
            elif h is not None:
                co.append("attribute_handle< %d >" % h)
            co += ch["opts"]
            if ch["name"] is not None:
                pre.append("constexpr char n%d[] = { %s };" % (ci, ", ".join(str(b) for b in list(ch["name"].encode("ascii")) + [0])))
                co.append("characteristic_name< n%d >" % ci)
            for di, d in enumerate(ch["descs"]):
                bs = list(bytes.fromhex(d["bytes"]))
                pre.append("constexpr std::uint8_t d%d_%d[] = { %s };" % (ci, di, _arr(bs)))
                co.append("descriptor< 0x%s, d%d_%d, %d >" % (d["uuid"], ci, di, len(bs)))
            co += ch["enc"]
            so.append("        characteristic< %s >" % ", ".join(co))
            # notification entry points
            by_value = k == "bind" and has_cccd(ch)
            first = chars[first_by_uuid[ch["uuid"]]][2]
            fk = first["value"]["kind"]
            f_notif = "notify" in first["opts"] and fk not in ("cstring", "blob")
            f_ind = "indicate" in first["opts"] and fk not in ("cstring", "blob")
            u = _uuid_cpp("characteristic", ch["uuid"])
            fn = []
            for nm, ok, body in (("nv", by_value, "s.notify( v%d )" % ci), ("iv", by_value, "s.indicate( v%d )" % ci),
                                 ("nu", f_notif, "s.template notify< %s >()" % u), ("iu", f_ind, "s.template indicate< %s >()" % u)):
                if ok:
                    fns.append("bool %s%d( server_t& s ) { return %s; }" % (nm, ci, body))
                    fn.append("&%s%d" % (nm, ci))
                else:
                    fn.append("nullptr")
            tbl.append("        { %s, %s, %d, %s, %s }" % (var, cst, size, hlog, ", ".join(fn)))
            ci += 1
        svcs.append("    service<\n%s\n    >" % ",\n".join(so))
    opts = ["    no_gap_service_for_gatt_servers"]
    if c["mtu"] != 23 or True:
        opts.append("    max_mtu_size< %d >" % c["mtu"])
    if c["wq"] is not None:
        opts.append("    shared_write_queue< %d >" % c["wq"])
    opts += ["    " + e for e in c["enc"]]
    if c["prio"]:
        opts.append("    higher_outgoing_priority< %s >" % ", ".join(_uuid_cpp("service", u) for u in c["prio"]))
    out = ["// %s: %s" % (c["name"], encode(cfg)), "namespace %s {" % cid, "using namespace bluetoe;"] + pre
    out.append("using server_t = server<\n%s\n>;" % ",\n".join(opts + svcs))
    out += fns
    out.append("struct traits {\n    using server_t = %s::server_t;\n    static const char* id() { return \"%s\"; }\n"
               "    static constexpr std::size_t n_chars = %d;\n"
               "    static const verif::char_info< server_t >* chars() {\n"
               "        static const verif::char_info< server_t > t[ %d ] = {\n%s\n        };\n        return t;\n    }\n};"
               % (cid, cid, ci, ci + 1, ",\n".join(tbl + ["        { nullptr, nullptr, 0, nullptr, nullptr, nullptr, nullptr, nullptr }"])))
    out.append("}")
    out.append("VERIF_REGISTER( %s::traits )" % cid)
    return "\n".join(out) + "\n"


def emit_inc(cfgs):
    """content of attsrv_configs.inc for a list of configurations (duplicates removed)"""
    seen, parts = set(), []
    for c in cfgs:
        i = cfg_id(c)
        if i not in seen:
            seen.add(i)
            parts.append(emit_cpp(c))
    return "\n".join(parts)


if __name__ == "__main__":
    cfg = json.load(open(sys.argv[1])) if len(sys.argv) > 1 else json.load(sys.stdin)
    for c in (cfg if isinstance(cfg, list) else [cfg]):
        print("// CASE cfg words: %s" % " ".join(cfg_words(c)))
        print(emit_cpp(c))
