"""helpers for translator plugins"""
import os, re
def read(repo, rel):
    return open(os.path.join(repo, rel)).read()
def strip_comments(s):
    s = re.sub(r"/\*.*?\*/", "", s, flags=re.S)
    return re.sub(r"//[^\n]*", "", s)
def const(src, name, pat=r"%s\s*=\s*([^;,}]+)[;,}]"):
    m = re.search(pat % re.escape(name), src)
    if not m:
        raise ValueError("constant %s not found" % name)
    return m.group(1).strip()
def cint(txt):
    t = txt.strip().rstrip("uUlL")
    return int(t, 0)
