"""helpers for translator plugins"""
import os, re
def read(repo, rel):
    return open(os.path.join(repo, rel)).read()
def strip_comments(s):
    s = re.sub(r"/\*.*?\*/", "", s, flags=re.S)
    return re.sub(r"//[^\n]*", "", s)
def const(src, name, pat=r"%s\s*=\s*([^;,}]+)[;,}]"):
    m = re.search(pat % re.escape(name), src)
    if not m:
        raise ValueError("constant %s not found" % name)
    return m.group(1).strip()
def cint(txt):
    t = txt.strip().rstrip("uUlL")
    return int(t, 0)
def parse_enum_body(body):
    """'a = 1, b, c = 0x10' -> {'a':1,'b':2,'c':16} (C enum auto increment)"""
    out, cur = {}, -1
    for item in body.split(","):
        item = item.strip()
        if not item:
            continue
        if "=" in item:
            n, v = item.split("=", 1)
            cur = int(v.strip().rstrip("uUlL"), 0)
            out[n.strip()] = cur
        else:
            cur += 1
            out[item] = cur
    return out
def enums_containing(src, member):
    """body of the (first) enum { ... } that declares `member`"""
    for m in re.finditer(r"enum(?:\s+class)?\s*\w*\s*(?::\s*[\w:]+\s*)?\{([^}]*)\}", src):
        if re.search(r"\b%s\b" % re.escape(member), m.group(1)):
            return parse_enum_body(m.group(1))
    raise ValueError("no enum declares %s" % member)
