"""Shared by C02 and C03 (discovery procedures over the AttDb/AttSrv models): configurations with fixed
handles / gaps / secondary services / mixed 16 and 128 bit uuids, request builders, handle pools, range
sweeps and the closed-loop `discover` meta-generator (a client that continues behind the last handle)."""
import subprocess
from vlib import core
from props import att_common as AC
from props import att_configs as K
from props.att_configs import svc, ch, srv, bind, fixed, cstr, handler, U128, N, I, NOR, R
import emit_cpp

DISC_CONFIGS = [
    # the first attribute at handle 5 (ranges in front of the database), gaps between and inside services,
    # one uuid with three different value lengths, a 128 bit uuid used twice, an empty service at the end
    srv("disc_gap_first",
        svc("1810", ch("2a00", bind(1)), ch("2a00", bind(2)), ch("2a00", bind(1)), handle=5),
        svc(U128 % 0x300, ch(U128 % 0x31, bind(2)), ch("2a01", bind(2), N), ch(U128 % 0x31, bind(2)), handle=0x20),
        svc("1811", ch("2a02", bind(1), handle=[0x30, 0x34, 0]), secondary=True),
        svc("1812", handle=0x40),
        mtu=65),
    # secondary services before / between / after primary ones, with gaps, 16 and 128 bit service uuids,
    # an empty secondary service
    srv("disc_sec_mix",
        svc("1820", ch("2a10", bind(1)), secondary=True, handle=4),
        svc(U128 % 0x400, ch("2a11", bind(2))),
        svc("1821", secondary=True),
        svc("1822", ch(U128 % 0x41, bind(4), N), handle=0x18),
        svc(U128 % 0x401, ch("2a12", bind(1)), secondary=True),
        svc(U128 % 0x402, ch("2a13", bind(1), handle=0x30)),
        svc("1823", ch("2a14", bind(1)), secondary=True, handle=0x50),
        mtu=100),
    # only 128 bit service uuids, the secondary ones in front; values that cannot be read in every state
    srv("disc_sec128",
        svc(U128 % 0x500, ch(U128 % 0x51, bind(2), NOR), secondary=True),
        svc(U128 % 0x501, ch(U128 % 0x52, bind(2)), ch(U128 % 0x52, bind(2), enc=[R]), ch(U128 % 0x52, bind(2)), secondary=True),
        svc(U128 % 0x502, ch("2a20", handler(4, read=False)), ch("2a20", bind(4)), handle=0x10),
        svc(U128 % 0x503, ch("2a21", cstr("abc"), name="x"), handle=0x21),
        mtu=23),
    # no fixed handles, only 16 bit uuids, equal value lengths: nothing to skip (the full prefix statement holds)
    srv("disc_uniform",
        svc("1830", ch("2a30", bind(2)), ch("2a31", bind(2), N), ch("2a30", bind(2))),
        svc("1831", ch("2a30", bind(2), I)),
        svc("1832", ch("2a32", fixed(2, 0x1234)), secondary=True),
        svc("1833"),
        mtu=40),
]


def no_includes(cfg):
    return not any(s.get("includes") for s in cfg["services"])


def configurations(prop, ctx, corpus_names, n_random, secondary_bias=False):
    cfgs = [c for c in K.CORPUS if no_includes(c) and (c["name"] in corpus_names or ctx.thorough)]
    cfgs += [c for c in DISC_CONFIGS if c["name"] in corpus_names or ctx.thorough]
    out, tries = [], 0
    while len(out) < n_random and tries < 60:
        tries += 1
        cand = [K.random_cfg(ctx.rng, "rnd%d_%d" % (tries, i)) for i in range(2 * n_random)]
        for c in cand:
            for s in c["services"]:
                s.pop("includes", None)
                if secondary_bias and ctx.rng.random() < 0.35:
                    s["secondary"] = True
        for c in AC.wf_filter(prop.component, cand):
            if len(out) < n_random and len(c["services"]) >= (2 if secondary_bias else 1):
                out.append(c)
    return cfgs + out


# ------------------------------------------------------------------ what the generators know
class DInfo:
    def __init__(self, info):
        self.info = info
        hs, us = info.handles, info.uuids
        self.starts = [i for i, u in enumerate(us) if u in ("2800", "2801")]
        self.groups = []                      # (first handle, last handle, uuid text, secondary)
        for k, i in enumerate(self.starts):
            j = (self.starts[k + 1] if k + 1 < len(self.starts) else len(hs)) - 1
            s = info.cfg["services"][k]
            self.groups.append((hs[i], hs[j], s["uuid"], s["secondary"]))
        p = set(info.pool)
        for f, l, _, _ in self.groups:
            p.update([f - 1, f, f + 1, l - 1, l, l + 1])
        self.pool = sorted(h for h in p if 0 <= h <= 0xffff)
        t16 = sorted(set(u for u in us if u != "0001"))
        t128 = sorted(set(c["uuid"] for _, _, c in info.chars if len(c["uuid"]) == 32))
        self.types = ([AC.uuid_le(u) for u in t16] + [AC.uuid_le(u) for u in t128] + [AC.as128(u) for u in t16[:3]]
                      + [AC.uuid_le(x) for x in ("2800", "2801", "2803", "2902", "0001", "fff0")]
                      + [AC.uuid_le(U128 % 0xfff0), AC.as128("0001")])
        self.types = sorted(set(self.types))
        self.svc_values = sorted(set([AC.uuid_le(g[2]) for g in self.groups] + [AC.as128(g[2]) for g in self.groups if len(g[2]) == 4]
                                     + [AC.uuid_le("fff1"), AC.uuid_le(U128 % 0xfff1)]))
        # "near miss" types / values: derived from every configured uuid, each differs from it in one respect
        self.near_types = near_misses(t16 + ["2800", "2801", "2803", "2902"], t128)
        self.near_values = near_misses([g[2] for g in self.groups if len(g[2]) == 4],
                                       [g[2] for g in self.groups if len(g[2]) == 32] + t128)
        # the ones that name a configured uuid exactly go last: a known finding (skip) ends the judgement of a case
        exact = set(AC.uuid_le(u) for u in t16 + t128) | set(AC.as128(u) for u in t16)
        self.near_types = [t for t in self.near_types if t not in exact] + [t for t in self.near_types if t in exact]


def near_misses(u16s, u128s):
    """request types / values (request encoding, hex) that ALMOST name a configured uuid - the boundary family
    of every uuid comparison of the server (uuid_filter, value_filter, compare_value):
      16 bit uuid embedded in the Bluetooth base uuid with zero and with non-zero octets 14/15 (32 bit Bluetooth uuid),
      the embedding with one differing octet of the base part, the 16 bit value +- 1 / with swapped octets,
      the first / last 2 octets of every 128 bit uuid as a 16 bit value, every 128 bit uuid with one differing octet,
      and lengths 1, 3, 15, 17 (prefixes / extensions of the encodings; not a valid type or value length)"""
    out = []
    for u in sorted(set(u16s)):
        le = AC.uuid_le(u)
        emb = AC.as128(u)                                   # octets 0..11 base, 12..13 the uuid, 14..15 zero
        out += [le, emb, le[2:4] + le[0:2], "%04x" % ((int(le, 16) + 0x0100) & 0xffff), le[0:2], le + "00", emb[:30], emb + "00"]
        for hi in ("0100", "3412", "00ff", "ffff"):         # non-zero octets 14/15
            out.append(emb[:28] + hi)
        for pos in (0, 5, 11):                              # one differing octet of the base part
            out.append(emb[:2 * pos] + "%02x" % (int(emb[2 * pos:2 * pos + 2], 16) ^ 0x01) + emb[2 * pos + 2:])
    for u in sorted(set(u128s)):
        le = AC.uuid_le(u)
        out += [le, le[0:4], le[28:32], le[0:2], le[0:6], le[:30], le + "00"]
        for pos in (0, 7, 12, 15):
            out.append(le[:2 * pos] + "%02x" % (int(le[2 * pos:2 * pos + 2], 16) ^ 0x80) + le[2 * pos + 2:])
    return sorted(set(out))


def fi(lo, hi):
    return "04" + AC.le16(lo) + AC.le16(hi)


def rbt(lo, hi, ty):
    return "08" + AC.le16(lo) + AC.le16(hi) + ty


def rbg(lo, hi, ty="0028"):
    return "10" + AC.le16(lo) + AC.le16(hi) + ty


def fbtv(lo, hi, value, ty="0028"):
    return "06" + AC.le16(lo) + AC.le16(hi) + ty + value


def sizes(info):
    return [23, 23, 24, 40, info.mtu, info.mtu + 1, 64, 300, 512]


def prelude(rng, info):
    """connection set-up in front of the requests of a case: MTU exchange (so that out_size up to the server's
    MTU becomes effective), link security"""
    ops = []
    for conn in range(3):
        if rng.random() < 0.6:
            ops.append("in %d 02%s 512" % (conn, AC.le16(rng.choice([23, 24, 40, 65, 100, 255, 300, 512, info.mtu]))))
        if rng.random() < 0.3:
            ops.append("sec %d %d %d" % (conn, rng.randrange(2), rng.randrange(4)))
    return ops


def all_pairs(d, thorough):
    last = d.info.last
    if thorough and last + 3 <= 64:
        pts = list(range(0, last + 3)) + [0xffff]
    else:
        pts = d.pool
    return [(a, b) for a in pts for b in pts]


def chunked(prop, name, cfg, rng, info, reqs, per=24):
    """cases of [per] requests behind a connection prelude (a known defect ends the judgement of a case at its
    first occurrence, so cases are short)"""
    out = []
    for k in range(0, len(reqs), per):
        ops = prelude(rng, info)
        for pdu in reqs[k:k + per]:
            ops.append("in %d %s %d" % (rng.randrange(3), pdu, rng.choice(sizes(info))))
        out.append(prop.case(name, cfg, ops))
    return out


# ------------------------------------------------------------------ closed loop discovery (a real client)
def _model_run(component, items):
    """items: list of (cfg, ops) -> list of result line lists"""
    text = ""
    for i, (c, ops) in enumerate(items):
        text += "CASE q%d %s\n" % (i, " ".join(emit_cpp.cfg_words(c))) + "".join(o + "\n" for o in ops)
    p = subprocess.run([AC.model_binary(component), "model"], input=text, capture_output=True, text=True, timeout=600)
    if p.returncode != 0:
        raise RuntimeError("model run failed: " + p.stderr[-1000:])
    r = core.split_outputs(p.stdout)
    return [r.get("q%d" % i, []) for i in range(len(items))]


def last_handle(pdu_op, resp):
    """the handle behind which a client continues, None = the procedure is over"""
    b = bytes.fromhex(resp) if resp not in ("-", "FAULT", "SKIPPED") and all(ch in "0123456789abcdef" for ch in resp) else b""
    if len(b) < 2 or b[0] == 0x01:
        return None
    if b[0] == 0x05:
        n = 4 if b[1] == 1 else 18
        body = b[2:]
        return None if len(body) < n else int.from_bytes(body[(len(body) // n - 1) * n:][:2], "little")
    if b[0] == 0x09:
        n, body = b[1], b[2:]
        return None if n < 2 or len(body) < n else int.from_bytes(body[(len(body) // n - 1) * n:][:2], "little")
    if b[0] == 0x11:
        n, body = b[1], b[2:]
        return None if n < 4 or len(body) < n else int.from_bytes(body[(len(body) // n - 1) * n + 2:][:2], "little")
    if b[0] == 0x07:
        body = b[1:]
        return None if len(body) < 4 else int.from_bytes(body[(len(body) // 4 - 1) * 4 + 2:][:2], "little")
    return None


def discover(prop, cfg, info, sessions, name="discover"):
    """sessions: list of (conn, out_size, lo, hi, mk) with mk(lo, hi) -> request pdu; pre: ops in front.
    The requests are re-issued behind the last handle of the (model's) response until an error response or
    the ending handle - what a GATT client does. Returns one case per session."""
    state = [dict(ops=list(pre), lo=lo, done=False) for (conn, size, lo, hi, mk, pre) in sessions]
    for _ in range(info.n + 3):
        act = [i for i, s in enumerate(state) if not s["done"]]
        if not act:
            break
        items = []
        for i in act:
            conn, size, lo, hi, mk, pre = sessions[i]
            state[i]["ops"].append("in %d %s %d" % (conn, mk(state[i]["lo"], hi), size))
            items.append((cfg, state[i]["ops"]))
        for i, outs in zip(act, _model_run(prop.component, items)):
            conn, size, lo, hi, mk, pre = sessions[i]
            h = last_handle(state[i]["ops"][-1], outs[-1] if outs else "")
            if h is None or h >= hi or h >= 0xffff:
                state[i]["done"] = True
            else:
                state[i]["lo"] = h + 1
    return [prop.case(name, cfg, s["ops"]) for s in state]
