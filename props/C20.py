"""C20 Data channel selection follows Channel Selection Algorithm #1 (link_layer/channel_map.cpp)"""
from vlib.core import Standard, Case, standard_check
import itertools

NCH = 37
ALL37 = (1 << NCH) - 1
HIGH = [0, 1 << 37, 1 << 38, 1 << 39, 7 << 37]


def hexmap(m):
    """40 bit integer (bit c = channel c) -> the 5 octets of the ChM field, first octet first"""
    return "".join("%02x" % ((m >> (8 * i)) & 0xff) for i in range(5))


def sparse_maps(k):
    """all maps with exactly k used channels among 0..36"""
    for comb in itertools.combinations(range(NCH), k):
        m = 0
        for c in comb:
            m |= 1 << c
        yield m


def structured_maps(rng):
    """all maps with <= 2 or >= 35 used channels; the reserved bits 37..39 varied on the ones where
    they could change the decision (0, 1, 2 used channels) and on the full map"""
    out = []
    for k in (0, 1, 2):
        for m in sparse_maps(k):
            out.append(m)
            out.append(ALL37 & ~m)
            if k < 2:
                for h in HIGH[1:]:
                    out.append(m | h)
                    out.append((ALL37 & ~m) | h)
            else:
                out.append(m | rng.choice(HIGH[1:]))
    return out


def random_map(rng):
    p = rng.choice([0.04, 0.08, 0.15, 0.3, 0.5, 0.5, 0.7, 0.85, 0.92, 0.97])
    m = 0
    for c in range(NCH):
        if rng.random() < p:
            m |= 1 << c
    if rng.random() < 0.3:
        m |= rng.randrange(8) << 37
    if rng.random() < 0.15:   # force the boundary channels
        m |= rng.choice([1, 1 << 36, (1 << 36) | 1, 1 << 7, 1 << 8, 1 << 31, 1 << 32])
    return m


EXTRA_HOPS = [32, 37, 42, 53, 255, 256, 261, 272, 65541, 4294967295]


def block(rng, m, pool):
    """all 32 hop values (and now and then one beyond) on one map; every accepted reset is followed by
    a dump of all 37 entries, a rejected one by a dump or a single entry"""
    ops = []
    hops = list(range(32))
    r = rng.random()
    if r < 0.4:
        rng.shuffle(hops)
    elif r < 0.6:
        hops.reverse()
    if rng.random() < 0.25:
        hops.insert(rng.randrange(len(hops) + 1), rng.choice(EXTRA_HOPS))
    hm = hexmap(m)
    for h in hops:
        ops.append("reset %s %d" % (hm, h))
        if 5 <= h <= 16 or rng.random() < 0.25:
            ops.append("dump")
        else:
            ops.append("chan %d" % rng.randrange(NCH))
        if rng.random() < 0.04:
            ops.append("remap %s" % hexmap(rng.choice(pool)))
            ops.append("dump")
    return ops


def make_cases(rng, maps, per_case=6, name="maps"):
    maps = list(maps)
    rng.shuffle(maps)
    cases = []
    for i in range(0, len(maps), per_case):
        ops = []
        if rng.random() < 0.1:
            ops += ["remap %s" % hexmap(rng.choice(maps)), "dump"]   # hop_ is still 0: rejected
        for m in maps[i:i + per_case]:
            ops += block(rng, m, maps)
        cases.append(Case(name, ["cm"], ops))
    return cases


class C20(Standard):
    component = "ChanMap"
    harness = "chanmap_harness.cpp"
    trusted_base = ["model of channel_map.cpp in coq/ChanMap/ChanMapModel.v (hand written, tied by this correspondence run: "
                    "all maps with <=2 or >=35 used channels + seeded random maps, x all hops 0..31, x all 37 indices)",
                    "gen/consts/chanmap.py (constants and the textual lints on link_layer.hpp / peripheral_latency.hpp)",
                    "the reading of Core Vol 6 Part B 4.5.8.2 in coq/ChanMap/ChanMapSpec.v (csa1); cross-checked against the "
                    "hand computed sequence of tests/link_layer/channel_map_tests.cpp by Example C20_spec_agrees_with_hand_computed_sequence"]
    assumptions = ["the map pointer passed to reset() points to 5 readable octets (wf_op: length map = 5)",
                   "data_channel( index ) is called with index < 37 (it asserts); the link layer passes (elapsed events) mod 37 - "
                   "transcribed in ll_step / proved in C20_ll_channel_is_csa1, behavioural tie of link_layer.hpp left to component LL",
                   "the hop used by reset( map ) is the hop of the latest reset( map, hop ) whose hop was in range, even if that call was "
                   "rejected for its map (hop_ is assigned before the map is examined); the link layer cannot reach reset( map ) in that state"]

    def prepare(self, ctx, cases):
        return [("chanmap", [], cases)]

    def generate(self, ctx):
        rng = ctx.rng
        structured = structured_maps(rng)
        nrand = 38000 if ctx.thorough else 500
        rnd = [random_map(rng) for _ in range(nrand)]
        cases = make_cases(rng, structured, name="structured") + make_cases(rng, rnd, name="random")
        # data_channel() outside its precondition: the assert must fire (model: FAULT), nothing else
        for i in (37, 38, 255, 4096) if ctx.thorough else (37, 1000):
            cases.append(Case("assert", ["cm"], ["reset %s 9" % hexmap(ALL37), "chan 36", "chan %d" % i, "chan 0"]))
        return cases

    def search_extra(self, ctx):
        rng = ctx.rng
        return make_cases(rng, [random_map(rng) for _ in range(6000)], name="s")

    def nontrivial(self, case, outputs):
        # an accepted reset whose table was then read back
        for i, o in enumerate(outputs[:-1]):
            if o == "1" and case.ops[i].startswith(("reset", "remap")) and len(outputs[i + 1]) == 2 * NCH:
                return True
        return False


META = dict(
    text="C20 Data channel selection follows Channel Selection Algorithm #1. For every channel map with at least two used channels, "
         "every hop increment 5..16 and every connection event counter, the data channel used equals the Core specification's Channel "
         "Selection Algorithm #1 result; connection requests and channel map updates with fewer than two used channels or an invalid hop "
         "are not applied.",
    level_note="unbounded proof over all maps (symbolic: the r-th element of the filtered channel list), all hops and all event numbers "
               "for channel_map.cpp; the link layer decisions (CONNECT_IND / LL_CHANNEL_MAP_IND / channel index) are proved on a transcribed "
               "decision model that is tied to link_layer.hpp only by source lints",
    design_ref="DESIGN.md section 6 C20, section 4.4; docs/C20.md",
    technique="Coq model of reset()/data_channel() with loop invariants; CSA#1 recurrence spec; period-37 lemma (finite sweep for injectivity); "
              "extracted model + monitor run against the real channel_map.cpp on a structured + random set of maps x all hops x all indices")


def run(ctx):
    return standard_check(ctx, C20())
