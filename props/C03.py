"""C03 Primary service discovery never reports secondary services (server.hpp: Read By Group Type and Find By
Type Value for <<Primary Service>>)."""
from vlib.core import standard_check
from props import att_common as AC
from props import disc_common as D
from props.att_common import AttBase

META = dict(
    text="Primary service discovery never reports secondary services",
    design_ref="DESIGN.md section 6 C03",
    technique="Coq: declared services with their assigned handle ranges as the spec, executable monitor with client "
              "sessions, unbounded theorems over all wf configurations without include_service<>; tie: generated "
              "server<> instantiations mixing primary and secondary services (before / between / after, 16 and 128 bit "
              "uuids, fixed handles with gaps), range sweeps and closed-loop discovery of both procedures",
    level_note="PROVED IN FULL (unbounded, wf configurations without include_service<>): the byte-exact responses of Read By Group "
               "Type and Find By Type Value for <<Primary Service>> are the encodings of a non-empty (maximal) prefix of the declared "
               "primary services (with the requested uuid) in the range, with their real handle ranges, never a secondary service; "
               "Attribute Not Found iff there is none; discover_all of both procedures enumerates them exactly; THE MONITOR THEOREM: "
               "c03_monitor accepts the model's trace for every request history of any length from the initial state (decode of the "
               "encodings, session invariant, reachable-state invariant, no FAULT of the two handlers). See docs/C03.md")


class C03(AttBase):
    tag = "C03"
    quick_corpus = ["basic3", "fixed_handles", "secondary", "mtu300", "disc_gap_first", "disc_sec_mix", "disc_sec128", "disc_uniform"]
    quick_random = 2
    thorough_random = 40
    trusted_base = ["models coq/AttDb/AttDbModel.v, coq/AttSrv/AttSrvModel.v (hand written transcription, tied by this run)",
                    "gen/emit_cpp.py, ocaml/attsrv_lib.ml (configuration language)"]
    assumptions = ["wf cfg, no include_service<> (the handle mapping with includes is C04's finding)", "23 <= out_size",
                   "Find By Type Value compares the value with the uuid as declared (2 or 16 bytes)"]

    def configurations(self, ctx):
        return D.configurations(self, ctx, self.quick_corpus, self.thorough_random if ctx.thorough else self.quick_random,
                                secondary_bias=True)

    def requests(self, rng, d, pairs, thorough):
        reqs = []
        for lo, hi in pairs:
            reqs.append(D.rbg(lo, hi))
            vals = d.svc_values if thorough else rng.sample(d.svc_values, min(3, len(d.svc_values)))
            reqs += [D.fbtv(lo, hi, v) for v in vals]
        return reqs

    def generate(self, ctx):
        rng = ctx.rng
        cfgs = self.configurations(ctx)
        cases = []
        for cfg, info in zip(cfgs, AC.infos(self.component, cfgs)):
            d = D.DInfo(info)
            pairs = D.all_pairs(d, ctx.thorough)
            if not ctx.thorough and len(pairs) > 300:
                pairs = rng.sample(pairs, 300)
            reqs = self.requests(rng, d, pairs, ctx.thorough)
            for _ in range(30 if not ctx.thorough else 300):
                lo, hi = AC.pick_range(rng, info)
                v = rng.choice(d.svc_values)
                reqs.append(rng.choice([D.rbg(lo, hi, "0128"), D.fbtv(lo, hi, v, "0128"), D.fbtv(lo, hi, v, "0328"), D.fbtv(lo, hi, v[:2]),
                                        D.fbtv(lo, hi, v + "00"), D.fbtv(lo, hi, AC.rnd_hex(rng, rng.choice([2, 16]))),
                                        D.rbg(lo, hi, AC.as128("2800")), D.rbg(rng.randrange(0x10000), rng.randrange(0x10000))]))
            rng.shuffle(reqs)
            cases += D.chunked(self, "sweep", cfg, rng, info, reqs)
            # near miss values (every configured service / characteristic uuid, varied in one respect)
            near = []
            for v in d.near_values:
                near.append(D.fbtv(1, 0xffff, v))
                for _ in range(1 if not ctx.thorough else 6):
                    lo, hi = AC.pick_range(rng, info)
                    near.append(D.fbtv(lo, hi, v))
            cases += D.chunked(self, "near", cfg, rng, info, near)
            sessions = []
            for k in range(24 if not ctx.thorough else 200):
                lo = rng.choice([1, 1, 1, rng.choice(d.pool) or 1])
                hi = rng.choice([0xffff, 0xffff, rng.choice(d.pool)])
                if hi < lo:
                    lo, hi = max(hi, 1), lo
                v = rng.choice(d.svc_values)
                mk = rng.choice([lambda a, b: D.rbg(a, b), lambda a, b, v=v: D.fbtv(a, b, v)])
                sessions.append((rng.randrange(3), rng.choice(D.sizes(info)), lo, hi, mk, D.prelude(rng, info)))
            cases += D.discover(self, cfg, info, sessions)
        return cases

    def search_extra(self, ctx):
        rng = ctx.rng
        cfgs = self.configurations(ctx)[:6]
        out = []
        for cfg, info in zip(cfgs, AC.infos(self.component, cfgs)):
            d = D.DInfo(info)
            out += D.chunked(self, "s", cfg, rng, info, self.requests(rng, d, D.all_pairs(d, False), True))[:400]
        return out

    def nontrivial(self, case, outputs):
        return any(o[:2] in ("07", "11") for o in outputs)


def run(ctx):
    return standard_check(ctx, C03())
