"""Shared by C05, C06, C07 (attribute values, link security, prepared writes; reference semantics
coq/AttSrv/AttSrvSpecVal.v): configuration pool and traffic generators aimed at the value paths of the
ATT server. Built on props/att_common.py (harness groups, PDUs) and props/att_configs.py (constructors)."""
from props import att_common as AC
from props.att_configs import bind, fixed, cstr, blob, handler, ch, svc, srv, R, NR, MAY, N, I, NOR, NOW, WWR, OWWR, U128
from props import att_configs

le16 = AC.le16

# ------------------------------------------------------------------ configuration pool
POOL = [
    # ---- every placement of the encryption options (server x service x characteristic), write queue, CCCDs
    srv("v_enc_server_r",
        svc("1810", ch("2a00", bind(1)), ch("2a01", bind(2), enc=[NR]), ch("2a02", bind(4), N, enc=[MAY]), ch("2a03", bind(2), I, enc=[R])),
        svc("1811", ch("2a10", bind(1), N), ch("2a11", bind(4), enc=[R]), ch("2a12", bind(2), enc=[MAY]), enc=[NR]),
        svc("1812", ch("2a20", bind(1)), ch("2a21", bind(20), N, enc=[NR]), ch("2a22", bind(2), enc=[R, NR]), enc=[MAY]),
        svc("1813", ch("2a30", bind(1), I), ch("2a31", bind(1), enc=[NR]), enc=[R]),
        enc=[R], mtu=23, wq=32),
    srv("v_enc_server_none",
        svc("1810", ch("2a00", bind(1)), ch("2a01", bind(2), enc=[NR]), ch("2a02", bind(4), N, enc=[MAY]), ch("2a03", bind(2), I, enc=[R])),
        svc("1811", ch("2a10", bind(1), N), ch("2a11", bind(4), enc=[NR]), ch("2a12", bind(2), enc=[R, NR]), ch("2a13", bind(23), enc=[MAY]), enc=[R]),
        svc("1812", ch("2a20", fixed(2, 0xbeef)), ch("2a21", cstr("secret"), enc=[R]), ch("2a22", blob("0102030405060708"), enc=[R]), enc=[R, MAY]),
        svc("1813", ch("2a30", bind(1), I), ch("2a31", bind(1), enc=[R]), enc=[NR]),
        mtu=23, wq=10),
    srv("v_enc_server_may",
        svc("1810", ch("2a00", bind(1)), ch("2a01", bind(2), N, enc=[R]), ch("2a02", bind(4), enc=[NR])),
        svc("1811", ch("2a10", bind(1), N), ch("2a11", bind(2), I, enc=[NR]), enc=[R]),
        svc("1812", ch("2a20", bind(4), N), enc=[MAY]),
        enc=[MAY], mtu=24, wq=142),
    srv("v_enc_server_nr",
        svc("1810", ch("2a00", bind(1)), ch("2a01", bind(2), I, enc=[R]), ch("2a02", bind(1), enc=[MAY])),
        svc("1811", ch("2a10", bind(4), N), ch("2a11", bind(1), enc=[NR]), ch("2a12", bind(2), N, enc=[R, MAY]), enc=[R]),
        enc=[NR], mtu=23, wq=32),
    # ---- a protected service with every value kind and size, MTU 65
    srv("v_enc_kinds",
        svc("1810", ch("2a00", bind(1), N), ch("2a01", bind(2)), ch("2a02", bind(4), I), ch("2a03", bind(20), WWR), ch("2a04", bind(23), N, I),
            ch("2a05", bind(64)), ch("2a06", bind(2, const=True)), ch("2a07", fixed(4, 0x11223344)), ch("2a08", cstr("top secret")),
            ch("2a09", handler(8), N), ch("2a0a", handler(4, write=False), I), ch("2a0b", handler(6, read=False)), enc=[R]),
        svc("1811", ch("2a10", bind(2), N), ch("2a11", handler(4))),
        mtu=65, wq=142),
    # ---- value sizes 1, 2, 4, 20, 23, 64 at MTU 23 and 65
    srv("v_sizes23",
        svc("1810", ch("2a00", bind(1)), ch("2a01", bind(2)), ch("2a02", bind(4)), ch("2a03", bind(20)), ch("2a04", bind(23)), ch("2a05", bind(64))),
        mtu=23, wq=142),
    srv("v_sizes65",
        svc("1810", ch("2a00", bind(20), N), ch("2a01", bind(23)), ch(U128 % 3, bind(64), I), ch("2a03", bind(1)), ch("2a04", bind(22)), ch("2a05", bind(21))),
        svc(U128 % 0x100, ch("2a10", bind(4)), ch("2a11", bind(2), N)),
        mtu=65, wq=32),
    # ---- permission options on bound values
    srv("v_perms",
        svc("1810", ch("2a00", bind(2), NOR), ch("2a01", bind(2), NOW), ch("2a02", bind(4, const=True)), ch("2a03", bind(4), NOR, NOW, N),
            ch("2a04", bind(1), WWR), ch("2a05", bind(2), OWWR), ch("2a06", bind(2), OWWR, NOW), ch("2a07", bind(20), NOR, WWR),
            ch("2a08", bind(2, const=True), NOR, I), ch("2a09", bind(2), N, NOR)),
        mtu=23, wq=32),
    # ---- fixed values, strings, blobs, names, descriptors
    srv("v_fixed",
        svc("1810", ch("2a00", fixed(1, 0x42)), ch("2a01", fixed(2, 0xbeef), N), ch("2a02", fixed(4, 0x11223344), NOR), ch("2a03", fixed(2, 7), NOR, I),
            ch("2a04", cstr("bluetoe")), ch("2a05", blob("00ff102030405060708090a0b0c0d0e0f0112233445566778899")), ch("2a06", cstr(""), name=""),
            ch("2a07", cstr("a string that is longer than the default mtu")), ch("2a08", bind(2), N, name="a name", descs=[dict(uuid="290a", bytes="aabbccddeeff00112233")])),
        mtu=23, wq=10),
    # ---- handler values: read/write, read only, write only, without offset; notify-only with no_read_access
    srv("v_handlers",
        svc("1810", ch("2a00", handler(8)), ch("2a01", handler(4, write=False), N), ch("2a02", handler(30, read=False)),
            ch("2a03", handler(6, blob=False), I), ch("2a04", bind(2)), ch("2a05", handler(23), WWR), ch("2a06", handler(2, blob=False, read=False))),
        mtu=23, wq=32),
    srv("v_handler_noread",
        svc("1810", ch("2a00", handler(4), NOR), ch("2a01", handler(4, write=False), NOR, N), ch("2a02", bind(2))),
        mtu=23, wq=10),
    # ---- write queue sizes 0 / 10 / 32 / 142 / none, CCCDs with fixed handles, long values
    srv("v_wq0", svc("1810", ch("2a00", bind(4)), ch("2a01", bind(2), N)), mtu=23, wq=0),
    srv("v_wq10", svc("1810", ch("2a00", bind(4)), ch("2a01", bind(2), N), ch("2a02", bind(20), NOW)), svc("1811", ch("2a10", bind(1), enc=[R])), mtu=23, wq=10),
    srv("v_wq32",
        svc("1810", ch("2a00", bind(20), handle=5), ch("2a01", bind(4), N, handle=[9, 12, 15]), ch("2a02", bind(1), name="nm", handle=[20, 22, 0]), handle=3),
        svc("1811", ch("2a10", bind(23), I, enc=[R]), ch("2a11", cstr("ro"))),
        mtu=40, wq=32),
    srv("v_wq142",
        svc("1810", ch("2a00", bind(64), N), ch("2a01", bind(23)), ch("2a02", bind(64), enc=[R]), ch("2a03", handler(30))),
        mtu=65, wq=142),
    srv("v_wqnone", svc("1810", ch("2a00", bind(4)), ch("2a01", bind(2), N, enc=[R])), mtu=23),
    # ---- values longer than 256 octets: every 16 bit field (value offset of Read Blob / Prepare Write, queued offset,
    #      element length in the queue) has to be used at full width; queue large enough for fragments crossing 256 / 512
    srv("v_long",
        svc("1810", ch("2a00", bind(300)), ch("2a01", bind(600), N), ch("2a02", handler(300)), ch("2a03", bind(2)),
            ch("2a04", cstr("x" * 280))),
        mtu=300, wq=700),
]


def random_configs(component, rng, n, prefix="rnd"):
    """seeded random configurations without include_service<> (with includes the handle mapping is shifted - C04's
    finding - and reading a characteristic declaration asserts - C01's finding)"""
    out = []
    for _ in range(6):
        out += [c for c in AC.random_configs(component, rng, n, prefix) if not any(s.get("includes") for s in c["services"])]
        if len(out) >= n:
            break
    return out[:n]


def by_name(name):
    for c in POOL + att_configs.CORPUS:
        if c["name"] == name:
            return c
    raise KeyError(name)


# ------------------------------------------------------------------ what the generators know about a configuration
class VInfo:
    def __init__(self, info):
        self.info = info
        self.cfg = info.cfg
        self.mtu = info.mtu
        self.chars = []              # per characteristic: dict(ci, vh, cccd, decl, kind, size, ch, prot, k1)
        handles, uuids = info.handles, info.uuids
        k = -1
        cur = None
        for i, u in enumerate(uuids):
            if u == "2803":
                k += 1
                c = info.chars[k][2] if k < len(info.chars) else None
                cur = dict(ci=k, decl=handles[i], vh=handles[i + 1] if i + 1 < len(handles) else 0, cccd=0, ch=c)
                self.chars.append(cur)
            elif u in ("2800", "2801"):
                cur = None
            elif u == "2902" and cur is not None:
                cur["cccd"] = handles[i]
        for d in self.chars:
            c = d["ch"]
            v = c["value"]
            d["kind"] = v["kind"]
            d["size"] = v.get("size") or len(v.get("text", "")) or len(v.get("bytes", "")) // 2
            # handler value with a read handler and no_read_access: known finding C06 (the read handler answers)
            d["k1"] = v["kind"] == "handler" and v.get("read") and "no_read_access" in c["opts"]
            d["whandler"] = v["kind"] == "handler" and v.get("write")
            d["var"] = v["kind"] in ("bind", "handler")
        self.value_handles = [d["vh"] for d in self.chars if d["vh"]]
        self.cccd_handles = [d["cccd"] for d in self.chars if d["cccd"]]
        self.k1_handles = set(d["vh"] for d in self.chars if d["k1"])
        self.by_vh = {d["vh"]: d for d in self.chars if d["vh"]}
        self.wq = self.cfg.get("wq")


def vinfos(component, cfgs):
    return [VInfo(i) for i in AC.infos(component, cfgs)]


# ------------------------------------------------------------------ traffic
SEC_STATES = ["0 0", "0 1", "0 2", "0 3", "1 1", "1 2", "1 3", "1 0"]     # is_encrypted, pairing_status


def sec_op(rng, conn=None, state=None):
    return "sec %d %s" % (rng.randrange(3) if conn is None else conn, state or rng.choice(SEC_STATES))


def pick_char(rng, vi, pred=None):
    l = [d for d in vi.chars if d["vh"] and (pred is None or pred(d))]
    return rng.choice(l) if l else None


def pick_vh(rng, vi, avoid_k1=True):
    l = [h for h in vi.value_handles if not (avoid_k1 and h in vi.k1_handles)]
    r = rng.random()
    if l and r < 0.8:
        return rng.choice(l)
    if vi.cccd_handles and r < 0.9:
        return rng.choice(vi.cccd_handles)
    h = AC.pick_handle(rng, vi.info)
    return 0 if (avoid_k1 and h in vi.k1_handles) else h


def around(rng, *xs):
    x = rng.choice(xs)
    return max(0, x + rng.choice([-2, -1, 0, 0, 0, 1, 2]))


def write_len(rng, vi, h):
    d = vi.by_vh.get(h)
    if h in vi.cccd_handles:
        return rng.choice([0, 1, 2, 2, 2, 3])
    size = d["size"] if d else rng.choice([1, 2, 4])
    return min(around(rng, size, size, size, 0, 1, vi.mtu - 3), 80)


def gen_value_pdu(rng, vi, avoid_k1=True):
    """one request aimed at the value paths"""
    h = pick_vh(rng, vi, avoid_k1)
    d = vi.by_vh.get(h)
    size = d["size"] if d else 2
    r = rng.random()
    if r < 0.18:
        return "0a" + le16(h)
    if r < 0.34:
        return "0c" + le16(h) + le16(rng.choice([0, 0, 1, around(rng, size), around(rng, size), around(rng, vi.mtu - 1), around(rng, size - (vi.mtu - 1)) if size > vi.mtu else 2, 0xffff]))
    if r < 0.54:
        data = AC.cccd_value(rng) if h in vi.cccd_handles and rng.random() < 0.8 else AC.rnd_hex(rng, write_len(rng, vi, h))
        return ("12" if rng.random() < 0.75 else "52") + le16(h) + data
    if r < 0.70:
        off = rng.choice([0, 0, 0, 1, around(rng, size), around(rng, size // 2), 0xffff])
        n = rng.choice([0, 1, 2, max(0, size - off) if off <= size else 1, around(rng, max(0, size - off)), 18, around(rng, vi.mtu - 5)])
        return "16" + le16(h) + le16(off) + AC.rnd_hex(rng, min(n, 80))
    if r < 0.78:
        return "18" + rng.choice(["00", "01", "01", "01"])
    if r < 0.84:
        # Read By Type: the uuid of a characteristic / CCCD / declaration over a range
        ok = [x for x in vi.chars if not (avoid_k1 and x["k1"]) and len(x["ch"]["uuid"]) == 4]
        u = rng.choice([x["ch"]["uuid"] for x in ok] + ["2902", "2803"]) if ok else "2902"
        a, b = (1, 0xffff) if rng.random() < 0.6 else AC.pick_range(rng, vi.info)
        return "08" + le16(a) + le16(b) + AC.uuid_le(u)
    if r < 0.90:
        return "0e" + "".join(le16(pick_vh(rng, vi, avoid_k1)) for _ in range(rng.choice([2, 2, 3, 4])))
    if r < 0.93 and vi.chars:
        return "0a" + le16(rng.choice(vi.chars)["decl"])
    if r < 0.96:
        return "02" + le16(rng.choice([23, 24, vi.mtu, vi.mtu + 1, 64, 100, 512, 22]))
    return AC.gen_pdu(rng, vi.info)


def fix_k1(pdu, vi):
    """general traffic does not read a characteristic of the known finding C06 (handler value + no_read_access)"""
    if vi.k1_handles and pdu[:2] in ("0a", "0c", "0e", "08"):
        body = bytes.fromhex(pdu[2:])
        if pdu[:2] == "08":
            return "0a0000"
        for k in range(0, len(body) - 1, 2):
            if body[k] | (body[k + 1] << 8) in vi.k1_handles and (pdu[:2] == "0e" or k == 0):
                return "0a0000"
    return pdu


def gen_value_history(rng, vi, n, conns=(0, 1, 2), sec_rate=0.10, avoid_k1=True, allow_val_handler=True):
    """requests of several connections mixed with link security changes, disconnects, notifications, value
    inspection. A `val` of a handler value that a Prepare Write named is left out (known finding C07: the probe
    calls the write handler); dedicated cases (gen_prepare_handler) exercise it."""
    ops = []
    prepared = set()
    nch = len(vi.chars)
    for _ in range(n):
        r = rng.random()
        conn = rng.choice(conns)
        if r < 0.60:
            x = rng.random()
            pdu = gen_value_pdu(rng, vi, avoid_k1)
            if x > 0.92:
                pdu = AC.fit(rng, pdu, max(1, len(pdu) // 2 + rng.choice([-2, -1, 1, 2])))
            if avoid_k1:
                pdu = fix_k1(pdu, vi)
            if pdu[:2] == "16" and len(pdu) >= 6:
                d = vi.by_vh.get(int(pdu[4:6] + pdu[2:4], 16))
                if d is not None and d["whandler"]:
                    prepared.add(d["ci"])
            ops.append("in %d %s %d" % (conn, pdu, rng.choice([23, vi.mtu, vi.mtu, vi.mtu + 1, 512])))
        elif r < 0.60 + sec_rate:
            ops.append(sec_op(rng, conn))
        elif r < 0.76 and nch:
            d = rng.choice(vi.chars)
            if d["var"] and not (d["ci"] in prepared or (d["whandler"] and not allow_val_handler)):
                ops.append("val %d" % d["ci"])
            else:
                ops.append("in %d 0a%s %d" % (conn, le16(d["vh"] if not d["k1"] else 0), vi.mtu))
        elif r < 0.80 and nch:
            d = rng.choice(vi.chars)
            ops.append("setval %d %s" % (d["ci"], AC.rnd_hex(rng, max(1, d["size"]))))
        elif r < 0.86 and nch:
            ops.append("%s %d" % (rng.choice(["notify", "indicate", "notify_uuid", "indicate_uuid"]), rng.randrange(nch)))
        elif r < 0.93:
            ops.append("out %d %d" % (conn, rng.choice([23, 23, vi.mtu, vi.mtu, 100, 3])))
        elif r < 0.96:
            ops.append("disc %d" % conn)
        elif vi.cccd_handles:
            ops.append("in %d 12%s%s %d" % (conn, le16(rng.choice(vi.cccd_handles)), rng.choice(["0100", "0200", "0300", "0000"]), vi.mtu))
        else:
            ops.append("in %d 1e 23" % conn)
    return ops


def all_vals(vi, skip_whandler=False):
    return ["val %d" % d["ci"] for d in vi.chars if d["var"] and not (skip_whandler and d["whandler"])]


def gen_three_states(rng, vi):
    """every characteristic: read, blob read, write, write command, prepare, execute, CCCD read / write, notification
    in each of the three link states (unencrypted / no key, unencrypted / key, encrypted); values inspected after"""
    cases = []
    for state in ("0 0", "0 %d" % rng.choice([1, 2, 3]), "1 %d" % rng.choice([1, 2, 3])):
        ops = ["sec 0 " + state]
        for d in vi.chars:
            if d["k1"] or not d["vh"]:
                continue
            h, size = d["vh"], d["size"]
            data = AC.rnd_hex(rng, size)
            ops += ["in 0 0a%s %d" % (le16(h), vi.mtu), "in 0 0c%s%s %d" % (le16(h), le16(min(size, 1)), vi.mtu),
                    "in 0 12%s%s %d" % (le16(h), data, vi.mtu)]
            if d["var"]:
                ops.append("val %d" % d["ci"])
            ops += ["in 0 52%s%s %d" % (le16(h), AC.rnd_hex(rng, size), vi.mtu)]
            if d["var"]:
                ops.append("val %d" % d["ci"])
            if vi.wq is not None:
                ops += ["in 0 16%s0000%s %d" % (le16(h), AC.rnd_hex(rng, min(size, 10)), vi.mtu)]
                if d["var"] and not d["whandler"]:
                    ops.append("val %d" % d["ci"])
                ops += ["in 0 18%s %d" % (rng.choice(["01", "01", "00"]), vi.mtu)]
                if d["var"] and not d["whandler"]:
                    ops.append("val %d" % d["ci"])
            if d["cccd"]:
                ops += ["in 0 12%s%s %d" % (le16(d["cccd"]), rng.choice(["0100", "0200", "0300"]), vi.mtu), "in 0 0a%s %d" % (le16(d["cccd"]), vi.mtu),
                        "%s %d" % (rng.choice(["notify_uuid", "indicate_uuid"]), d["ci"]), "out 0 %d" % vi.mtu, "in 0 1e 23", "out 0 %d" % vi.mtu]
            ops += ["in 0 0e%s%s %d" % (le16(h), le16(rng.choice(vi.value_handles)), vi.mtu),
                    "in 0 08%s%s%s %d" % (le16(max(1, d["decl"])), le16(h + 2), AC.uuid_le(d["ch"]["uuid"]) if len(d["ch"]["uuid"]) == 4 else "0229", vi.mtu)]
        for k in range(0, len(ops), 60):
            cases.append((["sec 0 " + state] if k else []) + ops[k:k + 60])
    return cases


def gen_subscribed_then_unencrypted(rng, vi):
    """a client subscribes while its link is encrypted, then the link is unencrypted (with / without key) when the
    application notifies / indicates: nothing of a protected characteristic may be sent; its CCCD is neither readable nor
    writable; after re-encryption the traffic resumes"""
    cases = []
    for d in vi.chars:
        if not d["cccd"] or not d["vh"]:
            continue
        ops = ["sec 0 1 %d" % rng.choice([1, 2, 3]), "in 0 12%s0300 %d" % (le16(d["cccd"]), vi.mtu), "sec 0 0 %d" % rng.choice([0, 1, 2, 3])]
        for _ in range(2):
            ops += ["%s %d" % (rng.choice(["notify_uuid", "indicate_uuid", "notify", "indicate"]), d["ci"]), "out 0 %d" % rng.choice([23, vi.mtu, 100]), "in 0 1e 23"]
        ops += ["in 0 0a%s %d" % (le16(d["cccd"]), vi.mtu), "in 0 12%s0000 %d" % (le16(d["cccd"]), vi.mtu), "in 0 52%s0000 %d" % (le16(d["cccd"]), vi.mtu),
                "sec 0 1 1", "in 0 0a%s %d" % (le16(d["cccd"]), vi.mtu), "notify_uuid %d" % d["ci"], "indicate_uuid %d" % d["ci"], "out 0 %d" % vi.mtu, "in 0 1e 23", "out 0 %d" % vi.mtu]
        cases.append(ops)
    return cases


def gen_gap_handles(rng, vi):
    """every access kind aimed at handles that no attribute has (gap interiors of fixed handles, 0, last+1, last+2),
    with all bound variables inspected afterwards: nothing may be read or written under a handle no attribute reports"""
    real = set(vi.info.real)
    last = max(real) if real else 0
    gaps = [h for h in range(0, last + 3) if h not in real]
    if len(gaps) > 12:
        gaps = sorted(set(gaps[:3] + gaps[-3:] + rng.sample(gaps, 6)))
    vals = ["val %d" % d["ci"] for d in vi.chars if d.get("var")]
    cases = []
    for h in gaps:
        ops = []
        for pdu in ("12%s%s" % (le16(h), AC.rnd_hex(rng, 1)), "52%s%s" % (le16(h), AC.rnd_hex(rng, 2)), "52%s%s" % (le16(h), AC.rnd_hex(rng, 1)),
                    "16%s0000%s" % (le16(h), AC.rnd_hex(rng, 1)), "1801", "0a%s" % le16(h), "0c%s0000" % le16(h), "52%s0100" % le16(h)):
            ops.append("in %d %s %d" % (rng.randrange(2), pdu, vi.mtu))
            ops += vals
        cases.append(ops)
    return cases


WIDE = [255, 256, 257, 511, 512]


def gen_wide_offsets(rng, vi):
    """values longer than 256 octets: 16 bit fields at full width. Prepared writes and Read Blob at the offsets
    255, 256, 257, 511, 512, size-1, size, size+1; a long write split into queued fragments that cross offset 256
    (and 512); execute, then the variable and the value (read in blobs) are inspected"""
    cases = []
    for d in vi.chars:
        size = d["size"]
        if size <= 256 or not d["vh"] or d["k1"]:
            continue
        h = le16(d["vh"])
        offs = sorted(set(o for o in WIDE + [size - 1, size, size + 1] if o <= 0xffff))
        show = ["val %d" % d["ci"]] if d["var"] and not d["whandler"] else []
        # single prepared writes at each offset, executed one by one
        ops = ["in 0 02%s 300" % le16(300)]
        for off in offs:
            n = rng.choice([1, 2, 4])
            ops += ["in 0 16%s%s%s 300" % (h, le16(off), AC.rnd_hex(rng, n)), "in 0 1801 300"] + show
            ops += ["in 1 0c%s%s %d" % (h, le16(max(0, off - 1)), rng.choice([23, 300]))]
        cases.append(ops)
        # Read Blob at every offset with a small and a large MTU
        ops = []
        for off in offs:
            ops += ["in 2 0c%s%s 23" % (h, le16(off))]
        ops += ["in 2 02%s 300" % le16(300)] + ["in 2 0c%s%s 300" % (h, le16(off)) for off in offs]
        cases.append(ops)
        if vi.wq is None or not d["var"]:
            continue
        # one long write as queued fragments crossing 256 (and 512), in order and in reverse order
        frag = rng.choice([60, 100, 128])
        cost = frag + 6
        k = max(1, min((size + frag - 1) // frag, vi.wq // cost))
        pieces = [(i * frag, min(frag, size - i * frag)) for i in range(k) if i * frag < size]
        for order in (pieces, list(reversed(pieces))):
            ops = []
            for off, n in order:
                ops.append("in 0 16%s%s%s %d" % (h, le16(off), AC.rnd_hex(rng, n), rng.choice([23, 300])))
            ops += ["in 1 1801 300"] + show + ["in 0 1801 300"] + show
            for off in (0, 250, 256, 500):
                if off <= size:
                    ops.append("in 0 0c%s%s 300" % (h, le16(off)))
            cases.append(ops)
        # fragments that start exactly at 256 / 257 / 512, and one that ends past the value
        ops = []
        for off in [o for o in (255, 256, 257, 511, 512) if o < size]:
            ops.append("in 2 16%s%s%s 300" % (h, le16(off), AC.rnd_hex(rng, min(8, size - off))))
        ops += ["in 2 1801 300"] + show
        ops += ["in 2 16%s%s%s 300" % (h, le16(size - 2), AC.rnd_hex(rng, 4)), "in 2 1801 300"] + show
        ops += ["in 2 16%s%s%s 300" % (h, le16(256), AC.rnd_hex(rng, 3)), "in 2 1800 300"] + show
        cases.append(ops)
    return cases


def gen_rw_boundaries(rng, vi):
    """per characteristic value: writes of every length around the size, blob reads at every offset around size and
    MTU, with the variable inspected after every write"""
    cases = []
    for d in vi.chars:
        if d["k1"] or not d["vh"]:
            continue
        h, size = d["vh"], d["size"]
        ops = []
        for n in sorted(set([0, 1, size - 1, size, size + 1, min(size + 2, 90)])):
            if n < 0:
                continue
            ops.append("in 0 %s%s%s %d" % (rng.choice(["12", "12", "52"]), le16(h), AC.rnd_hex(rng, n), rng.choice([vi.mtu, 512])))
            if d["var"]:
                ops.append("val %d" % d["ci"])
            ops.append("in 1 0a%s %d" % (le16(h), vi.mtu))
        for off in sorted(set([0, 1, size - 1, size, size + 1, vi.mtu - 2, vi.mtu - 1, vi.mtu, max(0, size - (vi.mtu - 1)), max(0, size - (vi.mtu - 1) + 1), 0xffff])):
            if off >= 0:
                ops.append("in %d 0c%s%s %d" % (rng.randrange(3), le16(h), le16(off), rng.choice([23, vi.mtu, 512])))
        ops.append("in 0 02%s 100" % le16(100))
        for off in (0, 1, size // 2, size):
            ops.append("in 0 0c%s%s %d" % (le16(h), le16(off), rng.choice([23, vi.mtu, 512])))
        ops.append("in 0 0a%s 512" % le16(h))
        ops.append("in 0 0a%s 23" % le16(d["decl"]))
        cases.append(ops)
    return cases


def gen_queue_cases(rng, vi):
    """prepared writes of two / three connections: splitting a long write, interleaved owners, queue capacity,
    execute / cancel / disconnect releasing the queue, link security changes in between"""
    if vi.wq is None:
        return [["in 0 16%s0000aa %d" % (le16(vi.value_handles[0] if vi.value_handles else 1), vi.mtu), "in 0 1801 %d" % vi.mtu, "in 1 1800 %d" % vi.mtu]]
    cases = []
    wr = [d for d in vi.chars if d["vh"] and not d["k1"]]
    if not wr:
        return [["in 0 16010000aa %d" % vi.mtu, "in 1 1801 %d" % vi.mtu]]
    for _ in range(6):
        ops = []
        if rng.random() < 0.5:
            ops.append(sec_op(rng, 0, rng.choice(["1 1", "1 2", "0 1", "0 0"])))
        owner = rng.randrange(3)
        other = (owner + 1 + rng.randrange(2)) % 3
        for _ in range(rng.choice([1, 2, 3, 5, 9])):
            d = rng.choice(wr)
            size = d["size"]
            off = rng.choice([0, 0, 1, size // 2, size, size + 1])
            n = rng.choice([1, 2, max(0, size - off), max(0, size - off), 18, 0])
            ops.append("in %d 16%s%s%s %d" % (owner, le16(d["vh"]), le16(off), AC.rnd_hex(rng, n), rng.choice([23, vi.mtu, vi.mtu + 1])))
            if d["var"] and not d["whandler"] and rng.random() < 0.5:
                ops.append("val %d" % d["ci"])
            x = rng.random()
            if x < 0.3:
                d2 = rng.choice(wr)
                ops.append("in %d 16%s0000%s %d" % (other, le16(d2["vh"]), AC.rnd_hex(rng, 1), vi.mtu))
            elif x < 0.4:
                ops.append("in %d 18%s %d" % (other, rng.choice(["00", "01"]), vi.mtu))
            elif x < 0.5:
                ops.append("in %d 12%s%s %d" % (rng.randrange(3), le16(d["vh"]), AC.rnd_hex(rng, size), vi.mtu))
            elif x < 0.55:
                ops.append(sec_op(rng, owner))
        end = rng.random()
        if end < 0.55:
            ops.append("in %d 1801 %d" % (owner, vi.mtu))
        elif end < 0.75:
            ops.append("in %d 1800 %d" % (owner, vi.mtu))
        elif end < 0.9:
            ops.append("disc %d" % owner)
        ops.append("in %d 16%s0000%s %d" % (other, le16(rng.choice(wr)["vh"]), AC.rnd_hex(rng, 2), vi.mtu))
        ops += all_vals(vi, skip_whandler=True)
        ops.append("in %d 1801 %d" % (other, vi.mtu))
        ops += all_vals(vi, skip_whandler=True)
        cases.append(ops)
    # fill the queue exactly: elements of (len + 4 + 2) bytes
    d = wr[0]
    ops = []
    used = 0
    for _ in range(40):
        n = rng.choice([0, 1, 4, 12, 17])
        ops.append("in 2 16%s0000%s %d" % (le16(d["vh"]), AC.rnd_hex(rng, n), vi.mtu))
        used += n + 6
        if used > vi.wq + 12:
            break
    ops += ["in 1 16%s0000aa %d" % (le16(d["vh"]), vi.mtu), "in 2 1801 %d" % vi.mtu, "in 1 16%s0000aa %d" % (le16(d["vh"]), vi.mtu), "disc 1",
            "in 0 16%s0000bb %d" % (le16(d["vh"]), vi.mtu)]
    ops += all_vals(vi, skip_whandler=True)
    cases.append(ops)
    # a prepared write to every CCCD
    for h in vi.cccd_handles[:3]:
        cases.append(["in 0 16%s0000%s %d" % (le16(h), rng.choice(["0100", "0200", "01", ""]), vi.mtu), "in 1 16%s00000100 %d" % (le16(h), vi.mtu),
                      "in 0 1801 %d" % vi.mtu, "in 0 0a%s %d" % (le16(h), vi.mtu), "in 1 0a%s %d" % (le16(h), vi.mtu)])
    return cases


def gen_prepare_handler(rng, vi):
    """known finding C07: the write handler is called by the permission probe of a Prepare Write Request"""
    cases = []
    for d in vi.chars:
        if d["whandler"] and d["vh"]:
            cases.append(["val %d" % d["ci"], "in 0 16%s0000%s %d" % (le16(d["vh"]), AC.rnd_hex(rng, 1), vi.mtu), "val %d" % d["ci"],
                          "in 0 1800 %d" % vi.mtu, "val %d" % d["ci"]])
    return cases


def gen_k1(rng, vi):
    """known finding C06: a handler value with a read handler and no_read_access is readable"""
    cases = []
    for d in vi.chars:
        if d["k1"] and d["vh"]:
            cases.append(["in 0 0a%s 23" % le16(d["vh"])])
            cases.append(["in 0 0c%s0100 23" % le16(d["vh"])])
            cases.append(["in 1 0e%s%s 23" % (le16(d["vh"]), le16(d["vh"]))])
            if len(d["ch"]["uuid"]) == 4:
                cases.append(["in 2 080100ffff%s 23" % AC.uuid_le(d["ch"]["uuid"])])
    return cases
