"""Shared part of the security manager checks C32..C35: the toy tool box in Python (identical to
coq/SM/ToyCrypto.v and harness/toy_crypto.hpp), a lock-step pairing peer (central) that talks to the
extracted model while a trace is generated and computes valid / deliberately wrong confirm, random
and DHKey check values from what it has seen, scenario generators, and the configuration groups of
the harness."""
import hashlib, os, subprocess
from vlib.core import Standard, Case, BUILD, VERIF

# ---------------------------------------------------------------- toy tool box
P = 4294967291


def h(tag, bs):
    acc = tag
    for b in bs:
        acc = (acc * 257 + b + 1) % P
    return acc


def x16(v):
    return [(((v + 1) * (2654435761 + 81006 * i)) >> 24) & 0xff for i in range(16)]


def X(tag, bs):
    return x16(h(tag, bs))


def c1(k, r, p1, p2):
    return X(1, k + r + p1 + p2)


def s1(k, r1, r2):
    return X(2, k + r1 + r2)


def f4(u, v, x, z):
    return X(3, u[:32] + v[:32] + x + [z])


def f5(w, n1, n2, a1, a2):
    m = w + n1 + n2 + a1 + a2
    return X(4, m), X(5, m)


def f6(w, n1, n2, r, io, a1, a2):
    return X(6, w + n1 + n2 + r + io + a1 + a2)


def dh(x1, x2):
    d = [a ^ b for a, b in zip(x1[:32], x2[:32])]
    return X(8, d) + X(9, d)


def checksum(b63):
    return (sum(b63) & 0xff) ^ 165


def make_public_key(rng, valid=True):
    b = [rng.randrange(256) for _ in range(63)]
    c = checksum(b)
    return b + [c if valid else (c ^ rng.choice([1, 2, 0x80, 0xff]))]


OOB_DATA = X(17, [79, 79, 66])
LOCAL_ADDR = [0, 177, 178, 179, 180, 181, 182]
ZERO16 = [0] * 16


def remote_addr(a):
    return [1, a & 0xff, 161, 162, 163, 164, 165]


def le32(n):
    return [n & 0xff, (n >> 8) & 0xff, (n >> 16) & 0xff, (n >> 24) & 0xff]


def hx(bs):
    return "".join("%02x" % b for b in bs) if bs else "-"


def unhx(s):
    return [] if s == "-" else [int(s[i:i + 2], 16) for i in range(0, len(s), 2)]


# reference values pinned in coq/SM/ToyCrypto.v (Examples) - a disagreement between the three
# implementations would make every "good" value of the peer wrong
assert h(1, [1, 2, 3]) == 17107466
assert X(1, [1, 2, 3]) == [8, 177, 89, 2, 170, 83, 251, 164, 77, 245, 158, 70, 239, 151, 64, 233]

# ---------------------------------------------------------------- configurations
VARIANTS = {"legacy": ["none", "yesno", "keyboard"], "lesc": ["none", "yesno"], "both": ["none", "yesno"]}
QUICK = [
    ("legacy", "none", "none", "oob0", "bond0"), ("legacy", "keyboard", "display", "oob0", "bond1"),
    ("legacy", "none", "display", "oob1", "bond1"), ("legacy", "yesno", "display", "oob0", "bond0"),
    ("lesc", "none", "none", "oob0", "bond0"), ("lesc", "yesno", "display", "oob0", "bond0"),
    ("lesc", "yesno", "display", "oob1", "bond1"), ("both", "none", "none", "oob0", "bond1"),
    ("both", "yesno", "display", "oob0", "bond1"), ("both", "yesno", "display", "oob1", "bond0"),
    ("both", "none", "display", "oob1", "bond1"), ("none", "none", "none", "oob0", "bond0"),
]
QUICK_GROUPS = [[0, 4], [1, 11], [2, 5], [3, 8], [6, 7], [9, 10]]


def all_configs():
    r = []
    for v, ins in VARIANTS.items():
        for i in ins:
            for o in ("none", "display"):
                for b in ("oob0", "oob1"):
                    for d in ("bond0", "bond1"):
                        r.append((v, i, o, b, d))
    r.append(("none", "none", "none", "oob0", "bond0"))
    return r


CPP = {"legacy": "legacy", "lesc": "lesc", "both": "both", "none": "none"}
CPP_IN = {"none": "in_none", "yesno": "in_yesno", "keyboard": "in_keyb"}
CPP_OUT = {"none": "out_none", "display": "out_num"}


def group_of(cfg5):
    """static partition of the configurations into harness binaries (independent of the other cases,
    so that shrinking re-uses the binary)"""
    cfg5 = tuple(cfg5)
    if cfg5 in QUICK:
        k = QUICK.index(cfg5)
        for gi, g in enumerate(QUICK_GROUPS):
            if k in g:
                return "q%d" % gi, [QUICK[j] for j in g]
    v, i, o = cfg5[0], cfg5[1], cfg5[2]
    members = [c for c in all_configs() if c[:3] == (v, i, o) and c not in QUICK]
    return "t_%s_%s_%s" % (v, i, o), members


def prepare_groups(ctx, cases):
    groups = {}
    for c in cases:
        key, members = group_of(c.cfg[1:6])
        groups.setdefault(key, (members, []))[1].append(c)
    res = []
    for key, (members, cs) in sorted(groups.items()):
        d = os.path.join(ctx.bdir, "sm_" + key + ".d")
        os.makedirs(d, exist_ok=True)
        txt = "".join("CFG( %s, %s, %s, %s, %s )\n" % (CPP[v], CPP_IN[i], CPP_OUT[o], b, dd) for v, i, o, b, dd in members)
        p = os.path.join(d, "sm_configs.inc")
        if not os.path.exists(p) or open(p).read() != txt:
            open(p, "w").write(txt)
        res.append(("sm_" + key, ["-I" + d, "-O0", "-g0"], cs))   # -O0 -g0: a third of the compile time, sanitizers unaffected
    return res


# ---------------------------------------------------------------- lock-step with the extracted model
class Model:
    """build/btmodel_sm in model mode. Two long-lived processes (spawning is expensive): one holds the case
    being built, the other replays its prefix to probe (the model is deterministic)."""
    procs = {}

    def __init__(self):
        self.bin = os.path.join(BUILD, "btmodel_sm")
        self.cfg = None
        self.ops = []

    @classmethod
    def _proc(cls, which, binary):
        p = cls.procs.get(which)
        if p is None or p.poll() is not None:
            p = subprocess.Popen([binary, "model"], stdin=subprocess.PIPE, stdout=subprocess.PIPE, text=True, bufsize=1)
            cls.procs[which] = p
        return p

    def _send(self, line, which="main"):
        p = self._proc(which, self.bin)
        p.stdin.write(line + "\n")
        p.stdin.flush()
        return p.stdout.readline().rstrip("\n")

    def case(self, cfg):
        self.cfg, self.ops = list(cfg), []
        self._send("CASE x " + " ".join(cfg))

    def op(self, line):
        self.ops.append(line)
        return self._send(line)

    def probe(self, extra):
        """outputs of `extra` after the current prefix, in the scratch process"""
        self._send("CASE p " + " ".join(self.cfg), "probe")
        for o in self.ops:
            self._send(o, "probe")
        return [self._send(o, "probe") for o in extra]

    def close(self):
        pass

    @classmethod
    def shutdown(cls):
        for p in cls.procs.values():
            try:
                p.stdin.close()
                p.wait(timeout=5)
            except Exception:
                p.kill()
        cls.procs.clear()


class Peer:
    """the central. Every method appends operations to the case being built and returns the model's answer."""

    def __init__(self, model, cfg, rng):
        self.m, self.cfg, self.rng = model, list(cfg), rng
        self.variant, self.inp, self.outp = cfg[1], cfg[2], cfg[3]
        self.oob, self.bond, self.yn = cfg[4] == "oob1", cfg[5] == "bond1", cfg[6]
        self.peer = 0
        self.passkey = 0
        self.bonds = []          # (peer, rand, ediv) of the store_bond callbacks seen
        self.last_events = []
        self.reset_pairing()
        model.case(cfg)

    # ---- bookkeeping
    def reset_pairing(self):
        self.phase = "idle"
        self.preq = self.pres = None
        self.lesc = False
        self.tk = None
        self.mrand = None
        self.ska_x = None

    def send(self, line):
        r = self.m.op(line)
        for w in r.split()[1:]:
            if w.startswith("bond="):
                k, rnd, ediv = w[5:].split(":")
                self.bonds.append((self.peer, int(rnd), int(ediv)))
        return r

    def pdu(self, bs):
        r = self.send("in " + hx(bs))
        w = r.split()
        self.last_events = w[1:]
        resp = unhx(w[0]) if w and w[0] not in ("FAULT", "SKIPPED") else []
        if len(resp) == 2 and resp[0] == 5:
            self.reset_pairing()
        return resp

    def poll(self):
        r = self.send("out")
        w = r.split()
        resp = unhx(w[0]) if w and w[0] not in ("FAULT", "SKIPPED") else []
        if len(resp) == 2 and resp[0] == 5:
            self.reset_pairing()
        elif resp and resp[0] == 3 and self.phase == "lesc_pk":
            self.phase, self.cb = "lesc_conf", resp[1:]
        elif resp and resp[0] == 13:
            self.phase = "done"
        return resp

    def new_connection(self, a):
        self.send("reset %d" % a)
        self.peer = a & 0xff
        self.reset_pairing()

    # ---- pairing request
    def request(self, lesc, io=None, oobflag=0, auth_extra=0, maxkey=16, ikd=0, rkd=1, size=7):
        rng = self.rng
        io = rng.randrange(5) if io is None else io
        auth = (8 if lesc else 0) | auth_extra
        preq = [1, io, oobflag, auth, maxkey, ikd, rkd][:size] + [0] * max(0, size - 7)
        was_idle = self.phase == "idle"
        resp = self.pdu(preq)
        if len(resp) == 7 and resp[0] == 2:
            self.preq, self.pres = preq, resp
            self.lesc = (self.variant == "lesc") or (self.variant == "both" and bool(auth & 8))
            self.phase = "lesc_req" if self.lesc else "leg_req"
            self.tk = None
        return resp

    # ---- legacy
    def _p1p2(self):
        p1 = [1, 0] + self.preq + self.pres
        p2 = LOCAL_ADDR[1:] + remote_addr(self.peer)[1:] + [0, 0, 0, 0]
        return p1, p2

    def find_tk(self):
        """which temporary key does the security manager use? probe the model with the candidates"""
        cands = [ZERO16, OOB_DATA, le32(self.passkey) + [0] * 12]
        mrand = [7] * 16
        p1, p2 = self._p1p2()
        # a displayed passkey shows up in the confirm step's events
        out = self.m.probe(["in " + hx([3] + ZERO16)])
        for w in out[0].split()[1:]:
            if w.startswith("disp="):
                cands.append(le32(int(w[5:])) + [0] * 12)
        for tk in cands:
            o = self.m.probe(["in " + hx([3] + c1(tk, mrand, p1, p2)), "in " + hx([4] + mrand)])
            if o[1].startswith("04"):
                return tk
        return ZERO16

    def confirm(self, good=True, size=17):
        rng = self.rng
        if self.preq is None or self.lesc:
            return self.pdu(([3] + [rng.randrange(256) for _ in range(16)])[:size] + [0] * max(0, size - 17))
        if self.tk is None:
            self.tk = self.find_tk()
        self.mrand = [rng.randrange(256) for _ in range(16)]
        p1, p2 = self._p1p2()
        mc = c1(self.tk, self.mrand, p1, p2)
        if not good:
            mc = list(mc)
            mc[rng.randrange(16)] ^= rng.choice([1, 0x10, 0xff])
        resp = self.pdu(([3] + mc)[:size] + [0] * max(0, size - 17))
        if len(resp) == 17 and resp[0] == 3:
            self.phase = "leg_conf"
        return resp

    def random(self, good=True, size=17):
        rng = self.rng
        if self.lesc and self.phase in ("lesc_conf",):
            self.na = [rng.randrange(256) for _ in range(16)]
            resp = self.pdu(([4] + self.na)[:size] + [0] * max(0, size - 17))
            if len(resp) == 17 and resp[0] == 4:
                self.phase, self.nb = "lesc_rand", resp[1:]
            return resp
        mr = self.mrand if (self.mrand is not None and good) else [rng.randrange(256) for _ in range(16)]
        resp = self.pdu(([4] + mr)[:size] + [0] * max(0, size - 17))
        if len(resp) == 17 and resp[0] == 4:
            self.phase = "done"
        return resp

    # ---- LESC
    def pubkey(self, valid=True, size=65):
        pk = make_public_key(self.rng, valid)
        resp = self.pdu(([12] + pk)[:size] + [0] * max(0, size - 65))
        if len(resp) == 65 and resp[0] == 12:
            self.pka, self.pkb, self.phase = pk, resp[1:], "lesc_pk"
        return resp

    def dhkey(self, good=True, size=17):
        rng = self.rng
        if self.phase == "lesc_rand":
            a, b = remote_addr(self.peer), LOCAL_ADDR
            mackey, _ = f5(dh(self.pka, self.pkb), self.na, self.nb, a, b)
            ea = f6(mackey, self.na, self.nb, ZERO16, self.preq[1:4], a, b)
            if not good:
                ea = list(ea)
                ea[rng.randrange(16)] ^= rng.choice([1, 0x20, 0xff])
        else:
            ea = [rng.randrange(256) for _ in range(16)]
        resp = self.pdu(([13] + ea)[:size] + [0] * max(0, size - 17))
        if len(resp) == 17 and resp[0] == 13:
            self.phase = "done"
        return resp

    def garbage(self):
        rng = self.rng
        k = rng.random()
        if k < 0.3:
            bs = [rng.choice([0, 2, 5, 6, 7, 8, 9, 10, 11, 14, 15, 0x80, 0xff])] + [rng.randrange(256) for _ in range(rng.choice([0, 1, 6, 16]))]
        elif k < 0.4:
            bs = []
        else:
            bs = [rng.choice([1, 3, 4, 12, 13])] + [rng.randrange(256) for _ in range(rng.choice([0, 1, 5, 6, 7, 15, 16, 17, 22, 63, 64, 65]))]
        return self.pdu(bs[:65])

    def user(self, yes):
        return self.send("yes" if yes else "no")

    def type_passkey(self, n):
        self.passkey = n & 0xffffffff
        return self.send("passkey %d" % n)

    def preload_bond(self, a, ediv, rnd, kb):
        """the application's bond data base already holds a bond for peer a under (ediv, rnd), key kb x 16"""
        self.bonds.append((a & 0xff, rnd, ediv & 0xffff))
        return self.send("bond %d %d %d %d" % (a & 0xff, ediv & 0xffff, rnd, kb & 0xff))

    def ask_all(self, extra=()):
        """key requests for the pairing key's identifiers, for every bond seen / pre-loaded and near misses"""
        ids = [(0, 0), (0, 1), (1, 0)] + [(e, r) for _, r, e in self.bonds] + list(extra)
        seen = set()
        for e, r in ids:
            if (e, r) not in seen:
                seen.add((e, r))
                self.send("key %d %d" % (e, r))

    # ---- complete exchanges
    def pair_legacy(self, io=None, oobflag=0, good=True):
        self.request(False, io=io, oobflag=oobflag)
        if self.phase != "leg_req":
            return False
        self.confirm(good=good)
        if self.phase != "leg_conf":
            return False
        self.random()
        return self.phase == "done"

    def pair_lesc(self, io=None, oobflag=0, good=True, answer=True, poll_before_dhkey=False):
        self.request(True, io=io, oobflag=oobflag)
        if self.phase != "lesc_req":
            return False
        self.pubkey()
        self.poll()
        if self.phase != "lesc_conf":
            return False
        self.random()
        if self.phase != "lesc_rand":
            return False
        if "yn" in self.last_events and self.yn == "as" and answer is not None:
            self.user(answer)
        if poll_before_dhkey:
            self.poll()
        if self.phase != "done":
            self.dhkey(good=good)
        if self.phase != "done":
            self.poll()
        return self.phase == "done"


def step_ops(peer, rng, weights=None):
    """one action of a random walk around the protocol: mostly the step that is due, otherwise a
    repeated / reordered / malformed / wrong-valued step, a user action or a link layer action"""
    ph = peer.phase
    r = rng.random()
    lesc_ok = peer.variant in ("lesc", "both")
    legacy_ok = peer.variant in ("legacy", "both")
    if r < 0.58:        # the step that is due
        if ph == "idle" or ph == "done":
            lesc = lesc_ok and (not legacy_ok or rng.random() < 0.55)
            peer.request(lesc, io=rng.randrange(5), oobflag=1 if rng.random() < 0.2 else 0,
                         auth_extra=rng.choice([0, 0, 1, 4, 5, 0x10, 0x40]), rkd=rng.choice([0, 1, 3]), ikd=rng.choice([0, 1]))
        elif ph == "leg_req":
            if peer.inp == "keyboard" and rng.random() < 0.7:
                peer.type_passkey(rng.choice([0, 1, 123456, 999999, rng.randrange(1000000)]))
            peer.confirm()
        elif ph == "leg_conf":
            peer.random()
        elif ph == "lesc_req":
            peer.pubkey()
        elif ph == "lesc_pk":
            peer.poll()
        elif ph == "lesc_conf":
            peer.random()
        elif ph == "lesc_rand":
            k = rng.random()
            if k < 0.55:
                peer.dhkey()
            elif k < 0.8:
                peer.user(rng.random() < 0.75)
            else:
                peer.poll()
    elif r < 0.66:      # right step, wrong value
        if ph == "leg_req":
            peer.confirm(good=False)
        elif ph == "leg_conf":
            peer.random(good=False)
        elif ph == "lesc_req":
            peer.pubkey(valid=False)
        elif ph == "lesc_rand":
            peer.dhkey(good=False)
        else:
            peer.request(lesc_ok and rng.random() < 0.5, io=rng.choice([5, 6, 255]) if rng.random() < 0.5 else 1,
                         oobflag=rng.choice([0, 2, 3, 0x80]), maxkey=rng.choice([6, 7, 16, 17, 0, 255]), ikd=rng.choice([0, 0x10, 0xf0]), rkd=rng.choice([0, 0x80]))
    elif r < 0.72:      # right step, wrong length
        sz = rng.choice([1, 16, 18])
        if ph == "leg_req":
            peer.confirm(size=sz)
        elif ph in ("leg_conf", "lesc_conf"):
            peer.random(size=sz)
        elif ph == "lesc_req":
            peer.pubkey(size=rng.choice([64, 33, 1]))
        elif ph == "lesc_rand":
            peer.dhkey(size=sz)
        else:
            peer.request(lesc_ok, size=rng.choice([1, 6, 8]))
    elif r < 0.84:      # a step out of order / repeated
        k = rng.randrange(5)
        if k == 0:
            peer.request(lesc_ok and rng.random() < 0.5)
        elif k == 1:
            peer.confirm()
        elif k == 2:
            peer.random()
        elif k == 3:
            peer.pubkey()
        else:
            peer.dhkey(good=rng.random() < 0.5)
    elif r < 0.88:
        peer.garbage()
    elif r < 0.92:
        peer.poll()
    elif r < 0.94:
        peer.user(rng.random() < 0.6)
    elif r < 0.96:
        peer.send("status")
    elif r < 0.975:
        peer.send("key %d %d" % (rng.choice([0, 0, 1]), rng.choice([0, 0, 7, 2 ** 32, 2 ** 61])))
    elif r < 0.99:
        peer.send("enc %d" % rng.randrange(2))
    else:
        peer.new_connection(rng.randrange(4))


def link_ops(peer, rng):
    """what the link layer / application do between pairing steps: key requests (also for stored bonds),
    encryption changes, output polls, status queries, reconnects"""
    r = rng.random()
    if r < 0.06:
        # bond data base contents that collide with the identifiers of the pairing's own key (EDIV 0 / Rand 0,
        # e.g. an old LESC bond), half collisions, or the identifiers of a bond stored a moment ago
        a = peer.peer if rng.random() < 0.7 else rng.choice([0, 1, 2, 3])
        k = rng.random()
        if k < 0.45:
            e, rn = 0, 0
        elif k < 0.6:
            e, rn = 0, rng.choice([1, 2 ** 32, 2 ** 40 + 5])
        elif k < 0.75:
            e, rn = rng.choice([1, 256, 65535]), 0
        elif peer.bonds:
            _, rn, e = rng.choice(peer.bonds)
        else:
            e, rn = rng.randrange(65536), rng.randrange(2 ** 32)
        peer.preload_bond(a, e, rn, rng.choice([0x11, 0x22, 0xee]))
    elif r < 0.28:
        if peer.bonds and rng.random() < 0.6:
            _, rnd, ediv = rng.choice(peer.bonds)
            k = rng.random()
            peer.send("key %d %d" % ((ediv, rnd) if k < 0.7 else (ediv ^ 1, rnd) if k < 0.85 else (ediv, rnd + 1)))
        else:
            # Rand is 64 bit: values whose low 32 (16, 8) bits are zero probe truncating comparisons
            peer.send("key %d %d" % (rng.choice([0, 0, 0, 1, 65535, 65536 - 256]), rng.choice([0, 0, 0, 1, 2 ** 40 + 5, 2 ** 32, 2 ** 40, 0x2ABBCCDD00000000, 2 ** 61, 2 ** 62 - 2 ** 32, 2 ** 16, 256])))
    elif r < 0.50:
        peer.send("enc %d" % (1 if rng.random() < 0.65 else 0))
    elif r < 0.75:
        peer.poll()
    elif r < 0.92:
        peer.send("status")
    else:
        peer.new_connection(rng.choice([0, 0, 1, 2, 3]))


def mixed_walk(n, p_link):
    def script(peer):
        rng = peer.rng
        for _ in range(n):
            if rng.random() < p_link:
                link_ops(peer, rng)
            else:
                step_ops(peer, rng)
    return script


def cfg_words(prop, cfg5, yn):
    return [prop] + list(cfg5) + [yn]


def yn_modes(cfg5):
    return ["sy", "sn", "as"] if cfg5[1] == "yesno" and cfg5[2] == "display" and cfg5[0] in ("lesc", "both") else ["as"]


def build_case(prop, cfg5, yn, rng, script, name="gen"):
    """run `script(peer)` against the model and return the recorded Case"""
    m = Model()
    cfg = cfg_words(prop, cfg5, yn)
    peer = Peer(m, cfg, rng)
    try:
        script(peer)
    finally:
        ops = list(m.ops)
        m.close()
    return Case(name, cfg, ops)


def configs_for(ctx):
    return all_configs() if ctx.thorough else list(QUICK)


def model_available():
    return os.path.exists(os.path.join(BUILD, "btmodel_sm"))


class SMStandard(Standard):
    component = "SM"
    harness = "sm_harness.cpp"
    extra_coq_targets = ("SM/SMInst.vo",)
    trusted_base = ["model coq/SM/SMModel.v (hand written transcription of security_manager.hpp, security_connection_data.hpp, io_capabilities.hpp, oob_authentication.hpp and the link layer's use of them; tied by this run on the compiled configurations)",
                    "toy tool box: coq/SM/ToyCrypto.v = harness/toy_crypto.hpp = props/sm_common.py (reference values pinned; any disagreement shows as a model/implementation difference)",
                    "pairing method selection functions taken from coq/SMSelect/SMSelectModel.v (property C36)"]
    assumptions = ["the security manager is parametric in its SecurityFunctions argument: the real cryptography (C37) is replaced by the toy tool box for execution; theorems hold for every tool box",
                   "asserts enabled (-UNDEBUG): a yes_no_response() outside user_response_wait aborts; NDEBUG behaviour is not modelled",
                   "one connection at a time; the application answers a yes/no request at most once per stored response object",
                   "configurations with pairing_keyboard<> and the LESC-only or combined manager do not compile on this tree and are outside wf"]

    def prepare(self, ctx, cases):
        return prepare_groups(ctx, cases)
