"""C36 Pairing method selection matches the IO capability mapping
(io_capabilities.hpp, oob_authentication.hpp, pairing request handlers of security_manager.hpp)

Tie (DESIGN 4.4): the domain is finite, so every run evaluates the real code on all of it:
36 configurations x IO capability 0..255 x OOB flag {0,1} x local OOB data x AuthReq 0..255.
One case = one `sweep` operation = the 64 AuthReq bytes sharing one (MITM, SC) pair for one IO
capability (or all of 05..ff), one OOB flag, one local-OOB answer; the result line is the run-length
encoded list of cells. One operation per case, so that a known finding in one class of cells can
never hide a failure in another one."""
from vlib.core import Standard, Case, standard_check, VERIF
import itertools, json, os

VARIANTS = ["legacy", "lesc", "combined"]
INPUTS = ["in_none", "in_yesno", "in_keyb"]
OUTPUTS = ["out_none", "out_num"]
MITMS = ["mitm0", "mitm1"]
CFGS = [[v, i, o, m] for v in VARIANTS for i in INPUTS for o in OUTPUTS for m in MITMS]
IO_CLASSES = ["0", "1", "2", "3", "4", "hi"]          # hi = 05..ff
BOUNDARY_AUTH = [0x00, 0x01, 0x04, 0x05, 0x08, 0x09, 0x0c, 0x0d, 0x10, 0x1f, 0x20, 0xf3, 0xf7, 0xfb, 0xff]

META = dict(
    text="C36 Pairing method selection matches the IO capability mapping. For every local input/output capability "
         "configuration and every remote IO capability, OOB flag and authentication requirement, the chosen legacy and "
         "LESC pairing methods and the advertised local IO capability agree with the Core specification's mapping table "
         "(with OOB preferred as specified).",
    level_note="finite domain decided by vm_compute and lifted (bounds in the theorems); full statement refuted "
               "(MITM flag ignored; combined manager selects LESC OOB without advertising OOB data), C36_partial for the rest; "
               "tie exhaustive over the whole domain on every run",
    design_ref="DESIGN.md 6 C36, 4.4; docs/C36.md",
    technique="complete case analysis (forallb = true by vm_compute, forallb_forall), induction over traces with a state "
              "invariant; exhaustive translation validation of the selection code against the extracted model")


def req(io, oob, auth, loc):
    return "req %02x %02x %02x %d" % (io, oob, auth, loc)


class C36(Standard):
    component = "SMSelect"
    harness = "smselect_harness.cpp"
    trusted_base = [
        "model of the selection code in coq/SMSelect/SMSelectModel.v (hand written, tied exhaustively by this run)",
        "transcription of Core Vol 3 Part H Tables 2.5 / 2.6 / 2.7 / 2.8 and of the reserved value ranges in coq/SMSelect/SMSelectSpec.v",
        "gen/consts/smselect.py (enum values read from the sources, pinned in Properties_C36.v)",
        "sweep expansion and run-length coding in harness/smselect_harness.cpp and ocaml/smselect_driver.ml"]
    assumptions = [
        "the peripheral is the responder; one operation = one Pairing Request on a fresh connection in state idle with "
        "key size 16 and key distribution bytes 0 (these bytes take no part in the selection; their checks belong to C32)",
        "the oracle is applied to the fields of the request and of the response actually sent (what both devices see); "
        "local OOB data is what the user's sm_oob_authentication_data() callback answers",
        "LESC-only / combined manager with pairing_keyboard<>: l2cap_input() does not compile on this tree "
        "(pairing_keyboard has no sm_pairing_request_yes_no); the harness calls the pairing request handler directly there",
        "configurations without oob_authentication_callback<> behave like 'no local OOB data' and are not instantiated separately; "
        "enable_bonding / keypress options only change AuthReq bits that take no part in the selection"]

    # fixed partition of the 36 configurations into 9 translation units (compiled in parallel)
    def prepare(self, ctx, cases):
        groups = {}
        for c in cases:
            ok = len(c.cfg) == 4 and c.cfg[0] in VARIANTS and c.cfg[1] in INPUTS
            groups.setdefault((c.cfg[0], c.cfg[1]) if ok else (VARIANTS[0], INPUTS[0]), []).append(c)
        res = []
        for (v, i), cs in sorted(groups.items()):
            key = "smselect_%s_%s" % (v, i)
            d = os.path.join(ctx.bdir, key + ".d")
            os.makedirs(d, exist_ok=True)
            text = "".join("CFG(%s,%s,%s,%s)\n" % (v, i, o, m) for o in OUTPUTS for m in MITMS)
            p = os.path.join(d, "smselect_configs.inc")
            if not os.path.exists(p) or open(p).read() != text:
                with open(p, "w") as f:
                    f.write(text)
            res.append((key, ["-I" + d], cs))
        return res

    def generate(self, ctx):
        rng = ctx.rng
        cases = []
        for cfg in CFGS:
            # the whole domain io 0..255 x oob {0,1} x loc x AuthReq 0..255
            for io, oob, loc, m, s in itertools.product(IO_CLASSES, "01", "01", "01", "01"):
                cases.append(Case("sweep", cfg, ["sweep %s %s %s %s %s" % (io, oob, loc, m, s)]))
            # reserved OOB flag values 02..ff: all of them for every valid IO capability (thorough), a slice in the quick tier
            for io, loc, m, s in itertools.product(IO_CLASSES[:5] if ctx.thorough else ["0", "2"], "01", "01", "01"):
                if ctx.thorough or (loc, m) == ("1", "0"):
                    cases.append(Case("sweep_oob_rfu", cfg, ["sweep %s hi %s %s %s" % (io, loc, m, s)]))
            # boundary cells as single requests (these are the shapes witnesses and replays have)
            for io, oob in ((4, 1), (5, 0), (4, 2), (255, 255), (0, 0x80), (3, 0xfe)):
                cases.append(Case("boundary", cfg, [req(io, oob, rng.choice(BOUNDARY_AUTH), rng.randrange(2))]))
            for _ in range(6 if not ctx.thorough else 60):
                r = rng.random()
                io = rng.randrange(5) if r < 0.8 else rng.choice([5, 6, 0x7f, 0x80, 0xff, rng.randrange(256)])
                oob = rng.randrange(2) if r < 0.9 else rng.choice([2, 3, 0x81, 0xff, rng.randrange(256)])
                cases.append(Case("rnd", cfg, [req(io, oob, rng.randrange(256), rng.randrange(2))]))
            if ctx.thorough:
                # both fields reserved at once: 251 x 254 x 64 cells per operation
                cases.append(Case("sweep_both_rfu", cfg, ["sweep hi hi %d %d %d" % (rng.randrange(2), rng.randrange(2), rng.randrange(2))]))
        return cases

    def search_extra(self, ctx):
        rng = ctx.rng
        return [Case("s", cfg, [req(rng.randrange(6), rng.randrange(3), rng.randrange(256), rng.randrange(2))])
                for cfg in CFGS for _ in range(40)]

    def nontrivial(self, case, outputs):
        # past the validity check: a method was selected
        return any("L." in o or "S." in o for o in outputs)


def run(ctx):
    rc = standard_check(ctx, C36())
    # the tie is exhaustive over the declared domain (the runner's generic evidence says exhaustive=false)
    p = os.path.join(VERIF, "evidence", ctx.pid + ".json")
    try:
        ev = json.load(open(p))
        cov = ev.get("coverage", {})
        if not ctx.replay and not cov.get("harness_groups_failed_to_compile"):
            cov["exhaustive"] = True
            cov["exhaustive_domain"] = ("36 configurations (3 managers x 3 input options x 2 output options x MITM option) x "
                                        "request IO capability 0..255 x OOB flag {0,1} x local OOB data {0,1} x AuthReq 0..255 "
                                        "= 9 437 184 cells, each evaluated on the implementation and on the model and judged by the monitor; "
                                        "reserved OOB flag values 2..255 additionally (quick: a slice, thorough: all for IO 0..4)")
            cov["exhaustive_cells"] = 36 * 256 * 2 * 2 * 256
            ev["coverage"] = cov
            with open(p, "w") as f:
                json.dump(ev, f, indent=1, sort_keys=True)
                f.write("\n")
    except Exception:
        pass
    return rc
