"""C29 Connection lifecycle is reported completely and in order (link_layer.hpp: the calls of connection_requested /
connection_established / connection_attempt_timeout / connection_changed / connection_closed and handle_connection_events;
connection_callbacks.hpp: the ring of max_events entries whose try_push result is ignored)"""
import itertools
from vlib.core import Case, standard_check, compile_harness
from props.ll_common import LLCheck, connected, connect_ind, ctrl, rnd_hex, session, le

META = dict(
    text="Connection lifecycle is reported completely and in order.",
    level_note="Coq model of link_layer<> with connection_callbacks<> (coq/LL/LLModel.v: push_event = try_push into the 4 entry ring with the result "
               "ignored, flush_events = handle_connection_events at the end of adv_received / timeout / end_event), tied to the real link_layer<> on a "
               "scripted radio that can deliver several PDUs per connection event. The full statement (the lifecycle monitor accepts every model "
               "trace) is REFUTED by three witnesses that are reproduced on the real code: five callback producing PDUs in one connection event, the "
               "same five PDUs one per event behind a pending LL_CHANNEL_MAP_IND (both lose ll_connection_closed: known finding "
               "C29-callback-ring-overflow), and disconnect() before the first connection event (closed without established: known finding "
               "C29-closed-without-established). Proved for event histories of any length (invariant, induction over the history): in every history "
               "in which each operation delivers fewer than max_events callbacks and disconnect() is not called between requested and established, "
               "the monitor accepts (order, exactly once, nothing unrequested, requested / established / closed reported in the operation in which "
               "the link starts / has its first event / ends, and closed carries a reason that is a cause of the end of THIS connection as far as the "
               "trace shows it - clause closed_reason: 0x08 resp. the argument of disconnect() / 0x16 once it was called, 0x22 if a procedure response "
               "timer may run, in a connection event also 0x28 after an instant based PDU and the error code of a delivered LL_TERMINATE_IND; all of it "
               "reset when a connection starts, so a reason left over from an earlier connection is rejected). Not monitored: completeness of `changed` callbacks (C21 / C28 own the events that cause them).",
    design_ref="DESIGN.md section 6 C29, docs/C29.md, docs/LL_MODEL.md, docs/C30.md (the ring itself)",
    technique="Coq state-machine model + invariant proof over unbounded histories + refutation witnesses by vm_compute; executable lifecycle monitor on "
              "the implementation's traces; bursts of 0..7 callback producing PDUs in one connection event for every kind of callback and every way a "
              "link ends, on the real link layer")

TERMINATE = "3:0213"
# callback producing control PDUs
CB_PDUS = {
    "u": lambda i: "3:07%02x" % (0x20 + i),                 # LL_UNKNOWN_RSP      -> cb:unknown
    "r": lambda i: "3:0d%02x" % (0x1a + i),                 # LL_REJECT_IND       -> cb:rejected
    "x": lambda i: "3:1114%02x" % (0x1a + i),               # LL_REJECT_EXT_IND   -> cb:rejected
    "v": lambda i: "3:0c0969020000",                        # LL_VERSION_IND      -> cb:version (the first one)
    "f": lambda i: "3:08ff00000000000000",                  # LL_FEATURE_REQ      -> cb:features
    "p": lambda i: "3:180000%s" % le(i, 2),                 # LL_PHY_UPDATE_IND( no change ) -> cb:phy (2M radios)
    "n": lambda i: "3:12",                                  # LL_PING_REQ: no callback
}
ENC_REQ = "3:03" + "8877665544332211" + "3412" + "a0a1a2a3a4a5a6a7" + "b0b1b2b3"


def without_encryption_pdus(ops):
    """random sessions of C29 must not depend on the repair of C28 (fix/C28-start-enc-rsp-state changes what unsolicited
    encryption PDUs do): drop LL_ENC_REQ / LL_START_ENC_RSP / LL_PAUSE_ENC_REQ / LL_PAUSE_ENC_RSP from them; the `changed`
    callbacks of a proper encryption procedure are covered by the hand made cases"""
    out = []
    for o in ops:
        w = o.split()
        if w and w[0] == "ev":
            w = w[:2] + [p for p in w[2:] if not (p.startswith("3:03") or p.startswith("3:06") or p.startswith("3:0a") or p.startswith("3:0b"))]
            o = " ".join(w)
        out.append(o)
    return out


def burst(word):
    return " ".join(CB_PDUS[ch](i) for i, ch in enumerate(word))


ENDINGS = {
    "terminate": lambda: ["ev 0 " + TERMINATE],
    "supervision": lambda: ["timeout"] * 30,
    "local": lambda: ["disconnect", "ev 0", "ev 0", "ev 0"],
    "local_reason": lambda: ["disconnect 3b", "ev 0", "ev 0", "ev 0"],
    "procedure": lambda: ["cpr 6 24 0 72"] + ["ev 0"] * 3 + ["timeout"] * 4 + ["ev 0"] * 14,
    "instant_passed": lambda: ["ev 0 3:01ffffffff1f00f0", "ev 0"],      # channel map, instant 32768 + 28672 events away: in the past
    "none": lambda: [],
}


class C29(LLCheck):
    pid = "C29"
    component = "LLX"
    extra_coq_targets = ("LL/LLSpecC28.vo", "LL/LLSpecC29.vo")     # both monitors are extracted into btmodel_llx
    variants_quick = ["base", "enc"]
    variants_thorough = ["base", "enc", "nophy", "nocb"]
    assumptions = LLCheck.assumptions + [
        "adv_received / timeout / end_event and handle_connection_events run in one context (they do: the link layer calls "
        "handle_connection_events at the end of each of them); the ring's behaviour under real concurrency is C30's",
        "one connection at a time (the link layer has one connection)",
    ]

    GROUP_OPS = 80000      # operations per group of cases (8 harness processes per group; the runner gives a process 120 s)

    def prepare(self, ctx, cases):
        """LLCheck's groups (one binary per variant), cut into pieces that share the binary through the runner's cache"""
        out = []
        cache = ctx.__dict__.setdefault("hcache", {})
        for key, extra, cs in LLCheck.prepare(self, ctx, cases):
            pieces, cur, n = [], [], 0
            for c in cs:
                cur.append(c)
                n += len(c.ops) + 1
                if n >= self.GROUP_OPS:
                    pieces.append(cur)
                    cur, n = [], 0
            if cur or not pieces:
                pieces.append(cur)
            if len(pieces) == 1:
                out.append((key, extra, pieces[0]))
                continue
            if key not in cache:
                cache[key] = compile_harness(ctx, self.harness, key, extra=extra)
            for i, g in enumerate(pieces):
                cache["%s#%d" % (key, i)] = cache[key]
                out.append(("%s#%d" % (key, i), extra, g))
        return out

    def generate(self, ctx):
        rng, mk = ctx.rng, self.mk
        cases = []
        variants = self.variants(ctx)
        for v in variants:
            kinds = "urxvfn" + ("p" if v in ("base", "enc", "nocb") else "")
            # 1. every way a link ends, after 0..3 quiet events, twice in a row (the second connection must be reported like the first)
            for name, end in ENDINGS.items():
                if name == "procedure" and not (ctx.thorough or v == "base"):
                    continue
                for quiet in (0, 1, 3):
                    one = [connect_ind(interval=(3200 if name == "procedure" else 24), timeout=(3200 if name == "procedure" else 72))] \
                        + ["ev 0"] * (1 + quiet) + end()
                    cases.append(mk("end_" + name, v, ["run"] + one + one + ["ev 0"]))
            # 1b. two (three) connections in ONE case with DIFFERENT causes of the end: the reason of closed must be the cause of
            #     its own connection, never a left-over of an earlier one (clause closed_reason)
            def conn(name, quiet=1):
                slow = name == "procedure"
                return [connect_ind(interval=(3200 if slow else 24), timeout=(3200 if slow else 72))] + ["ev 0"] * (1 + quiet) + ENDINGS[name]()
            causes = [n for n in ENDINGS if n != "none" and (n != "procedure" or ctx.thorough or v == "base")]
            for a in causes:
                for b in causes:
                    if a != b:
                        cases.append(mk("two_%s_%s" % (a, b), v, ["run"] + conn(a) + conn(b) + ["ev 0"]))
            for k in range(6 if not ctx.thorough else 40):
                seq = [rng.choice(causes) for _ in range(3)]
                cases.append(mk("three_" + "_".join(seq), v, ["run"] + conn(seq[0], 0) + conn(seq[1], 2) + conn(seq[2], 1) + ["ev 0"]))
            # 2. connection attempts: no connection event at all / the first one late
            for missed in (0, 1, 4, 5, 6, 7):
                cases.append(mk("attempt", v, ["run", connect_ind()] + ["timeout"] * missed + ["ev 0", "ev 0", "ev 0 " + TERMINATE, connect_ind(), "ev 0"]))
            cases.append(mk("attempt_twice", v, ["run"] + ([connect_ind()] + ["timeout"] * 6) * 2 + [connect_ind(), "ev 0", "ev 0 " + TERMINATE]))
            # 3. bursts: n callback producing PDUs in one connection event, alone / followed by LL_TERMINATE_IND / in the first event
            maxn = 7 if ctx.thorough else 6
            for n in range(0, maxn + 1):
                words = set("".join(w) for w in itertools.product(kinds, repeat=n)) if n <= 2 else \
                    set(ch * n for ch in kinds) | set("".join(rng.choice(kinds) for _ in range(n)) for _ in range(12 if not ctx.thorough else 60))
                for w in sorted(words):
                    b = burst(w)
                    cases.append(mk("burst_%s" % w, v, connected() + [("ev 0 " + b).strip(), "ev 0", "ev 0 " + TERMINATE, connect_ind(), "ev 0"]))
                    cases.append(mk("burst_term_%s" % w, v, connected() + [("ev 0 " + b + " " + TERMINATE).strip(), connect_ind(), "ev 0", "ev 0 " + TERMINATE]))
                    cases.append(mk("burst_first_%s" % w, v, ["run", connect_ind(), ("ev 0 " + b + " " + TERMINATE).strip(), connect_ind(), "ev 0"]))
            # 4. one PDU per event, but processing is held up: by a pending instant, by a missing transmit buffer
            for n in range(1, 7):
                pdus = [CB_PDUS["u"](i) for i in range(n)]
                cases.append(mk("held_instant_%d" % n, v, connected() + ["ev 0 3:01ffffffff1f%s" % le(n + 4, 2)] + ["ev 0 " + p for p in pdus]
                                + ["ev 0 " + TERMINATE] + ["ev 0"] * 4 + [connect_ind(), "ev 0"]))
                cases.append(mk("held_txavail_%d" % n, v, connected() + ["txavail 0"] + ["ev 0 " + p for p in pdus] + ["ev 0 " + TERMINATE, "txavail 1", "ev 0", "ev 0",
                                                                                                         connect_ind(), "ev 0"]))
            # 5. connection updates (changed) with an instant safely in the future, then the ways to end
            for name in ("terminate", "supervision", "local"):
                upd = "3:00" + le(2, 1) + le(1, 2) + le(40, 2) + le(0, 2) + le(100, 2) + le(8, 2)
                cases.append(mk("update_" + name, v, connected() + ["ev 0 " + upd] + ["ev 0"] * 9 + ENDINGS[name]() + [connect_ind(), "ev 0"]))
            # 6. disconnect() before the first connection event
            cases.append(mk("early_disconnect", v, ["run", connect_ind(), "disconnect", "ev 0", "ev 0", "ev 0", connect_ind(), "ev 0"]))
            cases.append(mk("early_disconnect_timeout", v, ["run", connect_ind(), "disconnect"] + ["timeout"] * 8 + [connect_ind(), "ev 0"]))
            # 7. encryption changes (changed callbacks) in bursts
            if v == "enc":
                for n in range(0, 5):
                    cases.append(mk("enc_burst_%d" % n, v, connected() + ["key 1", "ev 0 " + ENC_REQ, "ev 0", ("ev 0 " + burst("u" * n) + " 3:06 3:0a " + TERMINATE).strip(),
                                                                              connect_ind(), "ev 0"]))
            # 8. random sessions with reconnects
            per = 60 if not ctx.thorough else 800
            for k in range(per):
                ops = ["run"]
                for _ in range(rng.choice([1, 2, 3])):
                    s = session(rng, v, rng.choice([8, 20]), instants=False, api=(k % 2 == 0), blocking=(k % 3 == 0))
                    ops += without_encryption_pdus([o for o in s[1:] if not o.startswith("cancel")])
                    ops += rng.choice([["ev 0 " + TERMINATE], ["timeout"] * 30, ["disconnect", "ev 0", "ev 0", "ev 0"], []])
                cases.append(mk("rnd", v, ops))
        return cases

    def search_extra(self, ctx):
        rng = ctx.rng
        out = []
        for v in self.variants(ctx):
            for _ in range(150):
                s = session(rng, v, 30, instants=False)
                out.append(self.mk("s", v, without_encryption_pdus([o for o in s if not o.startswith("cancel")]) + ["ev 0 " + TERMINATE, connect_ind(), "ev 0"]))
        return out

    def nontrivial(self, case, outputs):
        return any("cb:closed" in o or "cb:attempt_timeout" in o for o in outputs)


def run(ctx):
    return standard_check(ctx, C29())
