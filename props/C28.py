"""C28 A link is encrypted only with a key supplied for it (link_layer.hpp: link_layer_security_impl::handle_encryption_pdus,
transmit_pending_security_pdus, reset_encryption; is_encrypted of the connection data; the GATT server's
requires_encryption check)"""
import itertools
from vlib.core import Case, standard_check, compile_harness
from props.ll_common import LLCheck, connected, connect_ind, ctrl, rnd_hex, session, any_pdu, le

META = dict(
    text="A link is encrypted only with a key supplied for it.",
    level_note="Coq model of link_layer<> (coq/LL/LLModel.v, encryption part = the code after the repair fix/C28-start-enc-rsp-state) tied to the "
               "real link_layer<> with a toy key store, an encrypting scripted radio and a GATT server with a requires_encryption characteristic. "
               "Proved for operation / control PDU / ATT histories of any length (two invariants, induction over the history): (1) the complete "
               "specification monitor accepts every model trace (C28_monitor_accepts_all): is_encrypted / transmit encryption only for a pending "
               "LL_ENC_REQ of this connection whose key the key store supplied, after LL_START_ENC_REQ was committed for it and with no pause, "
               "disconnect, end of link or new connection since; LL_START_ENC_REQ only for a known key; an unknown key is answered with a reject on "
               "air in the next connection event; unencrypted after disconnect() and at the end of the link; LL_PAUSE_ENC_RSP on air only on an "
               "unencrypted link; the protected value on air only if the link was encrypted in the connection event that queued it; "
               "(2) is_encrypted implies the specification's 'encrypted' (C28_encrypted_only_with_key). Hypothesis of both: no failing assert in the "
               "history (crash freedom is C22's). Before the repair the statement was false (witnesses corpus/C28; bin/check C28 on the unrepaired "
               "tree exits 1 with them). Outside: cryptography itself (session key, MIC: the radio's encryption is a switch; a real radio drops plain "
               "PDUs while reception is encrypted), which keys a security manager offers (C33), the GATT server's own check (C05; one read probe here).",
    design_ref="DESIGN.md section 6 C28, docs/C28.md, docs/LL_MODEL.md",
    technique="Coq state-machine model + invariant proof over unbounded histories; executable spec monitor on the implementation's traces; "
              "exhaustive sequences over {LL_ENC_REQ known / unknown key, LL_START_ENC_RSP, LL_PAUSE_ENC_REQ, LL_PAUSE_ENC_RSP, disconnect + "
              "reconnect, ATT read of the protected characteristic} (quick: depth 4, thorough: depth 6) on the real link layer")

READ = "2:030004000a0300"          # L2CAP( ATT ) Read Request, handle 3: the requires_encryption characteristic


def enc_req(rng=None, ediv=0x1234, rand=0x1122334455667788):
    skd = "a0a1a2a3a4a5a6a7" if rng is None else rnd_hex(rng, 8)
    iv = "b0b1b2b3" if rng is None else rnd_hex(rng, 4)
    return ctrl(0x03, le(rand, 8) + le(ediv, 2) + skd + iv)


RECONNECT = ["disconnect", "ev 0", "ev 0", "ev 0", connect_ind(), "ev 0"]
# symbol -> operations (every PDU in a connection event of its own)
ALPHABET = {
    "K": ["key 1", "ev 0 " + enc_req()],        # LL_ENC_REQ, key known
    "U": ["key 0", "ev 0 " + enc_req()],        # LL_ENC_REQ, key unknown
    "S": ["ev 0 3:06"],                          # LL_START_ENC_RSP
    "P": ["ev 0 3:0a"],                          # LL_PAUSE_ENC_REQ
    "Q": ["ev 0 3:0b"],                          # LL_PAUSE_ENC_RSP
    "D": RECONNECT,                              # local disconnect, link closes, new connection
    "R": ["ev 0 " + READ],                       # ATT read of the protected characteristic
}
EXTRA = {
    "d": ["disconnect"],                         # local disconnect, the sequence goes on while the link winds down
    "T": ["ev 0 3:0213", connect_ind(), "ev 0"],  # remote termination + new connection
    "L": ["timeout"] * 3,                        # missed events
    "E": ["ev 0"],
}
PDU = {"K": enc_req(), "U": enc_req(), "S": "3:06", "P": "3:0a", "Q": "3:0b", "R": READ}


def word_ops(word, table):
    ops = connected()
    for ch in word:
        ops += table[ch]
    return ops + ["ev 0", "ev 0"]


def burst_ops(word, key):
    """the PDUs of `word` in ONE connection event"""
    return connected() + ["key %d" % key, "ev 0 " + " ".join(PDU[ch] for ch in word), "ev 0", "ev 0 " + READ, "ev 0", "ev 0"]


class C28(LLCheck):
    pid = "C28"
    component = "LLX"
    extra_coq_targets = ("LL/LLSpecC28.vo", "LL/LLSpecC29.vo")     # both monitors are extracted into btmodel_llx
    variants_quick = ["enc"]
    variants_thorough = ["enc", "base"]
    assumptions = LLCheck.assumptions + [
        "the key store is the scripted answer of the toy security manager (operation `key`); which keys a security manager offers is C33's",
        "the radio's encryption is a switch (items enc:r+/r-/t+/t-); a real radio drops plain PDUs while reception is encrypted",
        "the GATT server is an oracle for one probe: the ATT Read Request of the requires_encryption characteristic "
        "(LLModel.l2cap_reply_enc); the server's own check is C05's",
    ]

    GROUP_OPS = 80000      # operations per group of cases (8 harness processes per group; the runner gives a process 120 s)

    def prepare(self, ctx, cases):
        """LLCheck's groups (one binary per variant), cut into pieces that share the binary through the runner's cache"""
        out = []
        cache = ctx.__dict__.setdefault("hcache", {})
        for key, extra, cs in LLCheck.prepare(self, ctx, cases):
            pieces, cur, n = [], [], 0
            for c in cs:
                cur.append(c)
                n += len(c.ops) + 1
                if n >= self.GROUP_OPS:
                    pieces.append(cur)
                    cur, n = [], 0
            if cur or not pieces:
                pieces.append(cur)
            if len(pieces) == 1:
                out.append((key, extra, pieces[0]))
                continue
            if key not in cache:
                cache[key] = compile_harness(ctx, self.harness, key, extra=extra)
            for i, g in enumerate(pieces):
                cache["%s#%d" % (key, i)] = cache[key]
                out.append(("%s#%d" % (key, i), extra, g))
        return out

    def generate(self, ctx):
        rng, mk = ctx.rng, self.mk
        cases = []
        v = "enc"
        depth = 6 if ctx.thorough else 4
        # 1. exhaustive words over the alphabet, one PDU per connection event
        for n in range(1, depth + 1):
            for w in itertools.product("KUSPQDR", repeat=n):
                cases.append(mk("word_" + "".join(w), v, word_ops(w, ALPHABET)))
        # 2. words with the extra symbols (plain disconnect, remote termination, missed events)
        full = dict(ALPHABET); full.update(EXTRA)
        for n in range(1, (4 if ctx.thorough else 3) + 1):
            for w in itertools.product("KUSPRdTLE", repeat=n):
                if set(w) & set("dTLE"):
                    cases.append(mk("wordx_" + "".join(w), v, word_ops(w, full)))
        # 3. bursts: several PDUs in one connection event, then a read
        for n in range(2, (5 if ctx.thorough else 4) + 1):
            for w in itertools.product("KSPQR", repeat=n):
                for key in (0, 1):
                    cases.append(mk("burst_" + "".join(w) + str(key), v, burst_ops(w, key)))
        # 4. an established encryption, then bursts
        for n in range(1, 4):
            for w in itertools.product("KSPQR", repeat=n):
                cases.append(mk("encburst_" + "".join(w), v, connected() + ["key 1", "ev 0 " + enc_req(), "ev 0", "ev 0 3:06", "ev 0",
                                                                               "ev 0 " + " ".join(PDU[ch] for ch in w), "ev 0", "ev 0 " + READ, "ev 0", "ev 0"]))
        # 5. blocked transmit buffer around the procedure
        for w in itertools.product("KUSPR", repeat=3):
            for pos in range(3):
                ops = connected()
                for i, ch in enumerate(w):
                    ops += (["txavail 0"] + ALPHABET[ch] + ["ev 0", "txavail 1"]) if i == pos else ALPHABET[ch]
                cases.append(mk("blocked_" + "".join(w) + str(pos), v, ops + ["ev 0", "ev 0"]))
        # 6. random sessions: all kinds of control PDUs, API calls, with the encryption PDUs and reads mixed in
        per = 150 if not ctx.thorough else 3000
        for k in range(per):
            cases.append(mk("rnd", v, self.random_session(rng, v)))
        if ctx.thorough:
            for k in range(300):
                # no encryption support: the encryption PDUs are unknown PDUs; the read probe is only specified for the `enc` server
                cases.append(mk("rnd", "base", [o.replace(" " + READ, "") for o in self.random_session(rng, "base")]))
        return cases

    def random_session(self, rng, v):
        # no instant based procedures: their handling is C21's (and changed by its repair, which this check must not depend on)
        ops = session(rng, v, rng.choice([10, 25, 40]), instants=False, api=(rng.random() < 0.5), blocking=(rng.random() < 0.5))
        out = []
        for o in ops:
            out.append(o)
            r = rng.random()
            if r < 0.45:
                ch = rng.choice("KKUSSPQRRR")
                if rng.random() < 0.3 and o.startswith("ev ") and ch in PDU and len(o.split()) < 6:
                    out[-1] = o + " " + (enc_req(rng) if ch in "KU" else PDU[ch])
                else:
                    out += [x.replace(enc_req(), enc_req(rng)) for x in ALPHABET[ch]]
            elif r < 0.48:
                out += RECONNECT
        return out

    def search_extra(self, ctx):
        rng = ctx.rng
        return [self.mk("s", "enc", self.random_session(rng, "enc")) for _ in range(400)]

    def nontrivial(self, case, outputs):
        return any("findkey:" in o or "enc:" in o or "tx:2:" in o for o in outputs)


def run(ctx):
    return standard_check(ctx, C28())
