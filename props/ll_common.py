"""Shared description of the checks over component LL (link_layer.hpp on the scripted radio): C22, C27 and the
properties later built on the same model (C21, C28, C29, ...).

CASE <name> <property> <variant>
   property  selects the monitor inside btmodel_ll (ocaml/ll_driver.ml, table `monitors`)
   variant   a link_layer<> instantiation of harness/ll_harness.cpp (ll_<variant>) = a cfg record of the model
             (ocaml/ll_driver.ml, cfg_of): base | nophy | desired | async | enc | nocb
One harness binary per variant (a link_layer<> TU takes ~30 s with the sanitizers), compiled in parallel.
"""
import hashlib, os, re
from vlib.core import Standard, Case

VARIANTS = ["base", "nophy", "desired", "async", "enc", "nocb"]
OWN = "471108150fc0"    # AdvA, air order (static_address< 0xc0, 0x0f, 0x15, 0x08, 0x11, 0x47 >)
INITA = "3c1c6292f048"


def le(v, n):
    return "".join("%02x" % ((v >> (8 * i)) & 0xff) for i in range(n))


def connect_ind(winsize=3, winoffset=11, interval=24, latency=0, timeout=72, chmap="ffffffff1f", hop=10, sca=5,
                aa=0xaf9ab35a, crc=0xf68108, adva=OWN, hdr0="c5", extra=""):
    """the `adv` operation delivering a CONNECT_IND"""
    body = INITA + adva + le(aa, 4) + le(crc, 3) + le(winsize, 1) + le(winoffset, 2) + le(interval, 2) + le(latency, 2) \
        + le(timeout, 2) + chmap + le((hop & 31) | ((sca & 7) << 5), 1) + extra
    return "adv %s %s" % (hdr0, body)


def connected(rng=None, **kw):
    """operations that bring a fresh link layer into state `connected`"""
    ops = ["run"]
    if rng is not None:
        ops += ["adv_timeout"] * rng.choice([0, 0, 1, 2, 3])
    return ops + [connect_ind(**kw), "ev 0"]


def ctrl(opcode, payload=""):
    return "3:%02x%s" % (opcode, payload)


def rnd_hex(rng, n):
    return "".join("%02x" % rng.randrange(256) for _ in range(n))


# control PDU sizes accepted by the code (opcode -> size); other sizes / opcodes are "unknown"
KNOWN = {0x00: 12, 0x01: 8, 0x02: 2, 0x03: 23, 0x06: 1, 0x07: 2, 0x08: 9, 0x0a: 1, 0x0b: 1, 0x0c: 6, 0x0d: 2, 0x0f: 24,
         0x11: 3, 0x12: 1, 0x16: 3, 0x18: 5}
ALL_OPCODES = list(range(0x00, 0x28)) + [0x7f, 0x80, 0xfe, 0xff]


def cpr_payload(rng, valid=True):
    if valid:
        mi = rng.choice([6, 10, 24, 40, 100, 3200])
        ma = rng.choice([x for x in [mi, mi + 1, 40, 800, 3200] if x >= mi])
        la = rng.choice([0, 1, 3, 5, 499])
        to = rng.choice([10, 72, 100, 200, 300, 3200])
    else:
        mi, ma, la, to = rng.choice([(5, 4, 0, 72), (4, 10, 0, 72), (5, 3201, 0, 72), (6, 6, 500, 72), (0, 0, 0, 0), (3200, 3200, 499, 3200)])
    return le(mi, 2) + le(ma, 2) + le(la, 2) + le(to, 2) + rnd_hex(rng, 15)


class LLCheck(Standard):
    component = "LL"
    harness = "ll_harness.cpp"
    pid = "C27"
    variants_quick = ["base", "nophy"]
    variants_thorough = ["base", "nophy", "desired", "async"]
    trusted_base = [
        "model coq/LL/LLModel.v (hand written transcription of link_layer.hpp and the headers it is assembled from; tied by this run)",
        "harness/scripted_radio.hpp: the radio's side of a connection event is a well behaved central over the REAL "
        "ll_data_pdu_buffer (every PDU acknowledged, event kept open while either side has more data)",
        "coq/ChanMap/ChanMapModel.v (channel_map.cpp, property C20) is reused for channels_.reset / data_channel",
        "gen/consts/ll.py: constants and the (opcode, size) acceptance comparisons read from the current sources (coq/gen/GenLL.v)",
    ]
    assumptions = [
        "buffers: ll_data_pdu_buffer is abstracted to two unbounded FIFOs; the harness uses buffer_sizes< 4000, 4000 > and the generators "
        "keep the number of pending PDUs per connection below what fits (an `rxfull` item or a diverging trace would show otherwise); "
        "`txavail 0` scripts a failing allocate_transmit_buffer()",
        "L2CAP / GATT server are an oracle (LLModel.l2cap_reply); only the ATT Exchange MTU request is used as a probe",
        "advertising is the minimal single-type advertiser (timing and data: C24, C14); white list: none",
        "real time is the radio's: the link layer only sees the sequence of callbacks; time is what it hands to schedule_connection_event",
    ]

    def variants(self, ctx):
        return self.variants_thorough if ctx.thorough else self.variants_quick

    def prepare(self, ctx, cases):
        groups = []
        by = {}
        for c in cases:
            v = c.cfg[1] if len(c.cfg) > 1 and c.cfg[1] in VARIANTS else "base"
            by.setdefault(v, []).append(c)
        for v, cs in sorted(by.items()):
            d = os.path.join(ctx.bdir, "ll_%s.d" % v)
            os.makedirs(d, exist_ok=True)
            inc = os.path.join(d, "ll_configs.inc")
            text = "LLCFG( %s )\n" % v
            if not os.path.exists(inc) or open(inc).read() != text:
                open(inc, "w").write(text)
            groups.append(("ll_%s" % v, ["-I" + d], cs))
        return groups

    def mk(self, name, variant, ops):
        return Case(name, [self.pid, variant], ops)


# --------------------------------------------------------------------------- generators shared by the LL properties
def known_pdu(rng, op, evc=0, variant="base"):
    """a well formed control PDU with opcode `op` (structured payload)"""
    if op == 0x00:   # connection update: winsize winoffset interval latency timeout instant
        inst = (evc + rng.choice([6, 7, 8, 2, 3, 10])) & 0xffff
        iv = rng.choice([6, 24, 40, 80])
        return ctrl(op, le(rng.choice([1, 2, 3]), 1) + le(rng.choice([0, 1, 3]), 2) + le(iv, 2) + le(rng.choice([0, 0, 1, 2]), 2) + le(rng.choice([72, 100, 200]), 2) + le(inst, 2))
    if op == 0x01:   # channel map + instant
        return ctrl(op, rng.choice(["ffffffff1f", "0f00000010", "ffff000000", "0100000000", "aaaaaaaa0a"]) + le((evc + rng.choice([6, 7, 2, 9])) & 0xffff, 2))
    if op == 0x02:
        return ctrl(op, le(rng.choice([0x13, 0x16, 0x08, 0x3b]), 1))
    if op == 0x03:
        return ctrl(op, rnd_hex(rng, 22))
    if op == 0x07:
        return ctrl(op, le(rng.choice([0x0f, 0x0c, 0x16, 0x14, 0x08]), 1))
    if op == 0x08:
        return ctrl(op, rng.choice(["ff", "01", "00", "16", "05", "fb"]) + rng.choice(["00", "01", "ff"]) + rnd_hex(rng, 6))
    if op == 0x0c:
        return ctrl(op, rng.choice(["06", "07", "09", "0b", "05"]) + rnd_hex(rng, 4))
    if op == 0x0d:
        return ctrl(op, le(rng.choice([0x1a, 0x06, 0x3b]), 1))
    if op == 0x0f:
        return ctrl(op, cpr_payload(rng, rng.random() < 0.75))
    if op == 0x11:
        return ctrl(op, le(rng.choice([0x0f, 0x0c, 0x16, 0x03]), 1) + le(rng.choice([0x1a, 0x3b, 0x06]), 1))
    if op == 0x16:
        return ctrl(op, le(rng.choice([1, 2, 3]), 1) + le(rng.choice([1, 2, 3]), 1))
    if op == 0x18:
        a, b = rng.choice([(0, 0), (1, 1), (2, 2), (2, 0), (0, 1), (4, 1), (3, 3)])
        return ctrl(op, le(a, 1) + le(b, 1) + le((evc + rng.choice([6, 7, 1, 0, 3])) & 0xffff, 2))
    return ctrl(op, rnd_hex(rng, KNOWN.get(op, 1) - 1))


def any_pdu(rng, evc=0, variant="base", instants=True):
    r = rng.random()
    ops = [o for o in KNOWN if instants or o not in (0x00, 0x01, 0x18)]
    if r < 0.55:
        return known_pdu(rng, rng.choice(ops), evc, variant)
    if r < 0.80:     # boundary: right opcode, neighbouring size
        op = rng.choice(ops)
        n = max(1, min(27, KNOWN[op] + rng.choice([-1, 1, 1, 2])))
        return ctrl(op, rnd_hex(rng, n - 1))
    if r < 0.93:
        op = rng.choice(ALL_OPCODES)
        if not instants and op in (0x00, 0x01, 0x18):
            op = 0x12
        return ctrl(op, rnd_hex(rng, rng.choice([0, 0, 1, 2, 5, 8, 11, 22, 23, 26])))
    if r < 0.97:
        return "2:03000400021700"                     # ATT Exchange MTU request
    return rng.choice(["2:0300040002", "2:01", "3:", "1:", "0:0102"])   # malformed L2CAP / empty PDUs / LLID 0


def session(rng, variant, n, instants=True, api=True, blocking=True, conn=None):
    """a random session: connect, then n operations around connection events"""
    kw = conn if conn is not None else dict(
        interval=rng.choice([6, 24, 24, 80, 800, 3200]), latency=rng.choice([0, 0, 0, 1, 3]),
        sca=rng.randrange(8), hop=rng.choice([5, 10, 16]), winsize=rng.choice([1, 2, 3]), winoffset=rng.choice([0, 1, 5]))
    if "timeout" not in kw:
        need = (kw.get("latency", 0) + 1) * 2 * kw.get("interval", 24) * 1250 // 10000 + 1      # timeout > (1 + latency) * interval * 2
        if need > 3200:
            kw["latency"] = 0
            need = 2 * kw.get("interval", 24) * 1250 // 10000 + 1
        kw["timeout"] = min(3200, max(need, rng.choice([10, 72, 300, 3200])))
    ops = connected(rng, **kw)
    evc = 1
    for _ in range(n):
        r = rng.random()
        if r < 0.55:
            k = rng.choice([0, 1, 1, 1, 2, 3])
            pdus = [any_pdu(rng, evc, variant, instants) for _ in range(k)]
            ops.append(("ev %d %s" % (rng.choice([0, 0, 0, 2, 16, 32, 63]), " ".join(pdus))).strip())
            evc += 1
        elif r < 0.63:
            ops.append("timeout")
            evc += 1
        elif r < 0.78 and api:
            ops.append(rng.choice([
                "cpu %d %d %d %d" % (rng.choice([6, 24]), rng.choice([24, 40]), rng.choice([0, 4]), rng.choice([72, 400])),
                "cpr %d %d %d %d" % (rng.choice([6, 24]), rng.choice([24, 40]), rng.choice([0, 4]), rng.choice([72, 400])),
                "phyreq %d %d" % (rng.choice([1, 2, 3]), rng.choice([1, 2])), "verreq"]))
        elif r < 0.84 and blocking:
            ops += ["txavail 0", ("ev 0 " + " ".join(any_pdu(rng, evc, variant, instants) for _ in range(rng.choice([1, 2])))).strip(), "txavail 1"]
            evc += 1
        elif r < 0.90:
            ops.append("st")
        elif r < 0.93:
            ops.append("disconnect" + rng.choice(["", " 13", " 3b"]))
        elif r < 0.96:
            ops.append("cancel %d %d" % (rng.choice([0, 1]), rng.choice([0, 100, 5000, 40000])))
        elif r < 0.98 and variant == "async":
            ops.append(rng.choice(["cprreply 10 20 0 100", "cprneg 3b"]))
        elif r < 0.98 and variant == "enc":
            ops.append("key %d" % rng.choice([0, 1]))
        else:
            ops += [connect_ind(), "ev 0"]           # answered `pre` while still connected
            evc = 1
    return ops + ["st"]
