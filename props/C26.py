"""C26 White list behaves as a bounded set (link_layer/include/bluetoe/white_list.hpp)"""
from vlib.core import Standard, Case, standard_check
import hashlib, os

META = dict(
    text="White list behaves as a bounded set: for any sequence of add, remove, clear and query operations, both the "
         "software white list and the radio-backed white list behave like a set of at most N device addresses",
    level_note="unbounded Coq proof (any capacity, any addresses, any operation sequence) by refinement of the array + "
               "free_size_ representation to a duplicate-free list; radio-backed variant under the hypothesis that the "
               "radio's functions implement the set (Section variables); tie on white_list<N> selected the way "
               "link_layer<> selects it, N in {1,2,3,8}",
    design_ref="DESIGN.md section 6, C26; docs/C26.md",
    technique="refinement / representation invariant by induction over operation lists; executable monitor = the bounded "
              "set machine (proved: accepts exactly its own traces); differential run against the C++ headers")

# configurations: kind, Size N, hardware entries R of the radio (sw: R < N, hw: R >= N)
QUICK = ["sw 1 0", "sw 2 0", "sw 3 0", "sw 8 0", "sw 3 2", "sw 8 4", "hw 1 1", "hw 2 2", "hw 3 3", "hw 8 8", "hw 2 4"]
THOROUGH = ["sw 4 0", "sw 5 4", "sw 16 0", "hw 4 4", "hw 5 5", "hw 3 8", "hw 16 16"]

# the small address universe: same 48 bits with both type flags, the content of a fresh array slot
# (device_address(): random 00:00:00:00:00:00) and its public twin, addresses differing in the first /
# last byte only, all ones
BASE = [("p", "010203040506"), ("r", "010203040506"), ("r", "000000000000"), ("p", "000000000000"),
        ("p", "020203040506"), ("p", "010203040507"), ("r", "ffffffffffff")]


def capacity(cfg):
    k, n, r = cfg.split()
    return int(n) if k == "sw" else int(r)


def universe(cfg, rng=None):
    u = list(BASE)
    i = 3
    while len(u) < capacity(cfg) + 3:
        u.append(("p" if i % 2 else "r", "%02x0203040506" % i))
        i += 1
    return u


def A(a):
    return "%s %s" % a


def gen_ops(rng, cfg, n):
    u = universe(cfg)
    small = u[:max(3, min(len(u), capacity(cfg) + 2))]
    ops = []
    fillphase = True
    for k in range(n):
        if rng.random() < 0.08:
            fillphase = not fillphase
        pool = small if rng.random() < 0.8 else u
        a = rng.choice(pool)
        if rng.random() < 0.04:   # an address outside the universe
            a = (rng.choice("pr"), "%012x" % rng.getrandbits(48))
        r = rng.random()
        if r < (0.42 if fillphase else 0.15):
            ops.append("add " + A(a))
        elif r < (0.52 if fillphase else 0.45):
            ops.append("rem " + A(a))
        elif r < 0.64:
            ops.append("in " + A(a))
        elif r < 0.72:
            ops.append("free")
        elif r < 0.80:
            ops.append("cin " + A(a))
        elif r < 0.88:
            ops.append("sin " + A(a))
        elif r < 0.92:
            ops.append("cf %d" % rng.randrange(2))
        elif r < 0.96:
            ops.append("sf %d" % rng.randrange(2))
        elif r < 0.975:
            ops.append("cf?")
        elif r < 0.99:
            ops.append("sf?")
        else:
            ops.append("clr")
    return ops


def boundary(cfg):
    """hand-shaped families around every comparison of white_list.hpp"""
    cap = capacity(cfg)
    u = universe(cfg)
    fam = []
    # 1. queries on the empty list (fresh slots hold random 00:..:00), filters off / on
    b = ["free", "cf?", "sf?"]
    for a in u[:4]:
        b += ["in " + A(a), "cin " + A(a), "sin " + A(a), "rem " + A(a)]
    b += ["cf 1", "cf?", "sf?"] + ["cin " + A(a) for a in u[:4]] + ["sin " + A(a) for a in u[:4]]
    b += ["sf 1", "cf 0", "cf?", "sf?"] + ["cin " + A(a) for a in u[:4]] + ["sin " + A(a) for a in u[:4]]
    fam.append(b)
    # 2. fill to capacity and one beyond, idempotent re-add at every level, then remove first / last /
    #    middle (the last element moves into the hole), every membership after every step
    b = []
    allq = ["in " + A(a) for a in u[:cap + 2]]
    for i in range(cap + 1):
        b += ["add " + A(u[i]), "free", "add " + A(u[i]), "free", "add " + A(u[0]), "free"]
    b += allq
    order = [0, cap - 1, cap // 2, 1] + list(range(cap))
    for i in order:
        if i < cap:
            b += ["rem " + A(u[i]), "free"] + allq + ["rem " + A(u[i]), "free"]
    b += ["add " + A(u[cap]), "add " + A(u[cap + 1]), "free"] + allq
    fam.append(b)
    # 3. remove every position from a full list, refill the hole with a new address
    for i in range(min(cap, 4)):
        b = ["add " + A(a) for a in u[:cap]]
        b += ["rem " + A(u[i]), "free", "add " + A(u[cap]), "free", "add " + A(u[i]), "free"] + allq
        fam.append(b)
    # 4. clear: full -> clear -> all out, capacity back, old content of the array must not count
    b = ["add " + A(a) for a in u[:cap]] + ["clr", "free"] + allq + ["add " + A(u[cap % len(u)]), "free"] + allq
    b += ["rem " + A(u[0]), "free"]
    fam.append(b)
    # 5. filters: member / type twin / non member, each filter alone and both, getter after setter
    b = ["add " + A(u[0]), "cf 1", "cf?", "sf?", "cin " + A(u[0]), "cin " + A(u[1]), "cin " + A(u[4]),
         "sin " + A(u[0]), "sin " + A(u[1]), "sf 1", "sf?", "sin " + A(u[0]), "sin " + A(u[1]), "sin " + A(u[4]),
         "cf 0", "cf?", "sf?", "cin " + A(u[1]), "sin " + A(u[1]), "rem " + A(u[0]), "sin " + A(u[0]), "cin " + A(u[0]),
         "cf 1", "cin " + A(u[0]), "add " + A(u[1]), "cin " + A(u[0]), "cin " + A(u[1]), "sin " + A(u[1]), "clr",
         "cin " + A(u[1]), "sin " + A(u[1]), "cf?", "sf?"]
    fam.append(b)
    # 6. addresses differing in one byte / in the type only are different elements
    b = []
    for a in u[:7]:
        b += ["add " + A(a), "free"]
    b += ["in " + A(a) for a in u[:7]] + ["rem " + A(u[5]), "in " + A(u[0]), "in " + A(u[5]), "rem " + A(u[1]),
                                           "in " + A(u[0]), "in " + A(u[1]), "free"]
    fam.append(b)
    return fam


class C26(Standard):
    component = "WhiteList"
    harness = "whitelist_harness.cpp"
    trusted_base = ["model of white_list.hpp in coq/WhiteList/WhiteListModel.v (hand written, tied by this correspondence run)",
                    "device addresses: 6 bytes kept as one number; the drivers map 12 hex digits to it",
                    "radio-backed list: the mock radio in harness/whitelist_harness.cpp stands for 'a radio that implements the set'"]
    assumptions = ["radio-backed variant: the radio's radio_* functions implement a bounded set (WhiteListSpec.radio_implements_set); "
                   "its capacity is the radio's number of entries, which the forwarding class does not limit to Size",
                   "single context: no concurrent access to the white list"]

    def prepare(self, ctx, cases):
        cfgs = sorted(set(" ".join(c.cfg) for c in cases))
        key = "whitelist_" + hashlib.sha1(";".join(cfgs).encode()).hexdigest()[:10]
        d = os.path.join(ctx.bdir, key + ".d")
        os.makedirs(d, exist_ok=True)
        lines = []
        for c in cfgs:
            w = c.split()
            if len(w) == 3 and w[0] in ("sw", "hw") and w[1].isdigit() and w[2].isdigit():
                lines.append("%s(%d,%d)\n" % (w[0].upper(), int(w[1]), int(w[2])))
        with open(os.path.join(d, "whitelist_configs.inc"), "w") as f:
            f.write("".join(lines))
        return [(key, ["-I" + d], cases)]

    def generate(self, ctx):
        rng = ctx.rng
        cases = []
        per = 40 if not ctx.thorough else 600
        for cfg in QUICK + (THOROUGH if ctx.thorough else []):
            w = cfg.split()
            for b in boundary(cfg):
                cases.append(Case("boundary", w, b))
            for k in range(per):
                cases.append(Case("rnd", w, gen_ops(rng, cfg, rng.choice([8, 16, 40, 100]))))
        return cases

    def search_extra(self, ctx):
        rng = ctx.rng
        return [Case("s", cfg.split(), gen_ops(rng, cfg, 80)) for cfg in QUICK for _ in range(200)]

    def nontrivial(self, case, outputs):
        # past the first check of add (already present / full) or of remove (found)
        for o, r in zip(case.ops, outputs):
            if (o.startswith("rem ") and r == "true") or (o.startswith("add ") and r == "false"):
                return True
        return False


def run(ctx):
    return standard_check(ctx, C26())
