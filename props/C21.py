"""C21 Instant-based procedures apply at their instant or end the link (link_layer.hpp: LL_CONNECTION_UPDATE_IND,
LL_CHANNEL_MAP_IND, LL_PHY_UPDATE_IND in handle_ll_control_data / handle_pending_ll_control, defered_ll_control_pdu_,
instant_passed(); peripheral_latency.hpp: the instant clamp of plan_next_connection_event, try_event_cancelation)"""
import os, re, subprocess
from vlib.core import Case, standard_check, run_model, BUILD
from props.ll_common import LLCheck, connected, connect_ind, ctrl, session, le

META = dict(
    text="Instant-based procedures apply at their instant or end the link.",
    level_note="Coq model of link_layer<> (coq/LL/LLModel.v, the code with the repair fix/C21-instant-checks, now in /repo; the tree before "
               "it violated the property: exit 1 with a shrunk replay) tied to the real link_layer<> on a scripted radio. Proved, unbounded (every "
               "16 bit counter incl. wrap, every instant, any latency, any event flags, any received PDUs): the instant comparison is the Core rule "
               "(passed iff (I - c) mod 65536 is 0 or >= 32767); a connection update / channel map / PHY update indication is either refused with "
               "0x28 in the event that looks at it or deferred unchanged; planning never passes a pending instant and strictly approaches it; the "
               "deferred procedure is applied - carried values - exactly in the step whose planned counter equals the instant (end_event and "
               "timeout), nothing of it before; after the application try_event_cancelation can not move the event; an invariant over ALL "
               "operation sequences from power-up (pending => 1 <= distance, distance + last latency <= 32767; not connected => nothing pending). "
               "The executable specification monitor (counter derived from the window timing, CSA#1 channel of the map in force, ATT answers "
               "owed) is proved never to raise a clause of the property (tags 1-6) on any model trace of any length (C21_monitor_accepts_partial: "
               "simulation between model state and monitor state, coq/LL/LLSimC21.v, using the C20 theorems for the channel) inside the executable "
               "environment env_run, which excludes exactly (a) operations delivering >= 4 callbacks (event ring overflow, C29: without it the "
               "statement is refuted, C21_monitor_accepts_rest_refuted) and (b) events in which the number of events the monitor derives from the "
               "window timing differs from the step of the link layer's counter - the timing derivation itself (32 bit microsecond arithmetic, ppm) "
               "is assumed there, not proved, and checked on every run by the monitor clause `counter`. Tag 7 (connection update naming the next "
               "event refused) is the known finding (C21_monitor_accepts_all_refuted).",
    design_ref="DESIGN.md section 6 C21, docs/C21.md, docs/LL_MODEL.md",
    technique="Coq state-machine model + modular arithmetic (lia with euclidean division equations) + step invariants by induction over the "
              "operation sequence + simulation relation model state / monitor state; boundary instants (c-2..c+3, c+32765..c+32769) x latency 0/1/4/499 x counters near 0 / 65535 x lost events x "
              "traffic while pending replayed on the real link layer; executable spec monitor on the implementation's traces")

ATT = "2:03000400021700"          # ATT Exchange MTU Request: the probe for "received data is processed"
PING = "3:12"
DISTANCES = [-2, -1, 0, 1, 2, 3, 6, 32765, 32766, 32767, 32768, 32769]
MAPS = ["ff03000000", "00fc0f0000", "0000f03f00", "000000c01f", "5555555515", "0300000000"]


def upd(inst, ws=1, wo=0, iv=24, la=0, to=72):
    return ctrl(0x00, le(ws, 1) + le(wo, 2) + le(iv, 2) + le(la, 2) + le(to, 2) + le(inst & 0xffff, 2))


def cmap(inst, m):
    return ctrl(0x01, m + le(inst & 0xffff, 2))


def phy(inst, a=2, b=2):
    return ctrl(0x18, le(a, 1) + le(b, 1) + le(inst & 0xffff, 2))


def supervision(iv, la):
    return min(3200, max((la + 1) * 2 * iv * 1250 // 10000 + 1, 100))


class C21(LLCheck):
    pid = "C21"
    component = "LL21"
    variants_quick = ["base", "nophy"]
    variants_thorough = ["base", "nophy", "nocb", "desired"]
    assumptions = LLCheck.assumptions + [
        "the monitor derives the event counter from the windows handed to schedule_connection_event (whole intervals since the anchor); "
        "`st` readouts of the private counter must agree with it",
        "received data while a procedure waits is probed with ATT Exchange MTU requests and LL_PING_REQ only (L2CAP/ATT are an oracle)",
        "configurations with encryption are not judged by this property's monitor",
    ]

    # ---------------------------------------------------------------- closed loop: the model tells the counter after a prefix
    def counters(self, items):
        """items: list of (variant, ops) -> list of (planned event counter, deferred) read from the model's `st`"""
        binp = os.path.join(BUILD, "btmodel_ll21")
        cases = [Case("p%d" % i, ["none", v], list(ops) + ["st"]) for i, (v, ops) in enumerate(items)]
        out = []
        try:
            res = run_model(binp, cases, "model")
        except Exception:
            res = {}
        for c in cases:
            lines = res.get(c.name, [])
            m = re.match(r"st:\w+:(\d+):", lines[-1]) if lines else None
            out.append(int(m.group(1)) if m else None)
        return out

    def prefix(self, rng, la, where):
        """operations that bring a connection with peripheral latency `la` to a planned counter around `where`"""
        iv = rng.choice([6, 24, 40]) if la < 100 else 6
        kw = dict(interval=iv, latency=la, timeout=supervision(iv, la), hop=rng.choice([5, 7, 10, 16]), sca=rng.randrange(8),
                  winsize=rng.choice([1, 2]), winoffset=rng.choice([0, 1, 3]))
        if where == "low":
            return connected(None, **kw) + [rng.choice(["ev 0", "ev 2", "ev 16"]) for _ in range(rng.randrange(0, 4))], kw
        # near the wrap of the 16 bit counter: skip 500 events at a time ( 131 x 500: the planned counter is 65500 ), then
        # change to the wanted latency with a connection update
        kw499 = dict(kw, interval=6, latency=499, timeout=3200)
        ops = connected(None, **kw499) + ["ev 0"] * 130          # planned counter 65500
        if la != 499:
            ops += ["ev 2 " + upd(65503, ws=1, wo=0, iv=iv, la=la, to=supervision(iv, la)), "ev 2", "ev 2", "ev 2"]
            kw = dict(kw, interval=iv)
        else:
            kw = kw499
        return ops, kw

    def tail(self, rng, dist, la, kind, heavy):
        """what happens after the PDU was delivered: events, lost events, traffic, cancelation"""
        n = dist + 3 if 0 < dist <= 12 else (70 if la == 499 and dist > 30000 else 6)
        out = []
        for i in range(n):
            r = rng.random()
            if r < (0.25 if heavy else 0.1):
                out.append("timeout")
            elif r < (0.55 if heavy else 0.3):
                out.append("ev %d %s" % (rng.choice([0, 0, 2]), rng.choice([ATT, ATT, PING, ATT + " " + ATT])))
            elif r < 0.62 and la > 0:
                out += ["ev 0", "cancel %d %d" % (rng.choice([1, 1, 0]), rng.choice([0, 100, 7000, 20000]))]
            elif r < 0.66:
                out += ["txavail 0", "ev 0 " + ATT, "txavail 1"]
            else:
                out.append("ev %d" % rng.choice([0, 0, 0, 2, 16, 8]))
            if rng.random() < 0.3:
                out.append("st")
        return out + ["ev 0 " + ATT, "ev 0", "ev 0", "st"]

    def pdu(self, rng, kind, inst, kw):
        if kind == "upd":
            iv = rng.choice([x for x in [6, 24, 40, 80] if x * 1250 != kw.get("interval", 24) * 1250] if rng.random() < 0.8 else [kw.get("interval", 24)])
            la = rng.choice([0, 0, 1, 4])
            return upd(inst, ws=rng.choice([1, 2]), wo=rng.choice([0, 1, 3]), iv=iv, la=la, to=supervision(iv, la))
        if kind == "map":
            return cmap(inst, rng.choice(MAPS))
        return phy(inst, *rng.choice([(2, 2), (1, 2), (2, 0), (0, 1)]))

    def generate(self, ctx):
        rng, mk = ctx.rng, self.mk
        plans = []          # (name, variant, prefix ops, function counter -> remaining ops)
        for v in self.variants(ctx):
            kinds = ["upd", "map"] + (["phy"] if v in ("base", "nocb") else [])
            # 1. boundary instants x latency at a low counter; 2. the same around the wrap of the counter
            for where, las, reps in [("low", [0, 1, 4, 499], 1), ("wrap", [0, 4, 499], 1)]:
                for kind in kinds:
                    for la in las:
                        for d in DISTANCES:
                            if where == "wrap" and not ctx.thorough and d in (-2, 3, 32765, 32769):
                                continue
                            for rep in range(reps if not ctx.thorough else 2):
                                pre, kw = self.prefix(rng, la, where)
                                if where == "wrap":
                                    # stop at 65533..65535 or just behind the wrap (listening events: + 1 each)
                                    target = rng.choice([65533, 65534, 65535, 0, 1])
                                else:
                                    target = None
                                plans.append(("%s_%s_%s_la%d_d%d" % (where, kind, v, la, d), v, pre, target, kind, d, la, kw, rng.random() < 0.5))
            # 3. a second procedure while the first one waits; instants hit by lost events only
            for k in range(20 if not ctx.thorough else 120):
                kind, kind2 = rng.choice(kinds), rng.choice(kinds)
                la = rng.choice([0, 0, 1, 4])
                pre, kw = self.prefix(rng, la, "low")
                plans.append(("double_%s_%s" % (kind, kind2), v, pre, None, (kind, kind2), rng.choice([2, 3, 5]), la, kw, True))
        # closed loop 1: where is the counter after the prefix ?
        cnt = self.counters([(p[1], p[2]) for p in plans])
        staged = []
        for p, c in zip(plans, cnt):
            name, v, pre, target, kind, d, la, kw, heavy = p
            if c is None:
                continue
            if target is not None:
                steps = (target - c) % 65536
                if steps > 100:
                    continue
                pre = pre + ["ev 2"] * steps
                c = target
            staged.append((name, v, pre, c, kind, d, la, kw, heavy))
        cases = []
        for name, v, pre, c, kind, d, la, kw, heavy in staged:
            if isinstance(kind, tuple):
                k1, k2 = kind
                ops = pre + ["ev 0 " + self.pdu(rng, k1, c + d, kw) + " " + ATT + " " + self.pdu(rng, k2, c + d + rng.choice([-1, 0, 1, 2, 4]), kw), "st"]
                ops += [rng.choice(["timeout", "timeout", "ev 0", "ev 0 " + ATT]) for _ in range(d + 6)] + ["st", "ev 0", "ev 0", "st"]
            else:
                first = rng.choice(["ev 0 ", "ev 0 ", "ev 2 ", "ev 0 " + ATT + " "]) + self.pdu(rng, kind, c + d, kw)
                if rng.random() < 0.15:
                    first = "txavail 0\n" + first + "\ntxavail 1"
                ops = pre + first.split("\n") + ["st"] + self.tail(rng, d, la, kind, heavy)
            cases.append(mk(name, v, ops))
        # 4. random sessions (all PDU kinds, API calls, blocked transmit buffers)
        for v in self.variants(ctx):
            for k in range(40 if not ctx.thorough else 600):
                cases.append(mk("rnd", v, session(rng, v, rng.choice([15, 40]), instants=True)))
        return cases

    def search_extra(self, ctx):
        rng = ctx.rng
        return [self.mk("s", v, session(rng, v, 40, instants=True)) for v in self.variants(ctx) for _ in range(200)]

    def nontrivial(self, case, outputs):
        text = " ".join(outputs)
        return any(re.search(r"\b3:(00|01|18)", o) for o in case.ops) and "cb:established" in text or \
            ("ce:" in text and any(re.search(r"\b3:(00|01|18)", o) for o in case.ops))


def run(ctx):
    return standard_check(ctx, C21())
