"""C37 Security toolbox functions compute the specified cryptography
(bluetoe/bindings/nordic/nrf52/security_tool_box.cpp; session key: nrf52.cpp setup_encryption)"""
from vlib.core import Standard, Case, standard_check
from props.toolbox_common import harness_extra, hexb, rnd, TRUSTED

META = dict(
    text="Coq model of the little endian code of security_tool_box.cpp (aes_le, xor_, left_shift, sub-key generation, the hand-unrolled CMAC chains, the reversed f5/f6 buffer layouts) and of the session key derivation of nrf52.cpp; spec = AES-CMAC (RFC 4493, arbitrary message length) and c1, s1, f4, f5, f6, g2, e(LTK, SKDs||SKDm) as the Core specification writes them (most significant octet first), checked in Coq against the Core's sample data, the RFC 4493 and FIPS-197 vectors. Proved for EVERY block cipher aes (Section variable; 16 octet key and block -> 16 octet block) and all inputs of the stated lengths: each of the seven functions equals its spec modulo byte reversal (C37_c1, _s1, _session_key, _f4, _f5, _f6, _g2; plus the general lemmas: left_shift/sub-keys are RFC 4493's, the unrolled chain is CMAC for any number of blocks). is_valid_public_key accepts exactly the affine P-256 points under the hypothesis that uECC_valid_public_key decides the curve equation (C37_public_key_partial; false without it). The Gallina AES-128 used for execution satisfies the block cipher hypothesis (C37_aes128_is_block_cipher) and the monitor, which compares with the SPEC, accepts every model trace (C37_monitor_accepts_model). The model is tied to the real file, compiled for the host against an emulated ECB/RNG register block and linked with the real uECC.c, by differential runs; the monitor judges the implementation's results.",
    level_note="Trusted / not modelled: the nRF52 ECB peripheral being AES-128 (the theorems hold for any block cipher; the harness plays it with tests/test_tools/aes.c, which is also how the Gallina AES is tested differentially), uECC (about 2700 lines of C: hypothesis, differentially tested on valid / off-curve / unreduced / zero points), the Cortex-M4 build (host build with -fpermissive -no-pie), nrf52.cpp setup_encryption is transcribed, its two layout lines re-read by the translator, its aes_le is the tied one; p1/p2 of c1 are assembled by the security manager, not by the tool box; p256() / generate_keys() (ECDH itself) are not covered. Model hand written, tied by correspondence.",
    design_ref="DESIGN.md section 6 C37, docs/C37.md",
    technique="Coq model + equational proofs parametric in the block cipher (induction over the CMAC block chain, finite sweep for the bit shift); extracted model and spec monitor vs C++ differential correspondence")

P = 0xffffffff00000001000000000000000000000000ffffffffffffffffffffffff
B = 0x5ac635d8aa3a93e7b3ebbd55769886bc651d06b0cc53b0f63bce3c3e27d2604b


def le(v, n):
    return bytes((v >> (8 * i)) & 0xff for i in range(n))


def point(rng, small=False):
    """an affine point of P-256 with random (or small) x; p = 3 mod 4, so a square root is a power"""
    while True:
        x = rng.randrange(0, 1 << 30) if small else rng.randrange(P)
        rhs = (x * x * x - 3 * x + B) % P
        y = pow(rhs, (P + 1) // 4, P)
        if y * y % P == rhs:
            return x, (y if rng.random() < 0.5 else (P - y) % P)


def pk(x, y):
    return "valid " + hexb(le(x, 32) + le(y, 32))


def valid_op(rng):
    r = rng.random()
    if r < 0.40:
        return pk(*point(rng))
    if r < 0.55:
        x, y = point(rng)
        return pk(x ^ (1 << rng.randrange(256)), y) if rng.random() < 0.5 else pk(x, y ^ (1 << rng.randrange(256)))
    if r < 0.70:    # unreduced coordinates: x + p (needs x < 2^256 - p), y + p
        x, y = point(rng, small=True)
        return pk(x + P, y) if rng.random() < 0.6 or y + P >= 1 << 256 else pk(x, y + P)
    if r < 0.80:
        x, y = point(rng, small=True)
        return pk(x, y)
    if r < 0.90:
        return rng.choice([pk(0, 0), pk(P, 0), pk(0, P), pk(P - 1, P - 1), pk((1 << 256) - 1, (1 << 256) - 1), pk(0, pow(B, (P + 1) // 4, P)), pk(1, 0)])
    return "valid " + hexb(rnd(rng, 64))


def block(rng, n=16):
    r = rng.random()
    if r < 0.08:
        return bytes(n)
    if r < 0.16:
        return bytes([0xff] * n)
    if r < 0.22:
        return bytes([0x80] + [0] * (n - 1)) if rng.random() < 0.5 else bytes([0] * (n - 1) + [0x80])
    return rnd(rng, n)


def addr(rng):
    return [rng.choice(["00", "01"]), hexb(block(rng, 6))]


def crypto_op(rng):
    k = rng.choice(["aes", "shl", "k1", "k2", "c1", "s1", "sk", "f4", "g2", "f5", "f6", "valid", "valid"])
    h = lambda n=16: hexb(block(rng, n))
    if k == "aes":
        return "aes %s %s" % (h(), h())
    if k == "shl":
        return "shl " + h()
    if k in ("k1", "k2"):
        return "%s %s" % (k, h())
    if k == "c1":
        return "c1 %s %s %s %s" % (h(), h(), h(), h())
    if k == "s1":
        return "s1 %s %s %s" % (h(), h(), h())
    if k == "sk":
        return "sk %s %s %s" % (h(), h(8), h(8))
    if k == "f4":
        return "f4 %s %s %s %s" % (h(32), h(32), h(), rng.choice(["00", "80", "81", "ff", hexb(rnd(rng, 1))]))
    if k == "g2":
        return "g2 %s %s %s %s" % (h(32), h(32), h(), h())
    if k == "f5":
        return " ".join(["f5", h(32), h(), h()] + addr(rng) + addr(rng))
    if k == "f6":
        return " ".join(["f6", h(), h(), h(), h(), h(3)] + addr(rng) + addr(rng))
    return valid_op(rng)


def malformed_op(rng):
    op = crypto_op(rng).split()
    r = rng.random()
    if r < 0.4 and len(op) > 1:
        i = rng.randrange(1, len(op))
        op[i] = op[i][:-2] if len(op[i]) > 2 and rng.random() < 0.5 else op[i] + "00"
    elif r < 0.7:
        op = op[:-1] if len(op) > 1 and rng.random() < 0.5 else op + ["00"]
    else:
        op[0] = rng.choice(["f7", "c2", "cmac", "p256"])
    return " ".join(op)


def gen_ops(rng, n):
    return [malformed_op(rng) if rng.random() < 0.08 else crypto_op(rng) for _ in range(n)]


class C37(Standard):
    component = "ToolBox"
    harness = "toolbox_harness.cpp"
    trusted_base = TRUSTED + ["uECC.c (bluetoe/bindings/nordic/uECC, compiled as is for the host): only assumed to decide the curve equation, tested differentially",
                              "tests/test_tools/aes.c as the ECB peripheral's AES-128 (the Gallina AES is tested against it here and against FIPS-197 in Coq)"]
    assumptions = ["block_cipher aes: the ECB peripheral maps a 16 octet key and a 16 octet block to a 16 octet block (that it is AES-128 is hardware, not code)",
                   "decides_p256 uecc_valid: uECC_valid_public_key decides x, y < p and y^2 = x^3 - 3x + b on 64 octets X||Y big endian (C37_public_key_partial only)",
                   "inputs have the lengths the C++ types fix (16 / 32 / 64 / 6 / 3 octets)"]

    def prepare(self, ctx, cases):
        return [("toolbox_harness", harness_extra(ctx), cases)]

    def generate(self, ctx):
        rng = ctx.rng
        n = 60 if not ctx.thorough else 3000
        return [Case("rnd", [], gen_ops(rng, 12)) for _ in range(n)]

    def search_extra(self, ctx):
        return [Case("s", [], gen_ops(ctx.rng, 16)) for _ in range(200)]

    def nontrivial(self, case, outputs):
        # some operation got past the argument check and produced a value
        return any(o not in ("badarg", "FAULT", "SKIPPED", "NOBUILD") for o in outputs)


def run(ctx):
    return standard_check(ctx, C37())
