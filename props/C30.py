"""C30 The interrupt-safe ring is a lossless FIFO under any interleaving (utility/ring.hpp)

case = capacity S (cfg) + one line per memory access: `p <value>` (producer; the value is the argument of
the try_push this step starts, ignored while a call is in flight) or `c` (consumer). The list of lines is
the schedule; values pushed and number of pops follow from it."""
from vlib.core import Standard, Case, standard_check
import hashlib, itertools, os

CAPS_QUICK = [1, 2, 3, 4, 7]
CAPS_THOROUGH = [1, 2, 3, 4, 5, 7, 8, 16, 31]
GROUP_STEPS = int(os.environ.get("VERIF_C30_GROUP_STEPS", "200000"))     # memory accesses per group of cases (8 harness processes per group)


def ops_of(bits, start=1):
    """schedule bits -> op lines; every producer line carries a distinct value"""
    out, k = [], start
    for b in bits:
        if b:
            out.append("p %d" % k)
            k += 1
        else:
            out.append("c")
    return out


def seq_push(n):   # n complete, uninterrupted try_push calls (4 accesses each when they succeed)
    return [1] * (4 * n)


def seq_pop(n):
    return [0] * (4 * n)


def interleavings(np_, nc):
    """all merges of np_ producer steps with nc consumer steps"""
    for pos in itertools.combinations(range(np_ + nc), np_):
        s = [0] * (np_ + nc)
        for i in pos:
            s[i] = 1
        yield s


def gen_random(rng, n):
    bits, bias = [], rng.choice([0.2, 0.35, 0.5, 0.65, 0.8])
    run = 0
    while len(bits) < n:
        if run == 0:
            bias = rng.choice([0.1, 0.3, 0.5, 0.5, 0.7, 0.9])
            run = rng.choice([3, 8, 20, 50])
        # bursts of the same side (a call running to completion) mixed with single steps
        side = 1 if rng.random() < bias else 0
        bits += [side] * rng.choice([1, 1, 1, 2, 3, 4])
        run -= 1
    return bits[:n]


def boundary_cases(S):
    """interleavings around every comparison of the code: full test (next == read) with a pop in
    progress, empty test (read == write) with a push in progress, both at every pointer position
    including the wrap-around of both pointers"""
    cases = []
    for rot in range(0, S + 2):                       # rotate the pointers: rot push/pop pairs first
        pre = []
        for _ in range(rot):
            pre += seq_push(1) + seq_pop(1)
        # ring full (S pushes), then: one more push (2..4 accesses) against one pop (4 accesses)
        full = pre + seq_push(S)
        for s in interleavings(4, 4):
            cases.append(("full", full + s + seq_push(1) + seq_pop(S + 1)))
        # ring holding S-1 elements: the push succeeds whatever the consumer does
        if S >= 2:
            for s in list(interleavings(4, 4))[::7]:
                cases.append(("almost_full", pre + seq_push(S - 1) + s + seq_pop(S + 1)))
        # ring empty: one pop (2..4 accesses) against one push
        for s in interleavings(4, 4):
            cases.append(("empty", pre + s + seq_pop(2)))
        # one element
        for s in list(interleavings(4, 6))[::5]:
            cases.append(("one", pre + seq_push(1) + s + seq_pop(2)))
    return cases


class C30(Standard):
    component = "Ring"
    harness = "ring_harness.cpp"
    trusted_base = [
        "model of ring.hpp in coq/Ring/RingModel.v (hand written; tied by this correspondence run and by the "
        "access order / tests / length regenerated from the source by gen/consts/ring.py and pinned in Properties_C30.v)",
        "harness/ring_harness.cpp: token substitution of std::atomic_int by a yielding atomic, instrumented element type, ucontext coroutines",
        "DRF-SC: the sequentially consistent interleaving semantics is the C++11 semantics of a program without data "
        "races whose atomics are all seq_cst (C++11 [intro.multithread]; data race freedom itself is proved)"]
    assumptions = [
        "exactly one producer context calls try_push and exactly one consumer context calls try_pop",
        "read_ptr_/write_ptr_ are accessed with the default seq_cst load()/store() (source lint on every run)",
        "S + 1 <= INT_MAX (the int arithmetic of the pointers does not wrap)",
        "copying a T does not touch the ring (T's copy assignment is the only access to a data_ slot)"]

    def caps(self, ctx):
        return CAPS_THOROUGH if ctx.thorough else CAPS_QUICK

    def prepare(self, ctx, cases):
        """one compiled harness (all capacities are registry entries of one TU); the cases are handed to
        the runner in groups of bounded size so that no harness process comes near the runner's
        per-process time limit. All groups share the binary: it is compiled here once and entered into
        the runner's harness cache under every group key."""
        from vlib.core import compile_harness
        cfgs = sorted(set(c.cfg[0] for c in cases if c.cfg), key=lambda x: (len(x), x))
        cfgs = [c for c in cfgs if c.isdigit() and 0 < int(c) <= 4096] or ["1"]
        key = "ring_" + hashlib.sha1(";".join(cfgs).encode()).hexdigest()[:10]
        d = os.path.join(ctx.bdir, key + ".d")
        os.makedirs(d, exist_ok=True)
        with open(os.path.join(d, "ring_configs.inc"), "w") as f:
            f.write("".join("CFG(%s)\n" % c for c in cfgs))
        extra = ["-I" + d]
        groups, cur, steps = [], [], 0
        for c in cases:
            cur.append(c)
            steps += len(c.ops) + 1
            if steps >= GROUP_STEPS:
                groups.append(cur)
                cur, steps = [], 0
        if cur or not groups:
            groups.append(cur)
        if len(groups) == 1:
            return [(key, extra, groups[0])]
        cache = ctx.__dict__.setdefault("hcache", {})
        if key not in cache:
            cache[key] = compile_harness(ctx, self.harness, key, extra=extra)
        out = []
        for i, g in enumerate(groups):
            cache["%s#%d" % (key, i)] = cache[key]
            out.append(("%s#%d" % (key, i), extra, g))
        return out

    def generate(self, ctx):
        rng = ctx.rng
        cases = []
        # 1. every schedule up to a length, small capacities (strengthens the tie; not the proof)
        n = 16 if ctx.thorough else 10
        for S in (1, 2):
            for bits in itertools.product((0, 1), repeat=n):
                cases.append(Case("all%d" % n, [str(S)], ops_of(bits)))
        # 2. boundary families
        for S in self.caps(ctx):
            if S > 8 and not ctx.thorough:
                continue
            bc = boundary_cases(S)
            if not ctx.thorough and S > 2:
                bc = rng.sample(bc, min(len(bc), 150))
            for name, bits in bc:
                cases.append(Case("b_" + name, [str(S)], ops_of(bits)))
        # 3. random schedules
        per = 1500 if ctx.thorough else 120
        for S in self.caps(ctx):
            for _ in range(per):
                cases.append(Case("rnd", [str(S)], ops_of(gen_random(rng, rng.choice([12, 30, 80, 200, 400])))))
            # 4. degenerate / extreme inputs: one side only, equal values, extreme values
            cases.append(Case("only_p", [str(S)], ops_of([1] * (8 * S + 12))))
            cases.append(Case("only_c", [str(S)], ops_of([0] * 12)))
            cases.append(Case("same_values", [str(S)], [("p 5" if b else "c") for b in gen_random(rng, 120)]))
            cases.append(Case("extreme_values", [str(S)],
                              [("p %d" % rng.choice([0, 1, 2147483647, 4294967295, 65536]) if b else "c") for b in gen_random(rng, 120)]))
        return cases

    def search_extra(self, ctx):
        rng = ctx.rng
        out = []
        for S in CAPS_QUICK:
            for name, bits in boundary_cases(S)[:400]:
                out.append(Case("s", [str(S)], ops_of(bits)))
            for _ in range(400):
                out.append(Case("s", [str(S)], ops_of(gen_random(rng, rng.choice([30, 100, 300])))))
        return out

    def nontrivial(self, case, outputs):
        """a pop succeeded and at least once a side made a step while the other side's call was in flight"""
        if not any(o.startswith("st_r") for o in outputs):
            return False
        busy = {"p": False, "c": False}
        for op, o in zip(case.ops, outputs):
            side = op[0]
            other = "c" if side == "p" else "p"
            if busy[other]:
                return True
            busy[side] = " ret " not in o
        return False


META = dict(
    text="The interrupt-safe ring is a lossless FIFO under any interleaving",
    level_note="unbounded proof (any capacity, any number of operations, any schedule) by invariant / forward simulation "
               "in the sequentially consistent micro-step model; data race freedom proved; model tied to ring.hpp by "
               "coroutine-scheduled runs of the real header",
    design_ref="DESIGN.md section 6 C30, appendix 12.3",
    technique="Coq invariant proof + extracted monitor + schedule-driven differential run")


def run(ctx):
    return standard_check(ctx, C30())
