"""C38 Generated passkeys are six-digit values (bluetoe/bindings/nordic/nrf52/security_tool_box.cpp create_passkey)"""
from vlib.core import Standard, Case, standard_check
from props.toolbox_common import harness_extra, hexb, rnd, TRUSTED

META = dict(
    text="Coq model of security_tool_box::create_passkey() with the RNG peripheral as an explicit byte stream. The code as found returned three raw random bytes (0 .. 16 777 215): refuted in Coq (C38_refuted, stream ff ff ff) and on the real code; repaired on branch fix/C38-passkey-range (20 bit rejection sampling). For the repaired code, for every byte stream and every fuel: a returned TK is the 128 bit little endian value of a number < 10^6 (C38_passkey_in_range), a result exists whenever the stream holds an acceptable sample within fuel draws (C38_terminates), and after any prefix of rejected samples the accepted sample's low 20 bits are returned unchanged, byte triples being in bijection with (20 bit value, discarded nibble) pairs - so every value 0..999999 has exactly 16 accepting triples and a uniform stream gives a uniform passkey (C38_uniform_*). The model is tied to the real function, compiled for the host against an emulated RNG register block, by differential runs; the monitor judges the implementation's results.",
    level_note="Trusted: Coq kernel, extraction, OCaml driver, C++ harness + emulated nrf.h (scripted RNG), runner. 'Uniform' is proved as the counting statement above, not in a probability theory; termination is 'with probability 1' outside the model (explicit fuel, out-of-fuel excluded by hypothesis). Only the nRF52 tool box is compiled and tied; nrf51.cpp carries the same repaired function but is not host-compilable here. The numeric comparison value g2 shown to the user is not reduced mod 10^6 by io_capabilities.hpp (not part of this property's code).",
    design_ref="DESIGN.md section 6 C38, docs/C38.md",
    technique="Coq model + inductive proof over the RNG stream; refutation witness by vm_compute; extracted model vs C++ differential correspondence with range monitor")

LIMIT = 1000000


def triple(v, hi=0):
    """three stream bytes whose low 20 bits are v and whose discarded nibble is hi"""
    return bytes([v & 0xff, (v >> 8) & 0xff, ((v >> 16) & 0x0f) | (hi << 4)])


def stream(rng, kind):
    if kind == "random":
        return rnd(rng, rng.choice([3, 3, 6, 9, 12, 30]))
    if kind == "ragged":
        return rnd(rng, rng.choice([0, 1, 2, 4, 5, 7]))
    if kind == "boundary":
        v = rng.choice([LIMIT - 2, LIMIT - 1, LIMIT, LIMIT + 1, 0xFFFFF, 0xFFFFE, 0, 1, 0xF4240, 0xF423F, 0x100000 - 1, 65535, 65536])
        return triple(v & 0xFFFFF, rng.randrange(16)) + rnd(rng, rng.choice([0, 3]))
    # rejected prefix of k samples, then an accepted one
    k = rng.choice([1, 1, 2, 3, 5, 9])
    s = b"".join(triple(rng.randrange(LIMIT, 1 << 20), rng.randrange(16)) for _ in range(k))
    return s + triple(rng.randrange(LIMIT), rng.randrange(16)) + rnd(rng, rng.choice([0, 2]))


def gen_ops(rng, n):
    ops = []
    for _ in range(n):
        r = rng.random()
        if r < 0.05:
            ops.append(rng.choice(["passkey", "passkey 00 00", "passkeys 000000"]))
        else:
            kind = "random" if r < 0.40 else "rejected" if r < 0.70 else "boundary" if r < 0.92 else "ragged"
            ops.append("passkey " + hexb(stream(rng, kind)))
    return ops


class C38(Standard):
    component = "ToolBox"
    harness = "toolbox_harness.cpp"
    trusted_base = TRUSTED
    assumptions = ["the RNG peripheral delivers the bytes of the stream in order (its quality is not modelled)",
                   "C38_terminates: the stream contains an acceptable 20 bit sample within the given number of draws (holds with probability 1 - 0.047^n for n draws of a uniform stream)"]

    def prepare(self, ctx, cases):
        return [("toolbox_harness", harness_extra(ctx), cases)]

    def generate(self, ctx):
        rng = ctx.rng
        n = 150 if not ctx.thorough else 6000
        return [Case("rnd", [], gen_ops(rng, 12)) for _ in range(n)]

    def search_extra(self, ctx):
        return [Case("s", [], gen_ops(ctx.rng, 20)) for _ in range(300)]

    def nontrivial(self, case, outputs):
        # some passkey was decided by stream bytes (not by the zeros after the end of the script)
        return any(o.startswith("passkey ") and len(o.split()) == 2 and len(o.split()[1]) >= 6 for o in case.ops)


def run(ctx):
    return standard_check(ctx, C38())
