"""C34 Distributed keys are only sent over an encrypted link (bluetoe/sm: bonding_data_base::distribute_keys)"""
from vlib.core import Case, standard_check
from props.sm_common import SMStandard, build_case, configs_for, yn_modes, mixed_walk, model_available

META = dict(
    text="Same Coq model of the security managers as C32. Specification monitor over all interleavings of SMP input, encryption changes, output polls, reconnects: an Encryption Information / Central Identification PDU leaves the device only while the link is encrypted, only after a pairing with bonding completed on this connection, each at most once per completed pairing, carrying the key / EDIV / Rand of the bond stored for that pairing (observed store_bond callback), and only while that pairing is still the connection's completed pairing. Proved for every tool box, bond data base, configuration and operation sequence of any length: the last clause (dist_stale) is the only one that can fail (C34_distribution_partial); the full statement is refuted with a witness (pending-distribution flags survive a later failed pairing attempt; known finding). Model tied to the real classes by differential runs; the monitor judges the implementation's traces.",
    level_note="Trusted: Coq kernel, extraction, OCaml driver, C++ harness + ASan/UBSan, runner, Python peer. Model hand-written, tied on the compiled configurations. Only the responder key distribution of the code (LTK, EDIV, Rand of a legacy pairing with bonding_data_base) exists; identity / signing keys are not implemented by the code. Also proved without the monitor (SM/SMDirect.v): a step that emits Encryption Information / Central Identification is an output poll in a state with encrypted = true and the pending flag set, and the flag is clear afterwards.",
    design_ref="DESIGN.md section 6 C34, docs/C34.md, docs/SM_MODEL.md",
    technique="Coq state-machine model + simulation invariant + executable monitor; extracted model vs C++ differential correspondence with a lock-step pairing peer")


def scenarios(cfg5):
    v = cfg5[0]
    sc = []
    polls = lambda p: (p.poll(), p.poll(), p.poll())
    if v in ("legacy", "both"):
        sc.append(("dist_normal", lambda p: (p.pair_legacy(io=3), polls(p), p.send("key 0 0"), p.send("enc 1"), polls(p), p.send("enc 0"), p.send("enc 1"), polls(p))))
        sc.append(("dist_interleaved", lambda p: (p.pair_legacy(io=3), p.send("enc 1"), p.poll(), p.send("enc 0"), p.poll(), p.send("enc 1"), p.poll(), p.poll())))
        sc.append(("dist_twice", lambda p: (p.pair_legacy(io=3), p.send("enc 1"), polls(p), p.request(False, io=3), p.pair_legacy(io=3), polls(p))))
        sc.append(("dist_stale", lambda p: (p.pair_legacy(io=3), p.garbage(), p.send("key 0 0"), p.send("enc 1"), polls(p))))
        sc.append(("dist_stale_mid", lambda p: (p.pair_legacy(io=3), p.send("enc 1"), p.poll(), p.garbage(), p.poll(), p.poll())))
        sc.append(("dist_reconnect", lambda p: (p.pair_legacy(io=3), p.new_connection(0), p.send("enc 1"), polls(p))))
        sc.append(("dist_unpaired", lambda p: (p.send("enc 1"), polls(p), p.request(False, io=3), polls(p), p.confirm(), polls(p))))
    if v in ("lesc", "both"):
        sc.append(("lesc_no_dist", lambda p: (p.pair_lesc(io=3), p.send("enc 1"), polls(p))))
    if v == "both":
        sc.append(("legacy_then_lesc", lambda p: (p.pair_legacy(io=3), p.request(True, io=3), p.pair_lesc(io=3), p.send("enc 1"), polls(p))))
    return sc


def gen_cases(ctx, per, lengths):
    cases = []
    if not model_available():
        return cases
    rng = ctx.rng
    for cfg5 in configs_for(ctx):
        for yn in yn_modes(cfg5)[-1:]:
            for name, s in scenarios(cfg5):
                cases.append(build_case("C34", cfg5, yn, rng, s, name))
            n = per if cfg5[4] == "bond1" else max(per // 4, 2)
            for _ in range(n):
                cases.append(build_case("C34", cfg5, yn, rng, mixed_walk(rng.choice(lengths), 0.45), "walk"))
    return cases


class C34(SMStandard):
    def generate(self, ctx):
        return gen_cases(ctx, 24 if not ctx.thorough else 100, [10, 18, 30, 44])

    def search_extra(self, ctx):
        return gen_cases(ctx, 60, [12, 24, 40])

    def nontrivial(self, case, outputs):
        # a key distribution PDU was actually sent
        return any(o[:2] in ("06", "07") for o in outputs)


def run(ctx):
    return standard_check(ctx, C34())
