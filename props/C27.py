"""C27 Link control PDUs get the specified responses (link_layer.hpp: handle_ll_control_data, transmit_pending_control_pdus,
the 40 s procedure response timeout)"""
from vlib.core import Case, standard_check
from props.ll_common import LLCheck, connected, connect_ind, ctrl, rnd_hex, session, KNOWN, le

META = dict(
    text="Link control PDUs get the specified responses.",
    level_note="Coq model of link_layer<> (coq/LL/LLModel.v) tied to the real link_layer<> on a scripted radio. Proved: the dispatch of "
               "handle_ll_control_data equals the specification table for every opcode 0..255 x every size x version state x PHY/encryption "
               "support (finite sweep by vm_compute lifted with forallb_forall, sizes > 27 by case analysis); the committed answer of every "
               "class for every payload and state (unbounded); the 40 s response timeout as an invariant over event histories of any length. "
               "The statement 'the specification monitor accepts every model trace' is refuted by three witnesses (LL_PHY_REQ without timeout, "
               "second LL_VERSION_IND, LLID 1 fragment blocks reception) which are known findings; its positive part IS proved (C27_monitor_accepts_partial, simulation proof coq/LL/LLProofsC27Sim.v): the monitor "
               "accepts every model trace of any length inside the executable environment env27 = no phy_update_request(), no "
               "remote_versions_request(), no LLID 1 PDU with payload, no model crash, synchronous connection parameter configuration; also proved: "
               "the range properties of the answer to LL_CONNECTION_PARAM_REQ (C27_connection_parameter_answer). Not proved: the asynchronous "
               "connection parameter variant inside that theorem (tested every run). "
               "Instant based procedures (C21) and encryption PDUs (C28) are outside this property's monitor.",
    design_ref="DESIGN.md section 6 C27, docs/C27.md, docs/LL_MODEL.md",
    technique="Coq state-machine model + finite table sweep + invariant proof; exhaustive (opcode, size) dispatch table and timeout histories "
              "evaluated on the real link layer every run; executable spec monitor on the implementation's traces")

CLOSE = ["ev 0", "ev 0"]


def table_cases(mk, variant, opcodes, rng=None):
    """one case per (opcode, size): connect, deliver the PDU, two more events to see the answer, private state"""
    cases = []
    for op in opcodes:
        for size in range(1, 28):
            payload = "00" * (size - 1) if rng is None else rnd_hex(rng, size - 1)
            if (op, size) in ((0x00, 12), (0x01, 8), (0x18, 5)):
                # instant based PDUs: an instant 100 events ahead, valid before and after the repair of the instant checks
                # (what happens around the instant is property C21)
                payload = payload[:-4] + "6400"
            cases.append(mk("table_%02x_%d" % (op, size), variant, connected() + ["ev 0 " + ctrl(op, payload), "ev 0", "ev 0", "st"]))
    return cases


def timeout_history(rng, variant, request, interval, latency, n_before, answer=None, missed=0.0):
    """own request, then events spaced so that 40 s pass around the n-th"""
    need = (latency + 1) * 2 * interval * 1250 // 10000 + 1
    ops = connected(rng, interval=interval, latency=latency, timeout=min(3200, max(need, 3200)))
    ops += ["ev 0"] * rng.choice([0, 1, 3])
    ops.append(request)
    for i in range(n_before):
        if answer and i == answer[0]:
            ops.append("ev 0 " + answer[1])
        elif rng.random() < missed:
            ops.append("timeout")
        else:
            ops.append("ev %d" % rng.choice([0, 0, 2, 16, 63]))
    return ops + ["st"]


class C27(LLCheck):
    pid = "C27"

    def generate(self, ctx):
        rng, mk = ctx.rng, self.mk
        cases = []
        variants = self.variants(ctx)
        # 1. the exhaustive dispatch table (DESIGN 4.4): every opcode x every size 1..27 on the real link layer
        for v in variants:
            cases += table_cases(mk, v, range(256))
        if ctx.thorough:
            for v in variants:
                cases += table_cases(mk, v, range(256), rng)
        # version received twice / table with version_indication_received_ set
        for v in variants:
            for op in [o for o in KNOWN if o not in (0x00, 0x01, 0x18)] + [0x0e, 0x14, 0x19, 0xff]:
                for size in sorted(set([KNOWN.get(op, 1), 6, 1, 27])):
                    cases.append(mk("tablev", v, connected() + ["ev 0 3:0c0969020000", "ev 0", "ev 0 " + ctrl(op, rnd_hex(rng, size - 1)), "ev 0", "ev 0", "st"]))
        # 2. histories around the 40 s procedure response timeout
        reqs = ["cpr 6 24 0 72", "verreq", "cpu 24 40 0 400", "phyreq 2 2"]
        for v in variants:
            for (interval, latency, n) in [(3200, 0, 12), (1000, 0, 34), (3200, 2, 6), (800, 7, 9), (1600, 1, 15)]:
                for rq in reqs:
                    if rq.startswith("phyreq") and not ctx.thorough and (interval, latency) != (3200, 0):
                        continue
                    cases.append(mk("timeout", v, timeout_history(rng, v, rq, interval, latency, n)))
                    cases.append(mk("timeout_missed", v, timeout_history(rng, v, rq, interval, latency, n, missed=0.25)))
                answers = {"cpr": ["3:110f3b", "3:070f", "3:0d1a", "3:0714"], "ver": ["3:0c0969020000", "3:070c", "3:0d06"], "cpu": ["3:070f", "3:110f3b"]}
                for rq in reqs[:3]:
                    for a in answers[rq[:3]]:
                        cases.append(mk("answered", v, timeout_history(rng, v, rq, interval, latency, n, answer=(rng.randrange(1, 4), a))))
        # 3. random sessions: requests of every kind, API calls, blocked transmit buffer
        per = 40 if not ctx.thorough else 800
        for v in variants:
            for k in range(per):
                ops = session(rng, v, rng.choice([10, 25, 45]), instants=False)     # instant based procedures: C21
                if k % 3:
                    ops = [o for o in ops if o != "verreq"]        # the second-version finding would end most sessions early
                cases.append(mk("rnd", v, ops))
        return cases

    def search_extra(self, ctx):
        rng = ctx.rng
        return [self.mk("s", v, session(rng, v, 45, instants=False)) for v in self.variants(ctx) for _ in range(300)]

    def nontrivial(self, case, outputs):
        return any("tx:3:" in o for o in outputs)


def run(ctx):
    return standard_check(ctx, C27())
