"""C15 Link layer data delivery is reliable, ordered and exactly-once (ll_data_pdu_buffer.hpp)"""
from vlib.core import standard_check
from props.pdubuf_common import PduBufCheck, META_COMMON


class C15(PduBufCheck):
    pid = "C15"


META = dict(META_COMMON,
            text="Link layer data delivery is reliable, ordered and exactly-once.",
            design_ref="DESIGN.md section 6, C15; appendix 12.2; docs/C15.md",
            level_note="unbounded Coq theorems about the model of ll_data_pdu_buffer.hpp in closed loop with a Core-specification "
                       "conformant central and a channel that loses / corrupts / MIC-damages packets in both directions; the ring buffer "
                       "below it is a FIFO with the alloc_front() capacity arithmetic (its internals are C18); the nRF52 interrupt "
                       "handler's 3-way decision is modelled, not tied")


def run(ctx):
    return standard_check(ctx, C15())
