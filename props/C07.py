"""C07 Prepared writes are deferred, per-client and applied in order (write_queue.hpp, server.hpp:
handle_prepair_write_request, handle_execute_write_request, client_disconnected; attribute.hpp: check_write)."""
from vlib.core import standard_check
from props import att_common as AC
from props import val_common as VC
from props.att_common import AttBase

META = dict(
    text="Prepared writes are deferred, per-client and applied in order",
    design_ref="DESIGN.md section 6 C07",
    technique="Coq: the transcribed write queue and Prepare / Execute Write handlers refine an abstract queue "
              "option (owner, list (handle, offset, bytes)) with byte capacity (AttSrvSpecVal.v); theorems by invariants "
              "over request histories of any length from any number of connections; executable monitor running the "
              "abstract queue and store beside the observed trace. Tie: generated server<> instantiations with queue sizes "
              "none / 0 / 10 / 32 / 142, two and three connections, three link states, interleaved prepare / execute / write / "
              "disconnect",
    level_note="proved (unbounded: histories of any length from any of the connections, every PDU, no wf needed): for EVERY configuration the server refines the abstract queue option (owner, list (handle, offset, bytes)) with byte capacity in all responses of Prepare / Execute Write (order, first failing write and its error code, cancel, release on execute / cancel / disconnect, Prepare Queue Full for other clients and for elements that do not fit, accepted iff a Write Request is permitted) and in the content of all bound variables (C07_refines_abstract_queue_with_handlers); for configurations without write handlers additionally in the handler call counters (full monitor). With write handlers the one difference is stated exactly: the probe of Prepare Write calls the handler once with an empty write at offset 0 and changes nothing else (C07_probe_calls_handler_once; known finding; the full statement is refuted with a witness). Direct theorems (a) (c) (d) for every configuration. Memory safety (FAULT) is C01's clause. See docs/C07.md")


class C07(AttBase):
    tag = "C07"
    quick_pool = ["v_wq0", "v_wq10", "v_wq32", "v_wq142", "v_wqnone", "v_handlers", "v_enc_server_none", "v_long"]
    quick_random = 2
    thorough_random = 40
    trusted_base = ["models coq/AttDb/AttDbModel.v, coq/AttSrv/AttSrvModel.v (hand written transcription, tied by this run)",
                    "reference semantics coq/AttSrv/AttSrvSpecVal.v (abstract queue, aperm, aexecute, elem_cost)",
                    "gen/emit_cpp.py, ocaml/attsrv_lib.ml (configuration language)"]
    assumptions = ["1 <= length pdu, 23 <= out_size (the asserts of l2cap_input)", "wf cfg; user handlers are the harness' array handlers",
                   "three connections (channel_data_t objects) on one server; a client is identified by its connection object as in write_queue.hpp",
                   "memory safety of Prepare / Execute (no FAULT) is C01's clause"]

    def configurations(self, ctx):
        cfgs = [c for c in VC.POOL if ctx.thorough or c["name"] in self.quick_pool]
        if ctx.thorough:
            cfgs += [VC.by_name(n) for n in ("fixed_handles", "cccd9", "mtu24", "mtu65", "handlers", "enc_server_requires")]
        rnd = VC.random_configs(self.component, ctx.rng, 3 * (self.thorough_random if ctx.thorough else self.quick_random))
        with_q = [c for c in rnd if c.get("wq") is not None]
        return cfgs + (with_q + rnd)[:self.thorough_random if ctx.thorough else self.quick_random]

    def generate(self, ctx):
        rng = ctx.rng
        cfgs = self.configurations(ctx)
        cases = []
        per = 20 if not ctx.thorough else 300
        for cfg, vi in zip(cfgs, VC.vinfos(self.component, cfgs)):
            for rep in range(2 if not ctx.thorough else 12):
                for ops in VC.gen_queue_cases(rng, vi):
                    cases.append(self.case("queue", cfg, ops))
            for ops in VC.gen_prepare_handler(rng, vi):
                cases.append(self.case("probe", cfg, ops))
            for ops in VC.gen_wide_offsets(rng, vi):
                cases.append(self.case("wide", cfg, ops))
            for k in range(per):
                cases.append(self.case("hist", cfg, VC.gen_value_history(rng, vi, rng.choice([10, 25, 60]), sec_rate=0.08)))
        return cases

    def nontrivial(self, case, outputs):
        # a prepared write was accepted
        return any(o.startswith("17") for o in outputs if o)

    def search_extra(self, ctx):
        rng = ctx.rng
        cfgs = self.configurations(ctx)[:6]
        return [self.case("s", cfg, ops) for cfg, vi in zip(cfgs, VC.vinfos(self.component, cfgs)) for _ in range(10) for ops in VC.gen_queue_cases(rng, vi)]


def run(ctx):
    return standard_check(ctx, C07())
