"""C33 Keys are offered only after successful pairing or from the bond database (bluetoe/sm)"""
from vlib.core import Case, standard_check
from props.sm_common import SMStandard, build_case, configs_for, yn_modes, mixed_walk, model_available

META = dict(
    text="Same Coq model of the security managers as C32 (tool box and bond data base are Section variables). Specification monitor: find_key(ediv, rand) answers exactly the key the last completed pairing on this connection produced (legacy s1(TK, srand, mrand), LESC LTK of f5 - recomputed by the monitor from the observed exchange) if a pairing is completed and ediv = rand = 0, otherwise what the user's bond data base holds for (ediv, rand, peer) - the monitor keeps a copy of the data base and adds the observed store_bond callbacks - otherwise nothing. Proved for every tool box, bond data base, configuration and every operation sequence of any length: the monitor accepts the model's trace (C33_keys_only_after_pairing_or_from_bond_db; full statement, no exception). Model tied to the real classes by differential runs; the monitor judges the implementation's traces.",
    level_note="Trusted: Coq kernel, extraction, OCaml driver, C++ harness + ASan/UBSan, runner, Python peer. Model hand-written, tied on the compiled configurations; the bond data base of the runs is a small concrete one (list of address, key, rand, ediv). The key a completed exchange produced is defined by the monitor from the observed PDUs and user interaction; the LESC DH key is defined through the DH function on public keys (hypothesis dh_ok: p256 of the tool box's own key pairs agrees with it). Also proved without the monitor (SM/SMDirect.v): in every reachable live state the answer to a key request is the pairing's LTK only in state Completed with EDIV = Rand = 0 and otherwise the bond data base's answer; directly after a Pairing Failed response or a new connection only the bond data base answers.",
    design_ref="DESIGN.md section 6 C33, docs/C33.md, docs/SM_MODEL.md",
    technique="Coq state-machine model + simulation invariant + executable monitor; extracted model vs C++ differential correspondence with a lock-step pairing peer")


def scenarios(cfg5):
    v = cfg5[0]
    sc = []
    ask = lambda p: (p.send("key 0 0"), p.send("key 0 1"), p.send("key 1 0"))
    if v in ("legacy", "both"):
        sc.append(("legacy_key", lambda p: (ask(p), p.pair_legacy(io=3), ask(p), p.garbage(), ask(p))))
        sc.append(("legacy_failed", lambda p: (p.pair_legacy(io=3, good=False), ask(p), p.request(False, io=3), p.confirm(), ask(p))))
        sc.append(("legacy_bond_reconnect", lambda p: (p.pair_legacy(io=3), [p.send("key %d %d" % (e, r)) for _, r, e in p.bonds], p.new_connection(0), ask(p),
                                                         [p.send("key %d %d" % (e, r)) for _, r, e in p.bonds], p.new_connection(1), [p.send("key %d %d" % (e, r)) for _, r, e in p.bonds])))
    if v in ("lesc", "both"):
        sc.append(("lesc_key", lambda p: (ask(p), p.pair_lesc(io=3), ask(p), p.dhkey(), ask(p))))
        sc.append(("lesc_failed", lambda p: (p.pair_lesc(io=3, good=False), ask(p))))
        sc.append(("lesc_midway", lambda p: (p.request(True, io=3), ask(p), p.pubkey(), ask(p), p.poll(), p.random(), ask(p))))
        sc.append(("lesc_reconnect", lambda p: (p.pair_lesc(io=3), ask(p), p.new_connection(0), ask(p), p.new_connection(2), ask(p))))
    if v == "none":
        sc.append(("none", lambda p: (ask(p), p.request(True), ask(p))))
    return sc + collisions(cfg5)


def collisions(cfg5):
    """FAMILY: bond data base contents that collide with the identifiers of the pairing's own key. The key of
    the pairing completed on this connection is requested with EDIV 0 / Rand 0 - and so is every bond a LESC
    pairing stored. Pre-loaded bonds for this and for other peers under (0,0), (0,r), (e,0) and under the
    identifiers of a bond stored a moment ago; re-pairing with the other kind of pairing; key requests for all
    these identifiers before / after completion, after a failure and after a reconnect."""
    v = cfg5[0]
    sc = []
    pair = {"legacy": lambda p: p.pair_legacy(io=3), "lesc": lambda p: p.pair_lesc(io=3)}
    kinds = [k for k in ("legacy", "lesc") if v in (k, "both")]

    def preloaded(kind):
        def s(p):
            p.preload_bond(0, 0, 0, 0x11); p.preload_bond(1, 0, 0, 0x22); p.preload_bond(0, 0, 7, 0x33); p.preload_bond(0, 5, 0, 0x44)
            p.ask_all()
            pair[kind](p)
            p.ask_all()                      # (0,0): the key this pairing produced, not the stale bond
            p.pdu([11]); p.ask_all()         # pairing failed: the data base answers again
            p.new_connection(1); p.ask_all(); pair[kind](p); p.ask_all()
        return s

    def same_as_stored(kind):
        def s(p):
            pair[kind](p)
            for a, r, e in list(p.bonds):
                p.preload_bond(a, e, r, 0x55); p.preload_bond(a ^ 1, e, r, 0x66)
            p.ask_all(); p.new_connection(0); p.ask_all(); p.new_connection(1); p.ask_all()
        return s

    def repair(first, second):
        def s(p):
            pair[first](p); p.ask_all()
            p.request(second == "lesc", io=3)        # rejected in state completed, back to idle
            pair[second](p); p.ask_all()             # (0,0): the second pairing's key
            p.new_connection(0); p.ask_all()
        return s

    for k in kinds:
        sc.append(("collide_preloaded_" + k, preloaded(k)))
        sc.append(("collide_same_as_stored_" + k, same_as_stored(k)))
        sc.append(("repair_%s_%s" % (k, k), repair(k, k)))
    if v == "both":
        sc.append(("repair_lesc_legacy", repair("lesc", "legacy")))
        sc.append(("repair_legacy_lesc", repair("legacy", "lesc")))
    return sc


def gen_cases(ctx, per, lengths):
    cases = []
    if not model_available():
        return cases
    rng = ctx.rng
    for cfg5 in configs_for(ctx):
        for yn in yn_modes(cfg5):
            for name, s in scenarios(cfg5):
                cases.append(build_case("C33", cfg5, yn, rng, s, name))
            for _ in range(per):
                cases.append(build_case("C33", cfg5, yn, rng, mixed_walk(rng.choice(lengths), 0.35), "walk"))
    return cases


class C33(SMStandard):
    def generate(self, ctx):
        return gen_cases(ctx, 12 if not ctx.thorough else 60, [8, 14, 24, 40])

    def search_extra(self, ctx):
        return gen_cases(ctx, 40, [10, 20, 36])

    def nontrivial(self, case, outputs):
        # a key was actually offered
        return any(op.startswith("key ") and out != "none" and out not in ("SKIPPED", "FAULT") for op, out in zip(case.ops, outputs))


def run(ctx):
    return standard_check(ctx, C33())
