"""C39 The bootloader only touches white-listed memory (bluetoe/services/bootloader.hpp)"""
from vlib.core import Standard, Case, standard_check
import hashlib, os

META = dict(
    text="Coq model of the bootloader service (controller, two flash_buffers, white_list, page size / address size / region list as parameters) with the server glue of one connection (notification queue entries of the three characteristics, l2cap_output, confirmations, Read Requests); the user handler is an oracle whose calls are logged outputs. Theorems, for every page size > 0, every region list, every handler oracle and every operation sequence of any length and byte content: no read beyond the written control point value (no fault / assert); every read_mem, start_flash, public_read_mem and public_checksum32 range lies inside one white-listed region; inside the stated environment (handler reports each flash once, no Stop/Start Flash or progress read while pages are being flashed) every flashed page is exactly the bytes sent at the addresses announced, completed by read-back bytes, with an unbroken check sum chain and in-order progress reports; refutation witnesses for the unrestricted last clause. The model is tied to the real server<bootloader_service<...>> by differential runs with a logging handler (sparse memory) under ASan, and the extracted monitor judges the implementation's traces.",
    level_note="Trusted: Coq kernel, extraction (ExtrOcamlBasic), OCaml driver, C++ harness + ASan/UBSan, runner. Model hand-written (coq/Boot/BootModel.v), tied by correspondence on 4 (quick) / 8 (thorough) page size x region list configurations with sizeof(uint8_t*) = 8; the user handler is an oracle (toy check sums identical in harness and model). ATT MTU fixed at 23, all three CCCDs subscribed, one connection; link layer timing not modelled.",
    design_ref="DESIGN.md section 6 C39, docs/C39.md",
    technique="Coq state-machine model + invariant proofs + simulation proof against an executable spec monitor; extracted model vs C++ differential correspondence")

CONFIGS_QUICK = [
    (16, [(0x1000, 0x1040), (0x2000, 0x2030)]),                         # page aligned
    (16, [(0x1005, 0x103b), (0x2008, 0x2009)]),                         # unaligned bounds, a one byte region
    (64, [(0x1000, 0x1100), (0xffffffffffffff80, 0xffffffffffffffff)]),  # a region at the top of the address space
    (1024, [(0x10000, 0x10c00), (0x20010, 0x20c10)]),                   # aligned + unaligned
]
CONFIGS_THOROUGH = [
    (64, []),                                                            # empty white list
    (16, [(0x0, 0x20), (0xfffffffffffffff0, 0xffffffffffffffff), (0x3000, 0x3000)]),   # page 0, top page, empty region
    (64, [(0x1001, 0x10ff), (0x2000, 0x2040), (0x2040, 0x2080)]),        # adjacent regions
    (1024, [(0x400, 0x800)]),
]


def cfg_words(page, regions):
    return [str(page), ",".join("%x-%x" % r for r in regions) if regions else "none"]


def cfg_of_words(w):
    regions = [] if w[1] == "none" else [tuple(int(x, 16) for x in r.split("-")) for r in w[1].split(",")]
    return int(w[0]), regions


def le(a, n=8):
    return (a % (1 << (8 * n))).to_bytes(n, "little").hex()


def rnd_hex(rng, n):
    return "".join("%02x" % rng.randrange(256) for _ in range(n)) if n else "-"


def interesting_addresses(rng, page, regions):
    """addresses around every comparison of the white list / page arithmetic"""
    r = []
    for (s, e) in regions:
        for b in (s, e, s - s % page, e - e % page, s - s % page + page, e - e % page - page, e - e % page + page):
            for d in (-1, 0, 1, page - 1, -page):
                r.append((b + d) % (1 << 64))
        if e > s:
            r.append(rng.randrange(s, e))
    r += [0, 1, (1 << 64) - 1, (1 << 64) - page, 0x5000]
    return r


def inside_pages(page, regions):
    """start addresses of the pages that lie completely inside a region"""
    r = []
    for (s, e) in regions:
        p = (s + page - 1) // page * page
        while p + page <= e and len(r) < 64:
            r.append(p)
            p += page
    return r


def pump(rng, ops, n=2):
    for _ in range(n):
        ops.append(rng.choice(["out", "out", "endflash", "run", "hvc"]))


def gen_flash_session(rng, page, regions, wild):
    ops = []
    pages = inside_pages(page, regions)
    if pages and not (wild and rng.random() < 0.3):
        p = rng.choice(pages)
        a = p + rng.choice([0, 0, 1, page - 1, rng.randrange(page), page - 3])
    else:
        a = rng.choice(interesting_addresses(rng, page, regions))
    ops.append(("cp 03" if rng.random() < 0.9 else "cpc 03") + le(a))
    if rng.random() < 0.5:
        ops.append("out")
    total = rng.choice([3, page // 2 + 1, page, page + 5, 2 * page, 3 * page + 1])
    total = min(total, 2600)
    outstanding = 0
    sent = 0
    while sent < total:
        n = min(rng.choice([20, 20, 20, 1, 7, 19, max(1, page % 20)]), total - sent)
        ops.append(("data " if rng.random() < 0.93 else "datac ") + rnd_hex(rng, n))
        sent += n
        # a page completes about every page bytes: let the handler finish and the link layer poll
        completed = (a % page + sent) // page
        if completed > outstanding:
            if rng.random() < (0.9 if not wild else 0.5):
                ops += ["endflash", "out"] * (completed - outstanding)
            outstanding = completed
        elif rng.random() < 0.1:
            ops.append("out")
    r = rng.random()
    if r < 0.5:
        ops += ["cp 05", "out", "endflash", "out"]
    if not wild:
        # a well behaved client waits for the progress reports of all pages before the next procedure
        ops += ["endflash", "out", "out"] * 2
    if 0.4 < r < 0.7:
        ops += ["cp 04", "out"]
    if wild:
        pump(rng, ops, 3)
    return ops


def gen_read_session(rng, page, regions, wild):
    ops = []
    if regions and rng.random() < 0.8:
        s, e = rng.choice(regions)
        a = rng.choice([s, s, s + 1, max(s, e - 5), max(s, e - 21), e])
        b = rng.choice([e, e, min(e, a + 45), min(e, a + 20), a, e + (1 if wild else 0)])
    else:
        a = rng.choice(interesting_addresses(rng, page, regions))
        b = rng.choice(interesting_addresses(rng, page, regions))
    if rng.random() < 0.5:
        ops.append("cp 01" + le(a) + le(b))
        ops.append("out")
        return ops
    ops.append("cp 08" + le(a) + le(b))
    if rng.random() < 0.15:
        ops.append("err 1")
    for _ in range(rng.choice([1, 2, 4])):
        ops += ["run", "out", "hvc"]
    if wild and rng.random() < 0.5:
        ops.append("data " + rnd_hex(rng, rng.choice([1, 17, 20])))
        ops += ["run", "out", "hvc", "run", "out"]
    ops.append("err 0")
    return ops


def gen_misc(rng, page, regions, wild=True):
    r = rng.random()
    if r < 0.3:
        return [rng.choice(["cp 00", "cp 02", "cp 04", "cp 07", "cp 06" + le(rng.choice([0x1000, 0xdeadbeef])), "cp 05", "cp 0501"]), "out"]
    if r < 0.5:
        return ["rd " + rng.choice(["cp", "data", "prog"] if wild else ["cp", "data"])]
    if r < 0.7:
        return [rng.choice(["cp ", "cpc ", "data ", "datac "]) + rnd_hex(rng, rng.randrange(0, 21))]
    opc = rng.choice([0, 1, 2, 3, 4, 5, 6, 7, 8, 9, 0x80, 0xff])
    return ["cp %02x" % opc + (rnd_hex(rng, rng.randrange(1, 20)) if rng.random() < 0.8 else ""), "out"]


def gen_case(rng, page, regions, kind):
    ops = []
    wild = kind != "valid"
    for _ in range(rng.choice([1, 2, 3]) if page <= 64 else rng.choice([1, 2])):
        r = rng.random()
        if kind == "malformed":
            ops += gen_misc(rng, page, regions)
            if rng.random() < 0.5:
                ops += gen_flash_session(rng, page, regions, True)[:rng.randrange(1, 12)]
        elif r < 0.6:
            ops += gen_flash_session(rng, page, regions, wild)
        elif r < 0.85:
            ops += gen_read_session(rng, page, regions, wild)
        else:
            ops += gen_misc(rng, page, regions, wild)
    return ops


def opcode_length_family(rng, lo, hi):
    """every opcode x every value length lo..hi (MTU - 3 = 20), random bytes"""
    ops = []
    for opc in [0, 1, 2, 3, 4, 5, 6, 7, 8, 9, 0xff]:
        for n in range(lo, hi + 1):
            ops.append("cp " + ("%02x" % opc + (rnd_hex(rng, n - 1) if n > 1 else "") if n else "-"))
            if rng.random() < 0.2:
                ops.append("out")
    return ops


def boundary_starts(rng, page, regions):
    """Start Flash at every interesting address, one byte of data, Flush"""
    ops = []
    for a in interesting_addresses(rng, page, regions):
        ops += ["cp 03" + le(a), "data " + rnd_hex(rng, 1), "cp 05", "cp 04"]
    return ops


def past_the_end(rng, page, regions):
    """start in the last white-listed page of a region and keep sending"""
    cases = []
    for (s, e) in regions:
        if e - s < 1:
            continue
        last = e - 1 - (e - 1) % page
        for a in (last, last + page // 2, max(s, last - page)):
            ops = ["cp 03" + le(a)]
            for _ in range((2 * page + 40) // 20 + 1):
                ops.append("data " + rnd_hex(rng, 20))
                if rng.random() < 0.4:
                    ops += ["endflash", "out"]
            ops += ["cp 05", "endflash", "out", "out"]
            cases.append(ops)
    return cases


class C39(Standard):
    component = "Boot"
    harness = "boot_harness.cpp"
    trusted_base = ["model coq/Boot/BootModel.v (hand written transcription of bootloader.hpp controller / flash_buffer / white_list + server glue, tied by this run)",
                    "toy handler oracle (check sums, memory pattern) defined identically in harness/boot_harness.cpp and BootModel.toy_oracle"]
    assumptions = ["one connection, all three CCCDs subscribed, ATT MTU 23 (l2cap_output polled with a 23 byte buffer)",
                   "sizeof(std::uint8_t*) = 8 in the tie (the theorems hold for every address size)",
                   "page size > 0 and smaller than the address space (wf_cfg)",
                   "theorem C39_flash_data_partial: environment env_run (each end_flash answers an outstanding start_flash; no Stop Flash / Get Version / Get Sizes / Start Flash and no Read Request on the progress characteristic while pages are being flashed or reported)"]

    def configs(self, ctx):
        return CONFIGS_QUICK + (CONFIGS_THOROUGH if ctx.thorough else [])

    def prepare(self, ctx, cases):
        groups = {}
        for c in cases:
            groups.setdefault(" ".join(c.cfg[:2]), []).append(c)
        res = []
        for key_words, cs in sorted(groups.items()):
            page, regions = cfg_of_words(key_words.split())
            key = "boot_" + hashlib.sha1(key_words.encode()).hexdigest()[:10]
            d = os.path.join(ctx.bdir, key + ".d")
            os.makedirs(d, exist_ok=True)
            if regions:
                line = 'CFG( "%s", %d, %s )\n' % (key_words, page, ", ".join("R( %x, %x )" % r for r in regions))
            else:
                line = 'CFG_NONE( "%s", %d )\n' % (key_words, page)
            p = os.path.join(d, "boot_configs.inc")
            if not os.path.exists(p) or open(p).read() != line:
                with open(p, "w") as f:
                    f.write(line)
            res.append((key, ["-I" + d], cs))
        return res

    def generate(self, ctx):
        rng = ctx.rng
        cases = []
        for (page, regions) in self.configs(ctx):
            w = cfg_words(page, regions)
            per = (100 if page <= 64 else 30) if not ctx.thorough else (1500 if page <= 64 else 300)
            cases.append(Case("oplen", w, opcode_length_family(rng, 0, 20)))
            cases.append(Case("starts", w, boundary_starts(rng, page, regions)))
            for ops in past_the_end(rng, page, regions):
                cases.append(Case("pastend", w, ops))
            for k in range(per):
                kind = "valid" if k % 10 < 7 else "boundary" if k % 10 < 9 else "malformed"
                cases.append(Case(kind, w, gen_case(rng, page, regions, kind)))
        return cases

    def search_extra(self, ctx):
        rng = ctx.rng
        cases = []
        for (page, regions) in CONFIGS_QUICK:
            w = cfg_words(page, regions)
            for k in range(150 if page <= 64 else 40):
                cases.append(Case("s", w, gen_case(rng, page, regions, ["valid", "boundary", "malformed"][k % 3])))
        return cases

    def nontrivial(self, case, outputs):
        return any((" sf:" in o) or (" pr:" in o) or (" pc:" in o) for o in outputs)


def run(ctx):
    return standard_check(ctx, C39())
