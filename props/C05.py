"""C05 Encryption-protected values are never exposed on an unencrypted link (characteristic_value.hpp:
encryption_requirements, characteristic.hpp: CCCD access, server.hpp: every request handler + l2cap_output)."""
from vlib.core import standard_check
from props import att_common as AC
from props import val_common as VC
from props.att_common import AttBase

META = dict(
    text="Encryption-protected values are never exposed on an unencrypted link",
    design_ref="DESIGN.md section 6 C05",
    technique="Coq: non-interference of the transcribed ATT server (att_input / att_output on a connection that is not "
              "encrypted) in the protected values, unbounded over configurations, states, PDUs and histories; integrity of "
              "protected values; error codes per attribute access; executable monitor over a reference semantics of link "
              "security (AttSrvSpecVal.v). Tie: generated server<> instantiations with every placement of "
              "requires_encryption / no_encryption_required / may_require_encryption, three link states, all request kinds",
    level_note="proved (unbounded): non-interference of every operation acting through an unencrypted connection (l2cap_input with all 14 handlers, l2cap_output, application operations; every configuration, no wf needed) lifted to histories of any length; integrity of protected values; connection wide integrity of the CCCD bits of every protected characteristic (store well formed, which holds in every reachable state; uses C09's lens and injectivity of cccd_position); per attribute access the refusal without effect with 0x05 (no key) / 0x0F (key); spec_protected = characteristic_requires_encryption for all option placements; the monitor accepts every model trace: all configurations for histories without Read By Type / Read Multiple / l2cap_output, and ALL histories (scanned responses included) for well formed configurations without include_service<> and requests made of bytes. Nothing is left unproved; with include_service<> the scans are tied only (the handle mapping has no inverse law there: C04's finding). See docs/C05.md")


class C05(AttBase):
    tag = "C05"
    quick_pool = ["v_enc_server_r", "v_enc_server_none", "v_enc_server_may", "v_enc_server_nr", "v_enc_kinds", "v_wq32", "v_wqnone"]
    quick_random = 2
    thorough_random = 40
    trusted_base = ["models coq/AttDb/AttDbModel.v, coq/AttSrv/AttSrvModel.v (hand written transcription, tied by this run)",
                    "reference semantics coq/AttSrv/AttSrvSpecVal.v (spec_protected, sec_error) as the meaning of the property",
                    "gen/emit_cpp.py, ocaml/attsrv_lib.ml (configuration language)"]
    assumptions = ["1 <= length pdu, 23 <= out_size (the asserts of l2cap_input)", "wf cfg; user handlers are the harness' array handlers",
                   "link security is what link_state reports (is_encrypted, pairing_status); how a link gets encrypted is C28",
                   "a Write Command to a protected CCCD is judged through its effects on later notifications only by C09/C10"]

    def configurations(self, ctx):
        cfgs = [c for c in VC.POOL if ctx.thorough or c["name"] in self.quick_pool]
        if ctx.thorough:
            cfgs += [c for c in VC.att_configs.CORPUS if c["name"].startswith("enc_")]
        rnd = VC.random_configs(self.component, ctx.rng, 3 * (self.thorough_random if ctx.thorough else self.quick_random), prefix="rnd")
        with_enc = [c for c in rnd if "enc=r" in AC.emit_cpp.encode(c) or "enc=rm" in AC.emit_cpp.encode(c)]
        return cfgs + (with_enc + rnd)[:self.thorough_random if ctx.thorough else self.quick_random]

    def generate(self, ctx):
        rng = ctx.rng
        cfgs = self.configurations(ctx)
        cases = []
        per = 30 if not ctx.thorough else 400
        for cfg, vi in zip(cfgs, VC.vinfos(self.component, cfgs)):
            for ops in VC.gen_three_states(rng, vi):
                cases.append(self.case("states", cfg, ops))
            for ops in VC.gen_subscribed_then_unencrypted(rng, vi):
                cases.append(self.case("subscribed", cfg, ops))
            for k in range(per):
                cases.append(self.case("hist", cfg, VC.gen_value_history(rng, vi, rng.choice([10, 25, 60]), sec_rate=0.16)))
            for ops in VC.gen_queue_cases(rng, vi)[:4 if not ctx.thorough else None]:
                cases.append(self.case("queue", cfg, ops))
        return cases

    def nontrivial(self, case, outputs):
        # a request was refused for insufficient security, or a protected value was read on an encrypted link
        return any(len(o) == 10 and o.startswith("01") and o[8:] in ("05", "0f") for o in outputs) or \
            (any(op.startswith("sec") and op.split()[2] == "1" for op in case.ops) and AttBase.nontrivial(self, case, outputs))

    def search_extra(self, ctx):
        rng = ctx.rng
        cfgs = self.configurations(ctx)[:6]
        return [self.case("s", cfg, VC.gen_value_history(rng, vi, 40, sec_rate=0.2)) for cfg, vi in zip(cfgs, VC.vinfos(self.component, cfgs)) for _ in range(60)]


def run(ctx):
    return standard_check(ctx, C05())
