"""Shared by props/C24.py and props/C25.py: configurations of harness/adv_harness.cpp, the registry
include file, PDU builders and a small mirror of the advertiser's start/stop bookkeeping that the
generators use to stay inside the documented usage most of the time (a timeout or received PDU only
while an advertisement is outstanding, channel map changes only while none is)."""
import hashlib, os, re, subprocess
from vlib import core

OWN = "4711081500c0r"          # c0:00:15:08:11:47 (random)
OWN_P = "a1b2c3d4e5f6p"
PEERS = ["010203040506p", "010203040506r", "c0ffee000001r", "112233445566p", "000000000000p", "ffffffffffffr"]

TYPE_CPP = {"u": "cu", "d": "cd", "s": "cs", "n": "cn"}
TYPE_CODE = {"u": 0, "d": 1, "n": 2, "s": 6}


def cpp_config(key):
    """'u,d/manual/var/var/def' -> CFG line of adv_configs.inc"""
    types, startup, chmap, ival, layout = key.split("/")
    opts = []
    if startup == "auto":
        opts.append("ll::auto_start_advertising")
    elif startup == "manual":
        opts.append("ll::no_auto_start_advertising")
    if chmap == "all":
        opts.append("ll::all_advertising_channel_map")
    elif chmap == "var":
        opts.append("ll::variable_advertising_channel_map")
    if ival == "var":
        opts.append("ll::variable_advertising_interval")
    elif ival.startswith("fix"):
        opts.append("ll::advertising_interval< %d >" % int(ival[3:]))
    tl = "T( %s )" % ", ".join(TYPE_CPP[t] for t in types.split(",")) if types != "-" else "T()"
    radio = "radio_nrf" if layout == "nrf" else "radio_def"
    if opts:
        return 'CFG( "%s", %s, %s, %s )' % (key, radio, tl, ", ".join(opts))
    return 'CFG0( "%s", %s, %s )' % (key, radio, tl)


def key_of(case):
    return "/".join(case.cfg[1:6])


def nrf_layout_text():
    """the text of nrf_details::encrypted_pdu_layout, cut out of the binding's header (nrf.hpp itself
    needs the vendor's register header nrf.h, which is not available on the host)"""
    src = open(os.path.join(core.REPO, "bluetoe/bindings/nordic/include/bluetoe/nrf.hpp")).read()
    m = re.search(r"struct\s+encrypted_pdu_layout\b.*?\n        \};", src, re.S)
    if not m:
        raise ValueError("encrypted_pdu_layout not found in nrf.hpp")
    return m.group(0) + "\n"


def scan_predicate_compiles(ctx):
    """advertising_type_base::is_valid_scan_request<> is not instantiated anywhere in the library; on
    the unrepaired tree it does not compile (body.begin on a std::pair). The harness offers the
    scanreq operation only when it does."""
    if "scanpred" in ctx.__dict__:
        return ctx.scanpred
    src = os.path.join(ctx.bdir, "scanprobe.cpp")
    with open(src, "w") as f:
        f.write("#include <vector>\n#include <array>\n#include <iterator>\n#include <cassert>\n#include <cstdint>\n"
                "#include <bluetoe/advertising.hpp>\n"
                "bool probe( const bluetoe::link_layer::read_buffer& b, const bluetoe::link_layer::device_address& a ) {\n"
                "  return bluetoe::link_layer::details::advertising_type_base::is_valid_scan_request< bluetoe::link_layer::default_pdu_layout >( b, a ); }\n")
    cmd = [core.CXX, "-std=c++11", "-w", "-fsyntax-only"] + ["-I" + os.path.join(core.REPO, i) for i in core.INCLUDES] + [src]
    try:
        rc = subprocess.run(cmd, capture_output=True, timeout=120).returncode
    except Exception:
        rc = 1
    ctx.scanpred = rc == 0
    return ctx.scanpred


def prepare(ctx, cases, per_group=2):
    """one harness binary per group of template configurations (compiled in parallel)"""
    keys = sorted(set(key_of(c) for c in cases))
    groups = []
    scan = scan_predicate_compiles(ctx)
    for i in range(0, len(keys), per_group):
        ks = keys[i:i + per_group]
        name = "adv_" + hashlib.sha1((";".join(ks) + str(scan)).encode()).hexdigest()[:10]
        d = os.path.join(ctx.bdir, name + ".d")
        os.makedirs(d, exist_ok=True)
        with open(os.path.join(d, "adv_configs.inc"), "w") as f:
            f.write("".join(cpp_config(k) + "\n" for k in ks))
        flags = ["-I" + d]
        if any(k.endswith("/nrf") for k in ks):
            try:
                with open(os.path.join(d, "nrf_layout.inc"), "w") as f:
                    f.write(nrf_layout_text())
                flags.append("-DADV_WITH_NRF_LAYOUT")
            except Exception as e:   # the configuration is then reported as NOCONFIG -> correspondence broken
                core.log("adv: " + str(e))
        if scan:
            flags.append("-DADV_HAS_SCAN_PREDICATE")
        groups.append((name, flags, [c for c in cases if key_of(c) in ks]))
    return groups


# --------------------------------------------------------------------------- PDUs
def addr_bytes(a):
    return bytes.fromhex(a[:12]), a[12] == "r"


def pdu(layout, ptype, tx, rx, length, body, hi0=0, hi1=0):
    """an advertising channel PDU as it lies in memory for the layout"""
    b0 = (ptype & 15) | (hi0 & 0x30) | (0x40 if tx else 0) | (0x80 if rx else 0)
    b1 = (length & 63) | (hi1 & 0xc0)
    return bytes([b0, b1]) + (b"\x00" if layout == "nrf" else b"") + bytes(body)


def connect_ind(layout, init, adv, rng=None, **kw):
    ia, tx = addr_bytes(init)
    aa, rx = addr_bytes(adv)
    lldata = bytes(rng.randrange(256) for _ in range(22)) if rng else bytes(range(22))
    return pdu(layout, kw.get("ptype", 5), kw.get("tx", tx), kw.get("rx", rx), kw.get("length", 34),
               ia + aa + lldata, kw.get("hi0", 0), kw.get("hi1", 0))


def scan_req(layout, scanner, adv, **kw):
    sa, tx = addr_bytes(scanner)
    aa, rx = addr_bytes(adv)
    return pdu(layout, kw.get("ptype", 3), kw.get("tx", tx), kw.get("rx", rx), kw.get("length", 12), sa + aa,
               kw.get("hi0", 0), kw.get("hi1", 0))


def hexs(b):
    return b.hex() if len(b) else "-"


def mutate_addr(a, rng):
    b = bytearray.fromhex(a[:12])
    i = rng.randrange(6)
    b[i] ^= 1 << rng.randrange(8)
    return b.hex() + a[12]


# --------------------------------------------------------------------------- a mirror of the bookkeeping
class Sim:
    """just enough of the advertiser to know whether an operation hands an advertisement to the radio"""

    def __init__(self, cfg):
        self.types = cfg[1].split(",") if cfg[1] != "-" else ["u"]
        self.multi = cfg[1] != "-" and len(self.types) >= 2
        self.manual = cfg[2] == "manual"
        self.varmap = cfg[3] == "var"
        self.started = self.enabled = False
        self.count = 0
        self.map = 7
        self.dvalid = self.dstarted = False
        self.sel = self.prop = 0
        self.changed = False
        self.pending = 0

    def _fill(self):
        t = self.types[self.sel]
        if t == "d" and not self.dvalid:
            self.dstarted = True
            return False
        return True

    def _get(self):
        return self.dvalid if self.types[self.sel] == "d" else True

    def _countdown(self):
        if self.count:
            self.count -= 1
            if self.count == 0:
                self.enabled = False

    def hstart(self):
        if self.multi:
            self.sel = self.prop
        if not self._fill():
            return False
        if self.manual:
            r = self.enabled
            self._countdown()
            self.started = True
            if not r:
                return False
        self.pending += 1
        return True

    def timeout(self):
        if self.multi and self.sel != self.prop:
            fill = True
            self.sel = self.prop
        else:
            fill, self.changed = self.changed, False
        ok = self._fill() if fill else self._get()
        if not ok:
            return False
        if self.manual:
            r = self.enabled and self.started
            self._countdown()
            if not r:
                return False
        self.pending += 1
        return True

    def op(self, o):
        w = o.split()
        k = w[0]
        if k == "lstart":
            return self.hstart()
        if k == "lstop":
            if self.manual:
                self.started = self.enabled = False
        elif k == "to":
            self.pending = max(self.pending - 1, 0)
            return self.timeout()
        elif k == "rxrej":        # a received PDU that is rejected
            self.pending = max(self.pending - 1, 0)
            return self.timeout()
        elif k == "rxacc":
            self.pending = max(self.pending - 1, 0)
        elif k in ("start", "startn") and self.manual:
            st = not self.enabled
            self.count = int(w[1]) if k == "startn" else 0
            self.enabled = True
            if st and self.started:
                return self.hstart()
        elif k == "stop" and self.manual:
            self.enabled, self.count = False, 0
        elif k == "addch" and 37 <= int(w[1]) <= 39:
            self.map |= 1 << (int(w[1]) - 37)
        elif k == "rmch" and 37 <= int(w[1]) <= 39:
            self.map &= ~(1 << (int(w[1]) - 37))
        elif k == "daddr":
            valid = w[1] != "000000000000r"
            st = not self.dvalid and valid
            self.dvalid = valid
            if st and self.dstarted:
                return self.hstart()
        elif k == "chg":
            self.prop = int(w[1])
        elif k == "dchg":
            self.changed = True
        return False
