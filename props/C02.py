"""C02 Discovery returns exactly the in-range matching attributes (server.hpp: Find Information, Read By Type,
Read By Group Type over attribute_handle.hpp's handle mapping)."""
from vlib.core import standard_check
from props import att_common as AC
from props import disc_common as D
from props.att_common import AttBase

META = dict(
    text="Discovery returns exactly the in-range matching attributes",
    design_ref="DESIGN.md section 6 C02",
    technique="Coq: attribute table of the declaration (AttDbSpec.assign / decl_attrs), matching / discover_all spec, "
              "executable monitor with client sessions; unbounded theorems over all wf configurations without "
              "include_service<>, all ranges, types and MTUs; tie: generated server<> instantiations (fixed handles, gaps, "
              "16/128 bit uuids), range sweeps over handles / gap interiors / service ends and closed-loop discovery",
    level_note="PROVED (unbounded, wf configurations without include_service<>): the abstract discover_all theorem; Read By Group "
               "Type in full (byte-exact response = non-empty maximal prefix of matching / Not Found iff empty; discover_all exact); "
               "Find Information: byte-exact response, Not Found iff empty, first matching attribute + a subsequence of the rest, "
               "prefix / discover_all exact / maximal ('as far as fits') within the uuid format of the first; Read By Type: entries are "
               "a subsequence of matching, Not Found if nothing matches, a response whenever a readable attribute matches, byte level "
               "for every out_size (8 bit size cut). THE MONITOR THEOREM on regular configurations (executable predicate c02_regular: "
               "16 bit types only, equal state independent value lengths per type, max_mtu <= 257): the monitor accepts the model's trace "
               "for every request history of any length (no FAULT proved for the three handlers on reachable states). REFUTED (known "
               "findings, not repaired because baseline unit tests assert the behaviour): the monitor theorem in general - prefix / "
               "enumerate-exact for Find Information across a 16/128 bit format change and for Read By Type across a value length "
               "change. MONITORED / TIED ONLY: everything outside c02_regular, Read By Type for type 0x0001, maximality of Read By "
               "Type. See docs/C02.md")


class C02(AttBase):
    tag = "C02"
    quick_corpus = ["basic3", "fixed_handles", "secondary", "values", "mtu300", "disc_gap_first", "disc_sec_mix", "disc_uniform"]
    quick_random = 2
    thorough_random = 40
    trusted_base = ["models coq/AttDb/AttDbModel.v, coq/AttSrv/AttSrvModel.v (hand written transcription, tied by this run)",
                    "gen/emit_cpp.py, ocaml/attsrv_lib.ml (configuration language)"]
    assumptions = ["wf cfg, no include_service<> (the handle mapping with includes is C04's finding), explicit characteristic uuids, "
                   "no declared 16 bit uuid 0x0001", "23 <= out_size",
                   "Read By Type: an attribute whose read can fail (no read access, encryption) need not be returned"]

    def configurations(self, ctx):
        return D.configurations(self, ctx, self.quick_corpus, self.thorough_random if ctx.thorough else self.quick_random)

    def requests(self, rng, d, pairs, thorough):
        reqs = []
        for lo, hi in pairs:
            reqs.append(D.fi(lo, hi))
            reqs.append(D.rbg(lo, hi))
            tys = d.types if thorough else rng.sample(d.types, min(3, len(d.types)))
            reqs += [D.rbt(lo, hi, t) for t in tys]
        return reqs

    def generate(self, ctx):
        rng = ctx.rng
        cfgs = self.configurations(ctx)
        cases = []
        for cfg, info in zip(cfgs, AC.infos(self.component, cfgs)):
            d = D.DInfo(info)
            pairs = D.all_pairs(d, ctx.thorough)
            if not ctx.thorough and len(pairs) > 220:
                pairs = rng.sample(pairs, 220)
            reqs = self.requests(rng, d, pairs, ctx.thorough)
            # boundary / malformed: other group types, 128 bit <<Primary Service>>, odd lengths, random ranges
            for _ in range(30 if not ctx.thorough else 300):
                lo, hi = AC.pick_range(rng, info)
                reqs.append(rng.choice([D.rbg(lo, hi, "0128"), D.rbg(lo, hi, AC.as128("2800")), D.rbt(lo, hi, AC.rnd_hex(rng, 16)),
                                        D.fi(lo, hi) + "00", D.rbt(lo, hi, "00"), D.rbt(lo, hi, AC.pick_type(rng, info)),
                                        D.fi(rng.randrange(0x10000), rng.randrange(0x10000))]))
            rng.shuffle(reqs)
            cases += D.chunked(self, "sweep", cfg, rng, info, reqs)
            # near miss types (every configured uuid, varied in one respect): whole range + ranges from the pool
            near = []
            for t in d.near_types:
                near.append(D.rbt(1, 0xffff, t))
                for _ in range(1 if not ctx.thorough else 6):
                    lo, hi = AC.pick_range(rng, info)
                    near.append(D.rbt(lo, hi, t))
            cases += D.chunked(self, "near", cfg, rng, info, near)
            # a client that continues behind the last handle
            sessions = []
            for k in range(24 if not ctx.thorough else 200):
                lo = rng.choice([1, 1, 1, rng.choice(d.pool) or 1])
                hi = rng.choice([0xffff, 0xffff, rng.choice(d.pool)])
                if hi < lo:
                    lo, hi = max(hi, 1), lo
                mk = rng.choice([lambda a, b: D.fi(a, b), lambda a, b: D.rbg(a, b)]
                                + [(lambda a, b, t=t: D.rbt(a, b, t)) for t in rng.sample(d.types, min(4, len(d.types)))])
                sessions.append((rng.randrange(3), rng.choice(D.sizes(info)), lo, hi, mk, D.prelude(rng, info)))
            cases += D.discover(self, cfg, info, sessions)
        return cases

    def search_extra(self, ctx):
        rng = ctx.rng
        cfgs = self.configurations(ctx)[:6]
        out = []
        for cfg, info in zip(cfgs, AC.infos(self.component, cfgs)):
            d = D.DInfo(info)
            out += D.chunked(self, "s", cfg, rng, info, self.requests(rng, d, D.all_pairs(d, False), True))[:400]
        return out

    def nontrivial(self, case, outputs):
        return any(o[:2] in ("05", "09", "11") for o in outputs)


def run(ctx):
    return standard_check(ctx, C02())
