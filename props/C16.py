"""C16 Encryption packet counters advance exactly once per new PDU (ll_data_pdu_buffer.hpp, nrf52 counter)"""
from vlib.core import standard_check
from props.pdubuf_common import PduBufCheck, META_COMMON


class C16(PduBufCheck):
    pid = "C16"


META = dict(META_COMMON,
            text="Encryption packet counters advance exactly once per new PDU.",
            design_ref="DESIGN.md section 6, C16; appendix 12.2; docs/C16.md",
            level_note="unbounded Coq theorems in the C15 system: the counter callbacks of ll_data_pdu_buffer.hpp are outputs of the model; "
                       "counter::increment (nrf52.cpp) is modelled as 32+8 bit increment and tied by compiling the text of the class "
                       "cut out of the sources; the CCM hardware that consumes the counter is outside")


def run(ctx):
    return standard_check(ctx, C16())
