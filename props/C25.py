"""C25 Only properly addressed and permitted requests are answered while advertising -- the part that lives
in advertising.hpp (handle_adv_receive of the four advertising types and of the multi-type advertiser,
the static predicates is_valid_connect_request / is_valid_scan_request)"""
from vlib.core import Standard, Case, standard_check
from props import adv_common as A

META = dict(
    text="Coq model of advertising.hpp's request checks as pure functions over the byte list of the received PDU, for both PDU layouts: theorems 'handle_adv_receive reports a connection request iff the PDU is a CONNECT_IND whose in-memory size and length field are 34, AdvA / RxAdd are the own address and address type, the advertising type is connectable, for directed advertising InitA / TxAdd are the configured target, and the initiator (InitA, TxAdd) passes the connection filter', 'the remote address reported is (InitA, TxAdd)', 'scannable and non-connectable advertising never report a connection request', 'is_valid_scan_request is true iff SCAN_REQ, sizes 12, AdvA / RxAdd match', all for every byte list of any length; plus, for every configuration and every operation sequence of any length (start, timeouts, received PDUs, change of advertising type, change of the directed address, ...), the executable C25 monitor accepts the model's trace (a PDU is accepted only if, and rejected only if, the specification says so for the advertising type on air = the type of the last advertising PDU handed to the radio; change_advertising takes effect with the next PDU). The model is tied to the real handle_adv_receive of the mixin classes and to the real static predicates by differential runs on generated PDUs for default_pdu_layout and the nRF encrypted layout; the monitor judges the implementation's answers.",
    level_note="Only the advertising.hpp part of C25 is claimed. The connection filter (white list) is an oracle here: is_connection_request_in_filter is a parameter of the model and a scripted set in the harness (white_list.hpp is C26). NOT covered, left to the LL component: link_layer::adv_received's further conditions for entering the connecting state (channel map / hop increment via channel_map::reset, timing parameters), and what it does when they fail. Scan requests are answered by the radio bindings (nRF51/52 ISR, test radio), not by the link layer: advertising.hpp's is_valid_scan_request is called by nothing in the library and on the unrepaired tree cannot even be instantiated; it is modelled and proved, and tied only on a tree where it compiles (branch fix/C25-adv-request-checks). The radios' own scan request checks are not covered. Trusted: Coq kernel, extraction, OCaml driver, C++ harness + ASan/UBSan (every received PDU is an exactly sized heap block), the stub link layer standing for link_layer<>, the runner. Repaired on fix/C25-adv-request-checks: directed advertising failed the layout's assert (read the header beyond the PDU with NDEBUG) on received PDUs shorter than a header.",
    design_ref="DESIGN.md section 6 C25, docs/C25.md",
    technique="Coq pure-function model + iff theorems over all byte lists; invariant proof against an executable spec monitor; extracted model vs C++ differential correspondence")

QUICK_CFGS = [
    "u auto all dflt def", "d auto all dflt def", "s auto dflt dflt def", "n dflt dflt dflt def",
    "u,d auto all dflt nrf", "d,s,u,n manual var var def", "- dflt dflt dflt nrf", "d manual all dflt nrf",
]
MORE_CFGS = ["s auto dflt dflt nrf", "n manual all dflt nrf", "d,u manual dflt dflt def", "u,s,n auto dflt dflt def",
             "u manual var var def", "n,s,d,u auto all fix20 nrf"]
FILTERS = ["all", "none", "wl:" + A.PEERS[0], "wl:%s,%s" % (A.PEERS[1], A.PEERS[3]), "wl:" + ",".join(A.PEERS[:4])]


def gen_pdu(rng, layout, own, target, peers):
    """a received PDU and a label; 70 % a CONNECT_IND with at most one field off, the rest boundary / junk"""
    init = rng.choice(peers + ([target] if target else []))
    r = rng.random()
    if r < 0.30:
        return A.connect_ind(layout, init, own, rng, hi0=rng.choice([0, 0, 0x10, 0x30]), hi1=rng.choice([0, 0, 0x40, 0xc0]))
    if r < 0.36:
        return A.connect_ind(layout, init, own, rng, ptype=rng.randrange(16))
    if r < 0.43:
        return A.connect_ind(layout, init, own, rng, length=rng.choice([33, 35, 0, 12, 63, 2]))
    if r < 0.50:
        p = A.connect_ind(layout, init, own, rng)
        return p[:-1] if rng.random() < 0.5 else p + bytes([rng.randrange(256)])
    if r < 0.58:
        return A.connect_ind(layout, init, A.mutate_addr(own, rng), rng)
    if r < 0.64:
        return A.connect_ind(layout, init, own, rng, rx=(own[12] != "r"))
    if r < 0.70:
        return A.connect_ind(layout, init, own, rng, tx=(init[12] != "r"))
    if r < 0.76:
        return A.connect_ind(layout, A.mutate_addr(init, rng), own, rng)
    if r < 0.84:
        return A.scan_req(layout, init, own, ptype=rng.choice([3, 3, 5, 4]), length=rng.choice([12, 12, 34, 11]))
    if r < 0.90:
        n = rng.choice([0, 1, 2, 3, 4, 13, 14, 15, 35, 36, 37, 38])
        return bytes(rng.randrange(256) for _ in range(n))
    p = bytearray(A.connect_ind(layout, init, own, rng))
    p[rng.randrange(len(p))] ^= 1 << rng.randrange(8)
    return bytes(p)


def predicts_accept(sim, layout, own, filt, target, p):
    """the generator's own guess (only used to keep the trace inside the supported usage)"""
    t = sim.types[sim.sel] if sim.sel < len(sim.types) else "n"
    off = 3 if layout == "nrf" else 2
    if t not in "ud" or len(p) != off + 34 or p[0] & 15 != 5 or p[1] & 63 != 34:
        return False
    ob, orand = A.addr_bytes(own)
    if p[off + 6:off + 12] != ob or bool(p[0] & 0x80) != orand:
        return False
    init = p[off:off + 6].hex() + ("r" if p[0] & 0x40 else "p")
    if t == "d" and (not sim.dvalid or init != target):
        return False
    return filt == "all" or (filt.startswith("wl:") and init in filt[3:].split(","))


def gen_case(rng, cfg, n, own, filt, scan_ok):
    w = cfg.split()
    sim = A.Sim(["C25"] + w)
    layout = w[4]
    ops = []
    target = None
    peers = A.PEERS[:4] + ([A.PEERS[5]] if rng.random() < 0.2 else [])

    def emit(o, kind=None):
        ops.append(o)
        sim.op(kind or o)

    if "d" in sim.types and rng.random() < 0.85:
        target = rng.choice(peers)
        emit("daddr " + target)
    if sim.multi and rng.random() < 0.5:
        emit("chg %d" % rng.randrange(len(sim.types)))
    emit("lstart")
    if sim.manual:
        emit("start")
    while len(ops) < n:
        r = rng.random()
        if r < 0.70 and sim.pending > 0:
            if sim.multi and rng.random() < 0.3:
                # change_advertising<>() between the PDU on air and the request that answers it
                emit("chg %d" % rng.randrange(len(sim.types)))
            p = gen_pdu(rng, layout, own, target, peers)
            if predicts_accept(sim, layout, own, filt, target, p):
                emit("rx " + A.hexs(p), "rxacc")
                emit("lstop")
                emit("lstart")
                if sim.manual:
                    emit("start")
            else:
                emit("rx " + A.hexs(p), "rxrej")
        elif r < 0.78:
            p = gen_pdu(rng, layout, own, target, peers)
            emit(("connreq " if rng.random() < 0.5 or not scan_ok else "scanreq ") + A.hexs(p))
        elif r < 0.83 and scan_ok:
            emit("scanreq " + A.hexs(A.scan_req(layout, rng.choice(peers), rng.choice([own, own, A.mutate_addr(own, rng)]),
                                                ptype=rng.choice([3, 3, 3, 5, 19 & 15]), length=rng.choice([12, 12, 12, 13, 11, 34, 12 + 64]),
                                                hi0=rng.choice([0, 0x20]), hi1=rng.choice([0, 0x80]))))
        elif r < 0.88 and sim.multi:
            emit("chg %d" % rng.randrange(len(sim.types)))
        elif r < 0.93 and "d" in sim.types:
            target = rng.choice(peers + ["000000000000r"])
            emit("daddr " + target)
            if target == "000000000000r":
                target = None
        elif r < 0.96:
            emit("dchg")
        elif sim.pending > 0:
            emit("to")
        else:
            emit("lstart")
            if sim.manual:
                emit("start")
    return ops


def boundary_cases(cfgs, scan_ok):
    """every PDU type x (memory size, length field) around 34 and 12, for every configuration"""
    cases = []
    for cfg in cfgs:
        w = cfg.split()
        layout = w[4]
        for own in (A.OWN, A.OWN_P):
            ops = ["daddr " + A.PEERS[0]] if "d" in w[0] else []
            ops += ["lstart"] + (["start"] if w[1] == "manual" else [])
            good = A.connect_ind(layout, A.PEERS[0], own)
            for t in range(16):
                ops.append("rx " + A.hexs(A.connect_ind(layout, A.PEERS[0], own, ptype=t)))
            for ln in (33, 34, 35):
                for d in (-1, 0, 1):
                    p = A.connect_ind(layout, A.PEERS[0], own, length=ln)
                    p = p[:-1] if d < 0 else (p + b"\x00" if d > 0 else p)
                    ops.append("rx " + A.hexs(p))
            for i in range(len(good)):          # one bit flipped in every byte
                p = bytearray(good)
                p[i] ^= 0x01
                ops.append("connreq " + A.hexs(bytes(p)))
            if scan_ok:
                sgood = A.scan_req(layout, A.PEERS[0], own)
                for t in range(16):
                    ops.append("scanreq " + A.hexs(A.scan_req(layout, A.PEERS[0], own, ptype=t)))
                for i in range(len(sgood)):
                    p = bytearray(sgood)
                    p[i] ^= 0x80
                    ops.append("scanreq " + A.hexs(bytes(p)))
                for n in range(0, 16):
                    ops.append("scanreq " + A.hexs(sgood[:n]))
            for n in (0, 1, 2, 3):
                ops.append("rx " + A.hexs(good[:n]))
                ops.append("connreq " + A.hexs(good[:n]))
            cases.append(Case("bnd", ["C25"] + w + [own, "all"], ops))
    return cases


def type_change_cases(cfgs):
    """multi type advertiser: for every ordered pair (a, b) of its types, a PDU of type a is on air,
    change_advertising< b >() is called, then a CONNECT_IND arrives (from the directed target / from
    another initiator / not addressed to us): it must be judged against a, and the next PDU is of type b"""
    cases = []
    for cfg in cfgs:
        w = cfg.split()
        types = w[0].split(",") if w[0] != "-" else []
        if len(types) < 2:
            continue
        layout = w[4]
        target, other = A.PEERS[0], A.PEERS[3]
        pdus = [A.connect_ind(layout, target, A.OWN), A.connect_ind(layout, other, A.OWN),
                A.connect_ind(layout, target, A.mutate_addr(A.OWN, __import__("random").Random(7)))]
        for ia in range(len(types)):
            for ib in range(len(types)):
                for n, p in enumerate(pdus):
                    ops = (["daddr " + target] if "d" in types else []) + ["chg %d" % ia, "lstart"]
                    ops += (["start"] if w[1] == "manual" else [])
                    ops += ["chg %d" % ib, "rx " + A.hexs(p), "to", "rx " + A.hexs(p)]
                    cases.append(Case("chg_%s%s_%d" % (types[ia], types[ib], n), ["C25"] + w + [A.OWN, "all"], ops))
    return cases


class C25(Standard):
    component = "Adv"
    harness = "adv_harness.cpp"
    trusted_base = ["model of advertising.hpp in coq/Adv/AdvModel.v (hand written, tied by this correspondence run)",
                    "stub link layer of harness/adv_harness.cpp in place of link_layer<>; its is_connection_request_in_filter is a scripted set (the white list itself is C26)",
                    "the text of nrf_details::encrypted_pdu_layout is cut out of nrf.hpp by props/adv_common.py (nrf.h is not available on the host)"]
    assumptions = ["adv_received is delivered only for an outstanding advertisement",
                   "the connection filter is an arbitrary function of the initiator's address (oracle)",
                   "link_layer::adv_received's channel map / hop / timing checks are not part of this check (LL component)",
                   "is_valid_scan_request is exercised only when it can be instantiated (it cannot on the unrepaired tree)"]

    def cfgs(self, ctx):
        return QUICK_CFGS + (MORE_CFGS if ctx.thorough else [])

    def prepare(self, ctx, cases):
        return A.prepare(ctx, cases)

    def generate(self, ctx):
        rng = ctx.rng
        scan_ok = A.scan_predicate_compiles(ctx)
        cfgs = self.cfgs(ctx)
        cases = boundary_cases(cfgs, scan_ok) + type_change_cases(cfgs)
        per = 50 if not ctx.thorough else 500
        for cfg in cfgs:
            for k in range(per):
                own = A.OWN if rng.random() < 0.6 else A.OWN_P
                filt = rng.choice(FILTERS)
                cases.append(Case("rnd", ["C25"] + cfg.split() + [own, filt], gen_case(rng, cfg, rng.choice([12, 30, 60]), own, filt, scan_ok)))
        return cases

    def search_extra(self, ctx):
        rng = ctx.rng
        scan_ok = A.scan_predicate_compiles(ctx)
        return [Case("s", ["C25"] + cfg.split() + [A.OWN, f], gen_case(rng, cfg, 60, A.OWN, f, scan_ok))
                for cfg in self.cfgs(ctx) for f in FILTERS for _ in range(25)]

    def nontrivial(self, case, outputs):
        # some PDU got past the size / type / length checks: it was accepted, or it was a well-formed
        # CONNECT_IND for us that was rejected for its addresses / the filter (approximated by: a
        # CONNECT_IND of the right size was received)
        if any(o.startswith("acc ") for o in outputs):
            return True
        off = 3 if case.cfg[5] == "nrf" else 2
        return any(o.startswith("rx ") and len(o) - 3 == 2 * (off + 34) and int(o[3:5], 16) & 15 == 5 for o in case.ops)


def run(ctx):
    return standard_check(ctx, C25())
