"""C18 PDU ring buffers keep PDUs intact and in FIFO order (ring_buffer.hpp, both PDU layouts)"""
from vlib.core import Standard, Case, standard_check, VERIF, REPO
import hashlib, os

SIZES = [29, 30, 40, 61, 100, 300, 600]
EXHAUSTIVE_SIZES = [13, 29, 40]          # thorough tier: all disciplined sequences to a small depth
OVH = {"default": 0, "nrf": 1}


class Sim:
    """what the generator believes about the ring (used only to aim operations at the boundaries
    of the comparisons in alloc_front / push_front / pop_end; never used to judge anything)"""

    def __init__(self, size, o):
        self.size, self.o, self.front, self.end, self.fifo, self.last = size, o, 0, 0, [], None

    def alloc(self, n):
        f, e, r = self.front, self.end, None
        if e > f and n < e - f:
            r = f
        elif f >= e:
            if n <= self.size - f:
                r = f
            elif n < e:
                r = 0
        if r is not None:
            self.last = (r, n)
        return r

    def push(self, L):
        off, ln = self.last[0], 2 + self.o + L
        if self.front == self.end:
            self.end = off
        self.front = off + ln
        self.fifo.append((off, ln))
        self.last = None

    def pop(self):
        off, ln = self.fifo.pop(0)
        self.end = self.fifo[0][0] if self.fifo else off + ln

    def boundary_sizes(self):
        f, e, s = self.front, self.end, self.size
        c = [s - f - 1, s - f, s - f + 1, e - 1, e, e + 1, e - f - 1, e - f, e - f + 1, s - 1, s, s + 1, 3 + self.o, 4 + self.o,
             (s + 1) // 2, (s + 1) // 2 + 1]
        return [x for x in c if x >= 2 + self.o]


def hexb(bs):
    return "".join("%02x" % b for b in bs) if bs else "-"


def pdu_bytes(rng, o, L, full=True):
    n = 2 + o + L if full else rng.choice([2, 2, 3, 2 + o + L // 2])
    b = [rng.randrange(256) for _ in range(n)]
    b[1] = L
    return b


class Gen:
    def __init__(self, rng, size, layout, max_mem=255):
        self.rng, self.size, self.o = rng, size, OVH[layout]
        self.sim = Sim(size, self.o)
        self.ops = []
        self.max_mem = max_mem      # largest in-memory PDU size used

    def observe(self, p=0.5):
        r = self.rng.random()
        if r < p:
            self.ops.append("peek")
        if r < p / 2:
            self.ops.append("more")
        if r < 0.04:
            self.ops.append("dump")
        if r < 0.08:
            self.ops.append("st")

    def consume(self, k=1):
        for _ in range(k):
            if not self.sim.fifo:
                return
            if self.rng.random() < 0.7:
                self.ops.append("peek")
            self.ops.append("pop")
            self.sim.pop()
            self.observe(0.3)

    def produce(self, n, L=None, interleave=0.3, full=None):
        """alloc n; (pops); write; (pops); push"""
        rng, sim, o = self.rng, self.sim, self.o
        self.ops.append("alloc %d" % n)
        if sim.alloc(n) is None:
            return False
        if rng.random() < 0.15:
            self.ops.append("alloc %d" % n)          # alloc_front is idempotent
        room = min(n - 2 - o, 255, self.max_mem - 2 - o)
        if room < 1:
            return False
        if L is None:
            L = rng.choice([1, room, room, rng.randint(1, room), rng.randint(1, room)])
        L = max(1, min(L, room))
        if rng.random() < interleave:
            self.consume(rng.randint(1, 3))
        b = pdu_bytes(rng, o, L, rng.random() < 0.8 if full is None else full)
        if rng.random() < 0.3 and len(b) > 4:            # write in two pieces, body first
            k = rng.randint(2, len(b) - 1)
            self.ops.append("w %d %s" % (k, hexb(b[k:])))
            self.ops.append("w 0 %s" % hexb(b[:k]))
        else:
            self.ops.append("w 0 %s" % hexb(b))
        if rng.random() < interleave:
            self.consume(rng.randint(1, 3))
        self.ops.append("push")
        sim.push(L)
        self.observe()
        return True


def gen_random(rng, size, layout, nops, safe):
    """structured-valid walk. safe: allocation sizes n with Size >= 2n (the empty ring never refuses,
    so the known finding cannot end the monitor's judgement early)"""
    g = Gen(rng, size, layout)
    o = g.o
    cap = size // 2 if safe else size
    cap = max(cap, 3 + o)
    client = rng.random() < 0.4          # like ll_data_pdu_buffer: always allocate the maximum size
    M = rng.randint(3 + o, min(cap, 258 if size > 258 else cap))
    fill = rng.random()
    while len(g.ops) < nops:
        r = rng.random()
        if r < 0.45 + 0.3 * (fill < 0.5):
            if client:
                n = M
            elif rng.random() < 0.35:
                bs = [x for x in g.sim.boundary_sizes() if x <= cap]
                n = rng.choice(bs) if bs else 3 + o
            else:
                n = rng.randint(3 + o, min(cap, 3 + o + rng.choice([4, 20, 60, 255])))
            g.produce(n)
        elif r < 0.9:
            g.consume(rng.randint(1, 2))
        elif r < 0.93 and not g.sim.fifo:
            g.ops.append("reset")
            g.sim = Sim(size, o)
        else:
            g.observe(1.0)
        if rng.random() < 0.05:
            fill = rng.random()
    g.consume(len(g.sim.fifo) if rng.random() < 0.5 else 0)
    g.ops += ["peek", "more", "st", "dump"]
    return g.ops


def gen_boundary(rng, size, layout, variant):
    """aimed at the case splits of the invariant proof: exact fit at the end of the storage, front
    landing on Size-3 .. Size (wrap mark written or not), wrap with one byte gap, ring emptied
    between alloc and push, split ring filled up to end-1. The last operations of a case try the
    first size that must be refused (n = end for a wrap, n = end - front in a split ring,
    n = Size - front + 1 at the end) and commit a PDU filling it in case it was handed out."""
    g = Gen(rng, size, layout)
    o, sim = g.o, g.sim
    small = 3 + o
    half = max(small, min(size // 2, 255))
    full = lambda n: g.produce(n, n - 2 - o, interleave=0, full=True)
    # 1. bring front to size - d
    d = variant % 4
    target = size - d
    while sim.front < target and not (sim.end > sim.front):
        rest = target - sim.front
        n = rest if small <= rest <= half else min(half, rest - small)
        if n < small or not full(n):
            break
        if len(sim.fifo) > 2:
            g.consume(1)
    g.ops.append("st")
    # 2. free the oldest PDUs (all of them in every fifth case: front = end = k)
    kind = (variant // 4) % 3
    if variant % 5 == 4:
        g.consume(len(sim.fifo))
    else:
        g.consume(max(0, len(sim.fifo) - 1 - (variant // 2) % 2))
    for n in sorted(set(sim.boundary_sizes()), reverse=bool(variant % 2))[:6]:
        g.ops.append("alloc %d" % n)
    # 3. wrap (largest size that fits: one byte gap), optionally with the ring emptied meanwhile
    e = sim.end
    if variant % 3 != 0 and sim.front >= e and e - 1 >= small and size - sim.front < e - 1:
        n = min(e - 1, 255)
        if (variant // 2) % 2 == 0 and kind != 1 and e - 1 >= 3 * small:
            n = min((e - 1) // 2, 255)                        # leave room below end for the split-ring probes
        if kind == 1:
            g.ops.append("alloc %d" % n)
            if sim.alloc(n) is not None:
                L = n - 2 - o
                g.ops.append("w 0 %s" % hexb(pdu_bytes(rng, o, L)))
                g.consume(len(sim.fifo))                      # ring emptied between alloc and push
                g.ops += ["st", "push"]
                sim.push(L)
        else:
            full(n)
        g.ops += ["st", "peek", "more"]
        # split ring: fill the gap below end, one byte must stay free
        if sim.end > sim.front:
            gap = sim.end - sim.front
            # either the largest size that fits, or a part of it (the tail then probes the rest)
            n = min(gap - 1, 255) if (variant // 2) % 2 or gap - 1 < 2 * small else (gap - 1) // 2
            if n >= small and full(n):
                g.ops += ["peek", "more"]
    g.ops += ["dump", "st"]
    # 4. the first size that must be refused
    f, e = sim.front, sim.end
    tail = variant % 3
    if e > f:
        n = e - f
    elif tail == 0 and e >= small:
        n = e
    else:
        n = size - f + 1
    if small <= n <= 257:
        g.ops.append("alloc %d" % n)
        if sim.alloc(n) is None:
            # nothing may be handed out; if something is, commit a PDU that fills it (only the header
            # is written: on a correct ring these operations hit the stale previous region and are
            # outside the discipline, they are kept few and short)
            g.ops += ["w 0 %s" % hexb([rng.randrange(256), n - 2 - o]), "push", "st", "peek", "more"]
            return g.ops
    g.consume(len(sim.fifo))
    g.ops += ["peek", "more", "st", "alloc %d" % small, "alloc %d" % half, "alloc %d" % (size - 1), "alloc %d" % size, "alloc %d" % (size + 1)]
    return g.ops


def gen_big(rng, size, layout):
    """in-memory sizes around 256 (payload 250..255): the 8 bit pdu_length overload"""
    g = Gen(rng, size, layout, max_mem=258)
    o = g.o
    for _ in range(rng.randint(1, 4)):
        L = rng.choice([250, 251, 252, 253, 254, 255])
        n = 2 + o + L + rng.choice([0, 0, 1, 5])
        if rng.random() < 0.5 and g.sim.fifo:
            g.consume(1)
        if not g.produce(n, L, interleave=0.2, full=rng.random() < 0.5):
            g.consume(len(g.sim.fifo))
        g.ops += ["peek", "more", "st"]
        if rng.random() < 0.5:
            g.produce(rng.randint(3 + o, 40), None)
    g.consume(len(g.sim.fifo))
    g.ops += ["peek", "st"]
    return g.ops


def gen_malformed(rng, size, layout):
    """histories that leave the documented preconditions; only the correspondence model =
    implementation is checked on them (the monitor stops judging at the first such operation).
    Kept short after the offending operation so that everything stays deterministic."""
    g = Gen(rng, size, layout)
    o = g.o
    for _ in range(rng.randint(0, 3)):
        g.produce(rng.randint(3 + o, max(3 + o, min(size // 3, 60))), None, interleave=0.3)
    k = rng.randrange(8)
    if k == 0:
        g.ops.append("alloc %d" % rng.randint(0, 1 + o))                 # assert in alloc_front
    elif k == 1:
        g.consume(len(g.sim.fifo))
        g.ops += ["st", "pop"]                                             # pop_end on an empty ring
    elif k == 2:
        g.ops += ["alloc %d" % (5 + o), "w 0 %s" % hexb([3, 0, 1, 2, 3, 4]), "push"]   # length field 0
    elif k == 3:
        g.ops += ["alloc %d" % (4 + o), "w 0 %s" % hexb([1, 9]), "push"]    # region smaller than the PDU: assert
    elif k == 4:
        n = 6 + o
        g.ops.append("alloc %d" % n)
        off = g.sim.alloc(n)
        if off is not None:
            g.ops += ["w 0 %s" % hexb([1, 2, 7, 7, 7]), "push", "pushabs %d %d" % (off, n)]   # committed twice
    elif k == 5:
        g.ops += ["wabs %d %s" % (size - 1, hexb([1, 2, 3]))]              # user write beyond the storage
    elif k == 6:
        g.ops += ["alloc %d" % (8 + o), "w 0 %s" % hexb([1, 3, 7, 7, 7, 7]), "pushn %d" % (3 + o)]   # size smaller than the PDU
    else:
        g.ops += ["alloc %d" % (8 + o), "w 0 %s" % hexb([1, 3, 7, 7, 7, 7]), "push", "reset"]       # reset of a non empty ring
    g.ops += ["st", "peek", "more"]
    return g.ops


def exhaustive(size, layout, depth):
    """all disciplined sequences of `depth` macro operations over a small alphabet"""
    o = OVH[layout]
    sizes = sorted(set([3 + o, (size + 1) // 2, size // 3 + 1]))
    out = []

    def rec(sim, ops, d, seq):
        if d == 0:
            out.append(ops + ["st", "dump"])
            return
        for n in sizes:                                   # allocate n, commit a PDU that fills it
            s2 = Sim(size, o)
            s2.front, s2.end, s2.fifo = sim.front, sim.end, list(sim.fifo)
            line = ["alloc %d" % n]
            if s2.alloc(n) is not None:
                L = n - 2 - o
                line += ["w 0 %s" % hexb([(seq * 7 + i) % 251 if i != 1 else L for i in range(n)]), "push", "peek", "more"]
                s2.push(L)
            rec(s2, ops + line, d - 1, seq + 1)
        if sim.fifo:
            s2 = Sim(size, o)
            s2.front, s2.end, s2.fifo = sim.front, sim.end, list(sim.fifo)
            s2.pop()
            rec(s2, ops + ["pop", "peek", "more"], d - 1, seq + 1)
    rec(Sim(size, o), [], depth, 1)
    return out


class C18(Standard):
    component = "PduRing"
    harness = "pduring_harness.cpp"
    trusted_base = ["model of ring_buffer.hpp in coq/PduRing/PduRingModel.v (hand written, tied by this correspondence run)",
                    "gen/consts/pduring.py (layout overheads and the width of pdu_length( const P& ) read from the sources)",
                    "harness/pduring_nrf/nrf.h (stand-in for the vendor header, declarations only)"]
    assumptions = ["single context: ring operations are not interleaved at a finer grain than one call (the clients lock)",
                   "operation discipline of DESIGN.md 12.1: writes only inside the latest allocated region, push_front of the latest allocation with a length field L >= 1 written since the allocation and size >= L + 2 + overhead, pop_end only on a non-empty ring, reset only on an empty ring",
                   "the clients' in-place changes of header byte 0 of a live PDU (sn/nesn/md flags, ll_data_pdu_buffer) are not ring operations and not modelled here (C15-C17)"]

    def configs(self, ctx):
        cfgs = [(s, l, "rb") for s in SIZES for l in ("default", "nrf")]
        cfgs += [(29, "default", "wb"), (61, "nrf", "wb"), (300, "default", "wb")]
        if ctx.thorough:
            cfgs += [(s, l, "rb") for s in EXHAUSTIVE_SIZES for l in ("default", "nrf") if s not in SIZES]
            cfgs += [(s, l, "wb") for s in (30, 40, 100, 600) for l in ("default", "nrf")]
        return cfgs

    def prepare(self, ctx, cases):
        """groups of configurations sharing one compiled harness; a configuration that is already part
        of a compiled group (shrinking, search) is run on that binary again"""
        known = self.__dict__.setdefault("cfg_group", {})
        cfg_of = lambda c: tuple((c.cfg + ["default", "rb"])[:3]) if len(c.cfg) < 3 else tuple(c.cfg[:3])
        used = sorted(set(cfg_of(c) for c in cases), key=lambda t: (t[0].zfill(6), t[1], t[2]))
        new = [u for u in used if u not in known]
        ngroups = 4 if len(new) > 6 else 1
        for gi in range(ngroups):
            part = new[gi::ngroups]
            if not part:
                continue
            key = "pduring_" + hashlib.sha1(";".join(" ".join(p) for p in part).encode()).hexdigest()[:10]
            d = os.path.join(ctx.bdir, key + ".d")
            os.makedirs(d, exist_ok=True)
            with open(os.path.join(d, "pduring_configs.inc"), "w") as f:
                f.write("".join("CFG( %s, %s, %s )\n" % p for p in part))
            extra = ["-I" + d, "-I" + os.path.join(VERIF, "harness", "pduring_nrf"),
                     "-I" + os.path.join(REPO, "bluetoe", "bindings", "nordic", "include")]
            for p in part:
                known[p] = (key, extra)
        groups = {}
        for c in cases:
            key, extra = known[cfg_of(c)]
            groups.setdefault(key, (key, extra, []))[2].append(c)
        return list(groups.values())

    def generate(self, ctx):
        rng = ctx.rng
        cases = []
        per = 14 if not ctx.thorough else 400
        for (s, l, b) in self.configs(ctx):
            cfg = [str(s), l, b]
            for v in range(8 if not ctx.thorough else 40):
                cases.append(Case("boundary", cfg, gen_boundary(rng, s, l, v)))
            for k in range(per):
                cases.append(Case("rnd", cfg, gen_random(rng, s, l, rng.choice([10, 25, 60, 150]), safe=rng.random() < 0.75)))
            if s > 258:
                for k in range(3 if not ctx.thorough else 60):
                    cases.append(Case("big", cfg, gen_big(rng, s, l)))
            for k in range(2 if not ctx.thorough else 50):
                cases.append(Case("malformed", cfg, gen_malformed(rng, s, l)))
        if ctx.thorough:
            for s in EXHAUSTIVE_SIZES:
                for l in ("default", "nrf"):
                    for ops in exhaustive(s, l, 8 if s < 20 else 7):
                        cases.append(Case("exh", [str(s), l, "rb"], ops))
        return cases

    def search_extra(self, ctx):
        rng = ctx.rng
        cases = []
        for (s, l, b) in self.configs(ctx):
            cfg = [str(s), l, b]
            for v in range(40):
                cases.append(Case("s", cfg, gen_boundary(rng, s, l, v)))
            for k in range(150):
                cases.append(Case("s", cfg, gen_random(rng, s, l, rng.choice([25, 60, 150]), safe=rng.random() < 0.75)))
            if s > 258:
                for k in range(20):
                    cases.append(Case("s", cfg, gen_big(rng, s, l)))
        return cases

    def nontrivial(self, case, outputs):
        # at least one PDU went through the ring: committed and later returned by next_end
        return any(o.startswith("c ") for o in outputs) and any(o.startswith("p ") for o in outputs)


META = dict(
    text="C18 PDU ring buffers keep PDUs intact and in FIFO order",
    level_note="unbounded Coq proof (representation invariant + refinement to a FIFO) for every Size >= 2, every layout overhead and every operation sequence inside the documented preconditions; completeness of alloc_front on an EMPTY ring is refuted (known finding) and proved under Size >= 2n",
    design_ref="DESIGN.md section 6 C18, appendix 12.1; docs/C18.md",
    technique="Coq model + machine-checked theorems; extracted-model / C++ implementation correspondence")


def run(ctx):
    return standard_check(ctx, C18())
