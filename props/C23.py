"""C23 Peripheral latency skips only permitted events (link_layer/include/bluetoe/peripheral_latency.hpp)"""
from vlib.core import Standard, Case, standard_check, run_model, BUILD
import hashlib, itertools, os

META = dict(
    text="Peripheral latency skips only permitted events: with any latency configuration the planned skip s is in "
         "1 .. latency+1, s = 1 whenever an enabled listen condition held or an error occurred, a pending instant is never "
         "skipped, event counter (mod 2^16) and channel index (mod 37) advance by the same number of events through "
         "planning, timeout planning and the pull-back on pending data, and a pull-back never goes past the last event",
    level_note="unbounded Coq proof over all option lists (superset of the 33 legal feature sets and of all configuration "
               "sets), all 16-bit latencies below 65535, all event flags, instants, intervals and all histories of "
               "reset / plan / timeout / reschedule / raw move / configuration change calls: the executable monitor accepts "
               "every trace of the model; asserts of delta_time / move are modelled as faults and proved absent under the "
               "callers' preconditions. Latency 65535 (uint16 wrap to a skip of 0; the link layer only passes <= 499) is a "
               "recorded boundary finding. Tie: peripheral_latency_state<> instantiated for all 33 legal feature sets and 9 "
               "configuration sets",
    design_ref="DESIGN.md section 6, C23; docs/C23.md",
    technique="Coq model + simulation proof against an executable spec monitor (induction over operation lists, linear "
              "arithmetic over mod 2^16 / mod 37 / 32-bit microseconds); extracted model vs C++ differential correspondence")

OPTS = "012345"
# the legal feature sets: the static_assert of peripheral_latency_state<> forbids listen_always (5) next to anything else
SINGLES = ["c:" + ("".join(s) or "-") for n in range(6) for s in itertools.combinations("01234", n)] + ["c:5"]
assert len(SINGLES) == 33
# configuration sets (members are not instantiated, so 05 is accepted there); named: ignored=5 strict=04 strict_plus=24 default=01234
SETS = ["s:5/24", "s:04/24/5/01234", "s:-/0", "s:0/04", "s:1/2/3", "s:05/5", "s:04", "s:24/04/24", "s:01234/-/5/3"]
NAMED = ["c:5", "c:04", "c:24", "c:01234"]

TWO16, TWO32 = 65536, 1 << 32


def members(cfg):
    body = cfg[2:]
    return [("" if m == "-" else m) for m in (body.split("/") if cfg[0] == "s" else [body])]


def cxx_conf(m):
    return "conf< %s >" % ", ".join("o" + d for d in m) if m else "conf<>"


def registration(cfg):
    ms = members(cfg)
    if cfg[0] == "c":
        return 'reg< %s >( "%s" );\n' % (cxx_conf(ms[0]), cfg)
    return 'reg_set< %s >( "%s" );\n' % (", ".join(cxx_conf(m) for m in ms), cfg)


class Shadow:
    """follows the event counter well enough to aim instants and pull-backs at the boundaries
    (generator aid only; nothing is judged with it)"""

    def __init__(self, cfg):
        self.ms, self.cur, self.c, self.s, self.t = members(cfg), 0, 0, 1, 0

    def feat(self, f):
        return f in self.ms[self.cur if self.cur < len(self.ms) else 0]

    def plan(self, lat, flags, iv, pend, inst):
        listen = any(self.feat(f) and flags[i] == "1" for f, i in (("1", 0), ("2", 1), ("3", 2), ("4", 3), ("0", 4)))
        listen = listen or self.feat("5") or flags[5] == "1"
        s = ((0 if listen else lat) + 1) % TWO16
        if pend:
            d = (inst - self.c) % TWO16
            if d:
                s = min(s, d)
        self.c, self.s, self.t = (self.c + s) % TWO16, s, s * iv


def flags(rng, p=0.12):
    return "".join("1" if rng.random() < p else "0" for _ in range(6))


def gen_history(rng, cfg, n, style):
    """style: valid (link layer like), boundary, wild"""
    sh = Shadow(cfg)
    nset = len(sh.ms) if cfg[0] == "s" else 0
    lat = rng.choice([0, 1, 4, 499, 499, rng.randrange(500), rng.randrange(500)])
    iv = rng.choice([7500, 30000, 1250 * rng.randrange(6, 3201), 4000000])
    if style == "boundary":
        lat = rng.choice([0, 1, 4, 36, 37, 73, 498, 499, 500, 65534, 65533])
        iv = rng.choice([1, 2, 7500, 4000000, 65535, 65536]) if lat > 499 else rng.choice([0, 1, 2, 7500, 4000000, 8589934, 8589935, TWO32 - 1])
    ops = []
    r0 = rng.random()
    if r0 < 0.25:       # start near the 16-bit wrap: raw move with a zero interval costs no time
        k = rng.choice([1, 2, 3, 36, 37, 38, 300, 499])
        ops.append("move -%d 0" % k)
        sh.c = (sh.c - k) % TWO16
    elif r0 < 0.35 and style != "valid":     # or through one huge skip
        ops.append("plan 65534 000000 %d 0 0" % rng.choice([1, 2, 65535]))
        sh.c, sh.s = 65535, 65535
    for _ in range(n):
        r = rng.random()
        wild = style == "wild" and rng.random() < 0.5
        if r < 0.55:
            l = lat if not wild else rng.choice([rng.randrange(65535), 65534, 500, 0])
            i = iv if not wild else rng.choice([rng.getrandbits(32), rng.getrandbits(12), 0, 1])
            f = flags(rng, rng.choice([0.0, 0.05, 0.15, 0.5]))
            pend = rng.random() < (0.45 if style != "valid" else 0.25)
            # instants around every comparison: c, c+1, c+s-1, c+s, c+s+1, c-1, c+32767/8, far
            s_free = (l + 1) % TWO16
            off = rng.choice([0, 1, 2, s_free - 1, s_free, s_free + 1, -1, -2, 32767, 32768, 6, rng.randrange(TWO16)])
            inst = (sh.c + off) % TWO16
            ops.append("plan %d %s %d %d %d" % (l, f, i, 1 if pend else 0, inst))
            sh.plan(l, f, i, pend, inst)
        elif r < 0.68:
            ops.append("tmo %d" % (iv if not wild else rng.choice([rng.getrandbits(32), 0, iv])))
            sh.c = (sh.c + 1) % TWO16
        elif r < 0.86:
            i = iv if not wild else rng.choice([0, 1, rng.getrandbits(32), iv])
            k = rng.randrange(0, sh.s + 2)
            t = max(0, k * i + rng.choice([0, 0, 1, -1, i // 2, -(i // 2)]))
            if wild and rng.random() < 0.3:
                t = rng.choice([rng.getrandbits(32), TWO32 - 1, TWO32 - i, 0])
            ops.append("resched %d %d %d" % (0 if rng.random() < 0.12 else 1, min(t, TWO32 - 1), i))
        elif r < 0.92:
            if style == "valid" or rng.random() < 0.7:
                m = rng.randrange(0, max(1, min(sh.s, 500)))
                ops.append("move %d %d" % (-m, iv))
            else:
                ops.append("move %d %d" % (rng.choice([1, -499, -500, -1, 0, -37, -36, -38, 2, -518, -519]), rng.choice([0, iv, 1])))
        elif r < 0.95 and nset:
            ops.append("change %d" % rng.randrange(nset + (1 if rng.random() < 0.1 else 0)))
        elif r < 0.97:
            ops.append("reset")
            sh.c, sh.s = 0, 1
        else:
            ops.append("plan %d 000000 %d 0 0" % (lat, iv))
            sh.plan(lat, "000000", iv, False, 0)
    return ops


def boundary_cases(cfg):
    """deterministic families: every flag alone x latency 0/1/4/499; instants at every distance around the
    free skip, at and across the counter wrap; pull-backs at every interval boundary"""
    cs = []
    iv = 7500
    for lat in (0, 1, 4, 499):
        ops = []
        for i in range(6):
            ops.append("plan %d %s %d 0 0" % (lat, "".join("1" if j == i else "0" for j in range(6)), iv))
        ops.append("plan %d 000000 %d 0 0" % (lat, iv))
        ops.append("plan %d 111110 %d 0 0" % (lat, iv))
        cs.append(Case("flags", [cfg], ops))
    for start in (0, 65535 - 2, 65535 - 500):
        for lat in (4, 499):
            back = (TWO16 - start) % TWO16
            ops = ["move -%d 0" % min(back, 499)] + (["move -%d 0" % (back - 499)] if back > 499 else []) if start else []
            c = start
            for off in (0, 1, 2, lat, lat + 1, lat + 2, 65535, 32768):
                ops.append("plan %d 000000 %d 1 %d" % (lat, iv, (c + off) % TWO16))
                s = lat + 1 if off == 0 else min(lat + 1, off)
                c = (c + s) % TWO16   # for the feature sets that do not listen anyway; only aims the next instant
            cs.append(Case("instants", [cfg], ops))
    for lat in (1, 4, 499):
        ops = []
        for k, d in ((0, 0), (1, -1), (1, 0), (1, 1), (2, 0), (lat, 0), (lat, 1), (lat + 1, 0), (lat + 2, 5)):
            ops += ["plan %d 000000 %d 0 0" % (lat, iv), "resched 1 %d %d" % (max(0, k * iv + d), iv), "resched 1 0 %d" % iv]
        ops += ["plan %d 000000 %d 0 0" % (lat, iv), "tmo %d" % iv, "resched 1 %d %d" % ((lat + 1) * iv + 100, iv),
                "plan %d 000000 %d 0 0" % (lat, iv), "tmo %d" % iv, "tmo %d" % iv, "resched 0 0 %d" % iv, "resched 1 %d %d" % ((lat + 2) * iv, iv)]
        cs.append(Case("pullback", [cfg], ops))
    return cs


def nontrivial(outputs):
    prev = 0
    for o in outputs:
        w = o.split()
        if len(w) != 5:
            continue
        if w[0] == "1" or (int(w[1]) - prev) % TWO16 > 1:
            return True
        prev = int(w[1])
    return False


def limit_faults(cases, quota):
    """Every assert that fires costs a fresh harness process. The extracted model tells where a history
    runs into one; only `quota` histories keep their faulting operation, the others are cut just
    before it (generator aid only: the implementation is still compared on every remaining op)."""
    binary = os.path.join(BUILD, "btmodel_latency")
    if not os.path.exists(binary):
        return cases
    names = [c.name for c in cases]
    for i, c in enumerate(cases):
        c.name = "g%d" % i
    outs = run_model(binary, cases, "model")
    kept = 0
    for c in cases:
        o = outs.get(c.name, [])
        if "FAULT" in o:
            if kept < quota:
                kept += 1
            else:
                c.ops = c.ops[:o.index("FAULT")]
    for c, n in zip(cases, names):
        c.name = n
    return [c for c in cases if c.ops]


class C23(Standard):
    component = "Latency"
    harness = "latency_harness.cpp"
    trusted_base = ["model coq/Latency/LatencyModel.v (hand written transcription of peripheral_latency.hpp and the delta_time "
                    "operators, tied by this run on all 33 legal feature sets and 9 configuration sets)",
                    "the scripted radio of harness/latency_harness.cpp (returns the (disarmed, time) pair of the operation line)"]
    assumptions = ["theorems about the unit peripheral_latency_state<>; how link_layer<> calls it (latency <= 499, one interval "
                   "per planning round) is read off link_layer.hpp, not proved",
                   "skip range / monitor acceptance for latency < 65535 (latency 65535 wraps to a skip of 0: known finding)",
                   "'never before the event that timed out' only for a radio whose disarm_connection_event() reports at least "
                   "the time of that event since the anchor (last_latency_ is stale after timeout planning)",
                   "asserts are on in the harness; with NDEBUG the faulting calls would continue with wrapped values"]

    def prepare(self, ctx, cases):
        # four harness binaries compiled in parallel, each with a quarter of the configurations
        cfgs = sorted(set(c.cfg[0] for c in cases))
        ngroups = min(4, len(cfgs))
        groups = []
        for g in range(ngroups):
            mine = cfgs[g::ngroups]
            key = "latency_" + hashlib.sha1(";".join(mine).encode()).hexdigest()[:10]
            d = os.path.join(ctx.bdir, key + ".d")
            os.makedirs(d, exist_ok=True)
            with open(os.path.join(d, "latency_configs.inc"), "w") as f:
                f.write("".join(registration(c) for c in mine))
            groups.append((key, ["-I" + d], [c for c in cases if c.cfg[0] in mine]))
        return groups

    def generate(self, ctx):
        rng = ctx.rng
        cases = []
        per = 24 if not ctx.thorough else 2500
        for cfg in SINGLES + SETS:
            cases += boundary_cases(cfg)
            for k in range(per):
                style = "valid" if k % 10 < 7 else ("boundary" if k % 10 < 9 else "wild")
                cases.append(Case(style, [cfg], gen_history(rng, cfg, rng.choice([6, 15, 40]), style)))
        if ctx.thorough:
            # every sequence of length <= 4 over a small alphabet (not a proof; strengthens the tie)
            alphabet = ["plan 4 000000 7500 0 0", "plan 4 010010 7500 0 0", "plan 4 000000 7500 1 7", "tmo 7500",
                        "resched 1 0 7500", "resched 1 18750 7500", "move -1 7500"]
            for cfg in ["c:01234", "c:-", "c:04", "s:04/24/5/01234"]:
                for n in range(1, 5):
                    for seq in itertools.product(alphabet, repeat=n):
                        cases.append(Case("enum", [cfg], list(seq)))
        return limit_faults(cases, 30 if not ctx.thorough else 600)

    def search_extra(self, ctx):
        rng = ctx.rng
        return limit_faults([Case("s", [cfg], gen_history(rng, cfg, 30, rng.choice(["valid", "boundary"])))
                             for cfg in SINGLES + SETS for _ in range(60)], 20)

    def nontrivial(self, case, outputs):
        return nontrivial(outputs)


def run(ctx):
    return standard_check(ctx, C23())
