"""C32 Pairing messages are only accepted in protocol order (bluetoe/sm: security_manager.hpp, security_connection_data.hpp)"""
from vlib.core import Case, standard_check
from props.sm_common import SMStandard, build_case, configs_for, yn_modes, step_ops, model_available

META = dict(
    text="Executable Coq model of the legacy, LESC-only, combined and rejecting security managers with their per-connection data (crypto tool box, random sources, user handlers and the bond data base are Section variables; executed with a toy tool box); specification monitor following the Core pairing protocol (legacy: request, confirm, random; LESC: request, public key, our confirm, random, DHKey check) with lengths, parameter validity, the confirm / DHKey check verification, the commitment of the revealed random values and the user's numeric-comparison answer. Proved for every tool box, every configuration that cannot select LESC numeric comparison, and every operation sequence of any length (SMP PDUs of any content, output polls, user answers, encryption changes, key requests, reconnects): the monitor accepts the model's trace (C32_order_partial). Refuted with witnesses for numeric comparison (DHKey check Eb sent without / before verifying Ea; late user answer aborts on an assert). The model is tied to the real classes by differential runs and the monitor judges the implementation's traces.",
    level_note="Trusted: Coq kernel, extraction, OCaml driver, C++ harness + ASan/UBSan, runner, Python peer. Model hand-written and tied by correspondence on the compiled configurations (12 quick / 57 thorough: manager x input x output x OOB callback x bond data base; user answer timing at run time). Real cryptography is replaced by the toy tool box (the managers are parametric in it). Unions inside the connection data and NDEBUG builds are not modelled.",
    design_ref="DESIGN.md section 6 C32, docs/C32.md, docs/SM_MODEL.md",
    technique="Coq state-machine model + simulation proof against an executable protocol monitor; extracted model vs C++ differential correspondence with a lock-step pairing peer")


def walk(n):
    def script(p):
        rng = p.rng
        for _ in range(n):
            step_ops(p, rng)
    return script


def scenarios(cfg5):
    """hand-structured exchanges aimed at the case splits of the proof"""
    v = cfg5[0]
    sc = []
    if v in ("legacy", "both"):
        for io in range(5):
            sc.append(("legacy_io%d" % io, lambda p, io=io: (p.type_passkey(4711 + io), p.pair_legacy(io=io), p.send("status"), p.send("key 0 0"))))
        sc.append(("legacy_oob", lambda p: (p.pair_legacy(io=3, oobflag=1), p.send("status"))))
        sc.append(("legacy_badconfirm", lambda p: (p.pair_legacy(io=3, good=False), p.send("key 0 0"), p.pair_legacy(io=3))))
        sc.append(("legacy_random_first", lambda p: (p.request(False, io=3), p.random(), p.confirm())))
        sc.append(("legacy_confirm_twice", lambda p: (p.request(False, io=3), p.confirm(), p.confirm(), p.random())))
        def stale_confirm(p):
            # a confirm value left over from an abandoned exchange must not make a later Pairing Random acceptable
            p.request(False, io=3); p.confirm(); mr = p.mrand; p.pdu([11]); p.request(False, io=3)
            if mr is not None:
                p.pdu([4] + mr)
            p.send("key 0 0")
        sc.append(("legacy_stale_confirm", stale_confirm))
        sc.append(("legacy_repair", lambda p: (p.pair_legacy(io=3), p.request(False, io=3), p.pair_legacy(io=3), p.send("key 0 0"))))
    if v in ("lesc", "both"):
        for io in range(5):
            sc.append(("lesc_io%d" % io, lambda p, io=io: (p.pair_lesc(io=io), p.send("status"), p.send("key 0 0"))))
        sc.append(("lesc_oobflag", lambda p: (p.pair_lesc(io=1, oobflag=1), p.send("status"))))
        sc.append(("lesc_badea", lambda p: (p.pair_lesc(io=1, good=False), p.send("key 0 0"))))
        sc.append(("lesc_poll_first", lambda p: (p.pair_lesc(io=1, poll_before_dhkey=True), p.send("key 0 0"), p.dhkey())))
        sc.append(("lesc_user_no", lambda p: (p.pair_lesc(io=1, answer=False), p.send("key 0 0"))))
        sc.append(("lesc_no_answer", lambda p: (p.pair_lesc(io=1, answer=None), p.user(True), p.poll(), p.send("key 0 0"))))
        sc.append(("lesc_no_answer_badea", lambda p: (p.pair_lesc(io=4, answer=None, good=False), p.user(True), p.poll(), p.send("key 0 0"))))
        sc.append(("lesc_dhkey_early", lambda p: (p.request(True, io=1), p.pubkey(), p.dhkey(), p.poll())))
        sc.append(("lesc_random_early", lambda p: (p.request(True, io=1), p.pubkey(), p.random(), p.poll())))
        sc.append(("lesc_invalid_key", lambda p: (p.request(True, io=1), p.pubkey(valid=False), p.pubkey())))
        sc.append(("lesc_no_sc", lambda p: (p.request(False, io=1), p.confirm())))
    if v == "both":
        sc.append(("mixed", lambda p: (p.request(True, io=1), p.confirm(), p.request(False, io=1), p.pubkey(), p.pair_legacy(io=1), p.pair_lesc(io=1))))
    if v == "none":
        sc.append(("none", lambda p: (p.request(True), p.request(False), p.garbage(), p.poll(), p.send("status"), p.send("key 0 0"))))
    return sc


def gen_cases(ctx, prop, per, lengths):
    cases = []
    if not model_available():
        return cases
    rng = ctx.rng
    for cfg5 in configs_for(ctx):
        for yn in yn_modes(cfg5):
            for name, s in scenarios(cfg5):
                cases.append(build_case(prop, cfg5, yn, rng, s, name))
            for _ in range(per):
                cases.append(build_case(prop, cfg5, yn, rng, walk(rng.choice(lengths)), "walk"))
    return cases


class C32(SMStandard):
    def generate(self, ctx):
        return gen_cases(ctx, "C32", 14 if not ctx.thorough else 60, [6, 10, 16, 28])

    def search_extra(self, ctx):
        return gen_cases(ctx, "C32", 40, [8, 14, 24])

    def nontrivial(self, case, outputs):
        # an exchange got past the pairing request: a confirm / random / public key / DHKey check was answered
        return any(o[:2] in ("03", "04", "0c", "0d") for o in outputs)


def run(ctx):
    return standard_check(ctx, C32())
