"""C40 Cycling speed control point never deadlocks (bluetoe/services/csc.hpp)"""
from vlib.core import Standard, Case, standard_check

META = dict(
    text="Coq model of the CSC control point handler with the server glue of one connection (CCCD, pending/outstanding indication, l2cap_output); theorem: for every configuration and every operation sequence of any length that stays inside the stated environment assumptions the model's trace is accepted by the executable specification monitor (no 0xFE without an awaiting procedure, well-formed requests accepted when idle, exactly one response with the request opcode); refutation theorems with witnesses for the three ways the code still deadlocks; the model is tied to the real server<cycling_speed_and_cadence<...>> by differential runs and the monitor judges the implementation's traces.",
    level_note="Trusted: Coq kernel, extraction (ExtrOcamlBasic), OCaml driver, C++ harness + ASan, runner. Model hand-written (coq/Csc/CscModel.v) and tied by correspondence on 3 service configurations; the user handler is an oracle (a stored wheel value). Real time, the link layer's polling of l2cap_output and multiple simultaneous connections are not modelled (one connection at a time; Disc starts a new one).",
    design_ref="DESIGN.md section 6 C40, docs/C40.md",
    technique="Coq state-machine model + simulation proof against an executable spec monitor; extracted model vs C++ differential correspondence")

OPS_VALID = ["04", "0303", "0301", "0302", "0309", "0100000000", "01aabbccdd", "10", "00", "05", "ff", "77aabb"]
OPS_MALFORMED = ["0101", "01", "010203040506", "0400", "03", "030102", "-"]


def gen(rng, n, env_ok):
    ops = []
    for _ in range(n):
        r = rng.random()
        if r < 0.30:
            ops.append("w " + rng.choice(OPS_VALID))
        elif r < 0.42:
            ops.append("w " + rng.choice(OPS_MALFORMED))
        elif r < 0.46:
            ops.append("wc " + rng.choice(OPS_VALID + OPS_MALFORMED))
        elif r < 0.62:
            ops.append("out %d" % rng.choice([23, 23, 23, 6, 7, 64]))
        elif r < 0.74:
            ops.append("hvc")
        elif r < 0.80:
            ops.append("confirm")
        elif r < 0.88:
            ops.append("cccd %d" % (rng.choice([2, 3, 2, 258]) if env_ok else rng.choice([0, 1, 2, 3, 2, 2])))
        elif r < 0.90:
            ops.append("hvcbad")
        elif r < 0.93:
            ops.append("wheel")
        elif not env_ok:
            ops.append(rng.choice(["disc", "rd"]))
        else:
            ops.append("out 23")
    return ops


class C40(Standard):
    component = "Csc"
    harness = "csc_harness.cpp"
    trusted_base = ["model coq/Csc/CscModel.v (hand written transcription of csc.hpp control point + server glue, tied by this run)"]
    assumptions = ["one connection at a time", "l2cap_output is given at least 6 bytes (the link layer passes >= 23)",
                   "theorem C40_holds_in_environment: no disconnect / unsubscribe / Read Request while a procedure awaits its response, application confirms only Set Cumulative Value procedures"]

    def prepare(self, ctx, cases):
        return [("csc_harness", [], cases)]

    def generate(self, ctx):
        rng = ctx.rng
        cases = []
        per = 60 if not ctx.thorough else 1500
        for cfg in ["A", "B", "C"]:
            for k in range(per):
                env_ok = k % 3 != 0
                ops = (["cccd 2"] if rng.random() < 0.8 else []) + gen(rng, rng.choice([8, 20, 45]), env_ok)
                cases.append(Case("rnd", [cfg], ops))
        return cases

    def search_extra(self, ctx):
        rng = ctx.rng
        return [Case("s", [c], ["cccd 2"] + gen(rng, 40, True)) for c in "ABC" for _ in range(400)]

    def nontrivial(self, case, outputs):
        return any(o.startswith("ind ") for o in outputs)


def run(ctx):
    return standard_check(ctx, C40())
