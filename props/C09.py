"""C09 Client characteristic configuration is per connection and exact (client_characteristic_configuration.hpp,
characteristic.hpp: the CCCD attribute, gatt_options.hpp: client_characteristic_configuration_update_callback)."""
import hashlib, os
from vlib.core import standard_check
from props import att_common as AC
from props.att_common import emit_cpp
from props import notif_common as NC
from props.att_common import AttBase

META = dict(
    text="Client characteristic configuration is per connection and exact",
    design_ref="DESIGN.md section 6 C09; docs/C09.md",
    technique="Coq: lens laws of the packed 2-bit store for any number of CCCDs (from the one-byte sweep of Base/Bits2.v), "
              "CCCD attribute semantics, per-connection frame lemma, permutation lemma for the priority sort; callback count "
              "modelled beside srv_step; monitor keeping per connection the bits it last wrote; tie: generated server<> "
              "instantiations (1/4/5/9 CCCDs, with and without priorities) with client_characteristic_configuration_update_"
              "callback, 3 connections, random CCCD write / read histories, callback count compared",
    level_note="proved: lens laws for any number of CCCDs, store well formed in every reachable state, CCCD write exact and local, read exact, other connections untouched, position = notification index (permutation lemma), callback iff stored bits change. TRACE LEVEL (partial): C09_monitor_accepts_model_partial - the monitor (all clauses) accepts every fault-free model trace (any operations, any length, 3 connections) for wf configurations without include_service<>, write queue and encryption requirements (env09). Also proved without a no-FAULT hypothesis for l2cap_input (C09_monitor_accepts_model_partial_no_input_fault, via C01_no_fault_reachable). NOT proved: the same for the remaining configurations (C09_monitor_accepts_model_full, Definition); monitored and tied. See docs/C09.md")

CB_OPTION = "    no_gap_service_for_gatt_servers,\n    client_characteristic_configuration_update_callback< verif::cccd_cb_t, verif::cccd_cb >"


class C09(AttBase):
    tag = "C09"
    harness = "attsrv_cb_harness.cpp"
    quick_random = 0
    thorough_random = 40
    trusted_base = ["models coq/AttDb/AttDbModel.v, coq/AttSrv/AttSrvModel.v, coq/AttSrv/AttSrvCbModel.v (callback count; tied by this run)",
                    "observer coq/AttSrv/AttSrvNotifSpec.v", "harness/attsrv_cb_harness.cpp (attsrv_harness.cpp + callback counter)",
                    "gen/emit_cpp.py, ocaml/attsrv_lib.ml (configuration language)"]
    assumptions = ["wf cfg", "1 <= length pdu, 23 <= out_size of l2cap_input", "a connection is the channel_data_t object handed to l2cap_input"]

    def configurations(self, ctx):
        cfgs = list(NC.CONFIGS)
        if ctx.thorough:
            cfgs += AC.random_configs(self.component, ctx.rng, self.thorough_random)
        return cfgs

    def prepare(self, ctx, cases):
        """as AttBase.prepare, with the subscription callback option added to every server<> declaration"""
        by_cfg = {}
        for c in cases:
            by_cfg.setdefault(c.cfg[0], []).append(c)
        new = [i for i in by_cfg if i not in self.groups]
        enc = {c.cfg[0]: c.cfg[1] for c in cases}
        for k in range(0, len(new), AC.CONFIGS_PER_TU):
            ids = new[k:k + AC.CONFIGS_PER_TU]
            key = "attsrvcb_" + hashlib.sha1(";".join(ids).encode()).hexdigest()[:10]
            d = os.path.join(ctx.bdir, key + ".d")
            os.makedirs(d, exist_ok=True)
            text = emit_cpp.emit_inc([emit_cpp.decode(enc[i], i) for i in ids])
            assert "    no_gap_service_for_gatt_servers" in text
            text = text.replace("    no_gap_service_for_gatt_servers", CB_OPTION)
            p = os.path.join(d, "attsrv_configs.inc")
            if not os.path.exists(p) or open(p).read() != text:
                open(p, "w").write(text)
            for i in ids:
                self.groups[i] = (key, d)
        res = {}
        for i, cs in by_cfg.items():
            key, d = self.groups[i]
            res.setdefault(key, (key, ["-I" + d, "-g0"], []))[2].extend(cs)
        return list(res.values())

    def generate(self, ctx):
        rng = ctx.rng
        cfgs = self.configurations(ctx)
        w = NC.Weights(cccd_write=30, cccd_read=22, cbs=12, request=3, out=4, confirm=1, mtu=1, disc=2, sec=1, setval=0, val=0, read_value=1, other=3)
        per = 30 if not ctx.thorough else 300
        cases = []
        for cfg, info in zip(cfgs, AC.infos(self.component, cfgs)):
            for k in range(per):
                cases.append(self.case("cccd", cfg, NC.gen_notif(rng, info, rng.choice([10, 25, 60]), w) + ["cbs"]))
        return cases

    def nontrivial(self, case, outputs):
        return any(o == "13" for o in outputs) and any(o.startswith("0b") and len(o) == 6 for o in outputs)

    def search_extra(self, ctx):
        rng = ctx.rng
        cfgs = self.configurations(ctx)[:8]
        w = NC.Weights(cccd_write=30, cccd_read=25, cbs=10)
        return [self.case("s", cfg, NC.gen_notif(rng, info, 40, w)) for cfg, info in zip(cfgs, AC.infos(self.component, cfgs)) for _ in range(50)]


def run(ctx):
    return standard_check(ctx, C09())
