"""C04 Attribute handles are consistent with the declared database (attribute_handle.hpp, service.hpp,
characteristic.hpp): handle_index_mapping, attribute_at, declaration values."""
from vlib.core import standard_check
from props import att_common as AC
from props.att_common import AttBase

META = dict(
    text="Attribute handles are consistent with the declared database",
    design_ref="DESIGN.md section 6 C04",
    technique="Coq: unbounded induction over the declaration (services x characteristics) for the handle mapping against "
              "the abstract assignment; tie: the compile-time tables of generated server<> instantiations are dumped "
              "exhaustively, every handle is read through ATT, and every handle reported by a discovery response (Find "
              "Information, Read By Type, Read By Group Type, Find By Type Value; full range, continuations, per service "
              "ranges, two MTUs) is judged against the assignment (monitor clause reported_handle)",
    level_note="(a),(b),(c) proved for all wf configurations without include declarations; with include_service<> the "
               "mapping is shifted (refuted, known finding); (d) refuted; (e) 'handles reported in discovery responses "
               "are the assigned handles of the attributes they describe' (clause reported_handle) is monitored on the "
               "implementation and tied, and PROVED for the model for EVERY request (C04_reported_handles_partial: all wf "
               "configurations without includes and without the marker uuid 0x0001, every state with the connection, "
               "request bytes < 256; refused requests are shown to get Error Responses), per kind: Read By Group Type, "
               "Find By Type Value, Find Information at every MTU, Read By Type for min(out_size, MTU) <= 513; NOT "
               "proved (false in general) for Read By Type above 513 bytes, where the 8 bit size counter can leave a "
               "single byte of an entry (C04_reported_handles_full stays a Definition)")


class C04(AttBase):
    tag = "C04"
    quick_corpus = ["basic3", "fixed_handles", "includes", "includes_fixed", "secondary", "cccd9", "values"]
    quick_random = 5
    thorough_random = 80
    trusted_base = ["models coq/AttDb/AttDbModel.v (hand written transcription of the template recursion, tied by this run)",
                    "gen/emit_cpp.py (JSON -> C++ declaration and -> cfg encoding), ocaml/attsrv_lib.ml (encoding -> Coq cfg)"]
    assumptions = ["wf cfg = the static_asserts of the headers + no 16 bit overflow of handles; the tie samples configurations",
                   "at most one descriptor<> per characteristic, explicit characteristic UUIDs (what the generator produces)"]

    def discovery(self, cfg, info):
        """the requests whose responses carry handles (clause reported_handle): Find Information, Read By Type,
        Read By Group Type, Find By Type Value over the full range, from every (sampled) handle on and over the
        range of every service, once with the default MTU and once with the server's maximum"""
        le = AC.le16
        real = info.real or [1]
        step = max(1, len(real) // 16)
        starts = sorted(set([1] + real[::step] + [real[-1]]))
        svc_starts = [h for h, u in zip(info.handles, info.uuids) if u in ("2800", "2801") and h]
        ranges = [(1, 0xffff)] + [(a, 0xffff) for a in svc_starts] + [(a, b - 1) for a, b in zip(svc_starts, svc_starts[1:] + [info.last + 1]) if b > a]
        types = ["2803", "2800", "2801", "2802", "2902", "2901"] + sorted(set(u for u in info.char_uuids))
        reqs = []
        for a in starts:
            reqs.append("04" + le(a) + "ffff")
            reqs.append("04" + le(a) + le(min(a + 3, 0xffff)))
            reqs.append("10" + le(a) + "ffff" + "0028")
        for a, b in ranges:
            reqs.append("10" + le(a) + le(b) + "0028")
            for t in types:
                reqs.append("08" + le(a) + le(b) + AC.uuid_le(t))
            reqs.append("08" + le(a) + le(b) + AC.as128("2803"))
            for u in info.svc_uuids:
                reqs.append("06" + le(a) + le(b) + "0028" + AC.uuid_le(u))
        seen, uniq = set(), []
        for r in reqs:
            if r not in seen:
                seen.add(r)
                uniq.append(r)
        ops = []
        for size in sorted(set([23, info.mtu])):
            if size != 23:
                ops.append("in 0 02%s %d" % (le(size), size))
            ops += ["in 0 %s %d" % (r, size) for r in uniq]
        return [self.case("discovery", cfg, ops[k:k + 500]) for k in range(0, len(ops), 500)]

    def cases_for(self, cfg, info):
        hi = max(info.last, max(info.handles + [0])) + 2
        reads = ["in 0 0a%s 23" % AC.le16(h) for h in range(1, hi + 1)]
        return [self.case("dump", cfg, ["dump"]), self.case("reads", cfg, reads)] + self.discovery(cfg, info)

    def generate(self, ctx):
        cfgs = self.configurations(ctx)
        cases = []
        for cfg, info in zip(cfgs, AC.infos(self.component, cfgs)):
            cases += self.cases_for(cfg, info)
        return cases

    def search_extra(self, ctx):
        cfgs = AC.random_configs(self.component, ctx.rng, 12, "search")
        return [c for cfg, info in zip(cfgs, AC.infos(self.component, cfgs)) for c in self.cases_for(cfg, info)]

    def nontrivial(self, case, outputs):
        return any(o.startswith(("n=", "0b")) for o in outputs)


def run(ctx):
    return standard_check(ctx, C04())
