"""C04 Attribute handles are consistent with the declared database (attribute_handle.hpp, service.hpp,
characteristic.hpp): handle_index_mapping, attribute_at, declaration values."""
from vlib.core import standard_check
from props import att_common as AC
from props.att_common import AttBase

META = dict(
    text="Attribute handles are consistent with the declared database",
    design_ref="DESIGN.md section 6 C04",
    technique="Coq: unbounded induction over the declaration (services x characteristics) for the handle mapping against "
              "the abstract assignment; tie: the compile-time tables of generated server<> instantiations are dumped "
              "exhaustively and every handle is read through ATT",
    level_note="(a),(b),(c) proved for all wf configurations without include declarations; with include_service<> the "
               "mapping is shifted (refuted, known finding); (d) refuted")


class C04(AttBase):
    tag = "C04"
    quick_corpus = ["basic3", "fixed_handles", "includes", "includes_fixed", "secondary", "cccd9", "values"]
    quick_random = 5
    thorough_random = 80
    trusted_base = ["models coq/AttDb/AttDbModel.v (hand written transcription of the template recursion, tied by this run)",
                    "gen/emit_cpp.py (JSON -> C++ declaration and -> cfg encoding), ocaml/attsrv_lib.ml (encoding -> Coq cfg)"]
    assumptions = ["wf cfg = the static_asserts of the headers + no 16 bit overflow of handles; the tie samples configurations",
                   "at most one descriptor<> per characteristic, explicit characteristic UUIDs (what the generator produces)"]

    def cases_for(self, cfg, info):
        hi = max(info.last, max(info.handles + [0])) + 2
        reads = ["in 0 0a%s 23" % AC.le16(h) for h in range(1, hi + 1)]
        return [self.case("dump", cfg, ["dump"]), self.case("reads", cfg, reads)]

    def generate(self, ctx):
        cfgs = self.configurations(ctx)
        cases = []
        for cfg, info in zip(cfgs, AC.infos(self.component, cfgs)):
            cases += self.cases_for(cfg, info)
        return cases

    def search_extra(self, ctx):
        cfgs = AC.random_configs(self.component, ctx.rng, 12, "search")
        return [c for cfg, info in zip(cfgs, AC.infos(self.component, cfgs)) for c in self.cases_for(cfg, info)]

    def nontrivial(self, case, outputs):
        return any(o.startswith(("n=", "0b")) for o in outputs)


def run(ctx):
    return standard_check(ctx, C04())
