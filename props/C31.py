"""C31 L2CAP channel multiplexing and signaling are well behaved (bluetoe/l2cap.hpp, l2cap_signaling_channel.hpp)"""
from vlib.core import Standard, Case, standard_check
import hashlib, os

META = dict(
    text="Coq model of the L2CAP channel multiplexer l2cap<LinkLayer, ChannelData, Channels...> (handle_l2cap_input, transmit_pending_l2cap_output, the buffer obtained from allocate_l2cap_output_buffer(maximum_mtu_size) as a bounded byte list with a Fault outcome for every access outside) over an arbitrary list of channels (echo / silent / asynchronous toy channels and the transcription of the real signaling_channel<>: pending request, identifier counter skipping 0, Command Reject, silence for identifier 0 / short PDUs, response matching after the repair fix/C31-signaling-response-match); theorem: for every well-formed configuration and every sequence of frames (any bytes, any length), queued requests, output polls and buffer releases of any length the executable specification monitor accepts the model's trace (deliver_cid, deliver_len, consumed, reply_cid, reply_fits, unknown_dropped, sig_once, sig_match, sig_id_nonzero, sig_id_advances, sig_reject) and no operation faults; the model is tied to the real l2cap<> + signaling_channel<> by differential runs and the monitor judges the implementation's traces.",
    level_note="Trusted: Coq kernel, extraction (ExtrOcamlBasic), OCaml driver, C++ harness + ASan, runner. Model hand-written (coq/L2cap/L2capModel.v) and tied by correspondence on generated channel configurations; user channels are represented by three toy channels; the link layer side (allocate/commit, size + 4 contract of link_layer<>) is a fake in the harness and part of the model; no RTX timer exists in the code and none is modelled.",
    design_ref="DESIGN.md section 6 C31, docs/C31.md",
    technique="Coq state-machine model + simulation proof against an executable spec monitor; extracted model vs C++ differential correspondence")

# channel sets: <kind><cid>.<min mtu>.<max mtu>; g = the real signaling channel (CID 5, MTU 23)
CONFIGS = [
    "g",
    "e4.23.23,g,s6.23.65",
    "a4.23.40,g",
    "g,a6.10.30,e4.23.23",
    "e4.5.5,s6.0.0,a7.3.9",
    "a64.23.23,a65.1.2,e66.0.1",
    "e4.23.300,g,a6.23.23",
    "s5.10.10,e1.7.8",
]
CONFIGS_THOROUGH = [
    "e65535.1.1,g,a0.23.23",
    "a4.23.23,a6.23.23,g,e7.23.64",
    "s4.0.0",
    "e4.23.1000,a6.23.600,g",
]


def parse_cfg(spec):
    chans = []
    for s in spec.split(","):
        if s == "g":
            chans.append(("g", 5, 23, 23))
        else:
            c, mn, mx = s[1:].split(".")
            chans.append((s[0], int(c), int(mn), int(mx)))
    return chans


def cpp_type(ch):
    k, c, mn, mx = ch
    if k == "g":
        return "sig_ch"
    return "%s< %d, %d, %d >" % ({"e": "echo_ch", "s": "silent_ch", "a": "async_ch"}[k], c, mn, mx)


def frame(cid, payload, length=None):
    n = len(payload) if length is None else length
    return "%02x%02x%02x%02x" % (n & 255, (n >> 8) & 255, cid & 255, (cid >> 8) & 255) + "".join("%02x" % b for b in payload)


def rbytes(rng, n):
    return [rng.randrange(256) for _ in range(n)]


class Gen:
    """trace generator that tracks what the signaling channel should be waiting for, so that matching and
    nearly matching responses are produced"""

    def __init__(self, rng, spec):
        self.rng = rng
        self.chans = parse_cfg(spec)
        self.cids = [c[1] for c in self.chans]
        self.mtu = max(c[3] for c in self.chans)
        self.has_sig = any(c[0] == "g" for c in self.chans)
        self.ident = 1      # guess of identifier_ (only used to aim the inputs)
        self.state = 0      # 0 idle 1 queued 2 transmitted (guess)

    def sig_pdu(self):
        rng = self.rng
        r = rng.random()
        if r < 0.40:   # response, exactly matching the guess
            p = [0x13, self.ident, 2, 0, rng.choice([0, 1]), 0]
            if self.state == 2:
                self.state, self.ident = 0, (self.ident % 255) + 1
            return p
        if r < 0.70:   # nearly matching responses: around every comparison of the repaired code
            k = rng.randrange(8)
            i = self.ident
            return [[0x13], [0x13, i], [0x13, (i + 1) & 255, 2, 0, 0, 0], [0x13, (i - 1) & 255, 2, 0, 0, 0],
                    [0x13, i, 2, 0, 0], [0x13, i, 2, 0, 0, 0, 0], [0x13, i, 3, 0, 0, 0], [0x13, i, 2, 1, 0, 0]][k]
        if r < 0.85:   # other commands: identifier 0 / non zero, all lengths around 2
            code = rng.choice([0x01, 0x12, 0x14, 0x00, 0x13, 0xff, rng.randrange(256)])
            return [[], [code], [code, 0], [code, rng.randrange(1, 256)],
                    [code, rng.randrange(256), 8, 0] + rbytes(rng, 8)][rng.randrange(5)]
        return rbytes(rng, rng.choice([0, 1, 2, 3, 6, 12, 23, 24]))

    def op(self):
        rng = self.rng
        r = rng.random()
        if r < 0.50:
            # a frame: structured-valid / boundary / malformed
            q = rng.random()
            cid = rng.choice(self.cids) if q < 0.8 else rng.choice([0, 1, 4, 5, 6, 7, 0x0105, 0x0500, 0xffff, rng.randrange(65536)])
            if cid == 5 and self.has_sig and rng.random() < 0.9:
                p = self.sig_pdu()
            else:
                n = rng.choice([0, 1, 2, 5, self.mtu - 1, self.mtu, self.mtu + 1, self.mtu + 7, rng.randrange(0, 40)])
                p = rbytes(rng, max(n, 0))
            q = rng.random()
            if q < 0.82:
                return "in " + frame(cid, p)
            if q < 0.92:   # length field off by one / truncated / extended
                return "in " + frame(cid, p, max(0, len(p) + rng.choice([-1, 1, 2, 256, -2])))
            f = frame(cid, p)
            return "in " + (f[:2 * rng.randrange(0, 5)] or "-")
        if r < 0.68:
            return "poll"
        if r < 0.86:
            if self.state == 0:
                self.state = 1
            return "req %d %d %d %d" % (rng.choice([6, 0x20, 65535, 65536 + 7]), rng.choice([0x100, 0x0c80, 0]),
                                        rng.randrange(500), rng.choice([0xc80, 100, 70000]))
        return "free %d" % rng.choice([1, 1, 2, 3, 100])

    def ops(self, n):
        out = []
        for _ in range(n):
            o = self.op()
            if o == "poll" and self.state == 1:
                self.state = 2
            out.append(o)
        return out


def boundary(spec):
    """every clause once, for one configuration"""
    chans = parse_cfg(spec)
    mtu = max(c[3] for c in chans)
    ops = []
    for k, cid, mn, mx in chans:
        for n in (0, 1, mtu - 1, mtu, mtu + 1, mtu + 20):
            if n >= 0:
                ops += ["in " + frame(cid, [(i * 7 + n) & 255 for i in range(n)]), "poll", "free 2"]
        ops += ["in " + frame(cid, [1, 2, 3], 2), "in " + frame(cid, [1, 2, 3], 4), "in " + frame(cid, [1, 2, 3])[:6]]
    for cid in (0, 3, 0x0500, 0x0105, 65535):
        if cid not in [c[1] for c in chans]:
            ops += ["in " + frame(cid, [9, 9])]
    ops += ["in -", "in 00", "in 0000", "in 000005", "in 00000500", "poll", "free 9"]
    return ops


def sig_walk(wrap=False):
    """request / response cycles; with wrap: 256 completed requests so that the identifier passes 0"""
    ops = []
    ident = 1
    for k in range(258 if wrap else 3):
        ops += ["req %d %d %d %d" % (6 + k, 12 + k, k, 100 + k), "req 1 1 1 1", "poll", "poll",
                "in " + frame(5, [0x13, (ident + 1) & 255, 2, 0, 0, 0]), "req 2 2 2 2",
                "in " + frame(5, [0x13, ident, 2, 0, 0, 0]), "free 4"]
        ident = ident % 255 + 1
    return ops


class C31(Standard):
    component = "L2cap"
    harness = "l2cap_harness.cpp"
    trusted_base = ["model coq/L2cap/L2capModel.v (hand written transcription of l2cap.hpp and l2cap_signaling_channel.hpp, tied by this run)",
                    "toy channels (echo / silent / async) and the fake link layer (size + 4 buffers) are defined twice: harness/l2cap_harness.cpp and the model"]
    assumptions = ["wf configuration: distinct channel ids, maximum_mtu_size + 4 < 65536",
                   "the link layer honours the contract of link_layer::allocate_l2cap_output_buffer (size + 4 bytes or nothing)",
                   "one connection; no RTX timer (the code has none): a request whose response never arrives stays outstanding"]

    def prepare(self, ctx, cases):
        cfgs = sorted(set(c.cfg[0] for c in cases))
        groups = []
        # four translation units so that they compile in parallel
        for part in (cfgs[0::4], cfgs[1::4], cfgs[2::4], cfgs[3::4]):
            if not part:
                continue
            key = "l2cap_" + hashlib.sha1(";".join(part).encode()).hexdigest()[:10]
            d = os.path.join(ctx.bdir, key + ".d")
            os.makedirs(d, exist_ok=True)
            with open(os.path.join(d, "l2cap_configs.inc"), "w") as f:
                for s in part:
                    f.write('CFG( "%s", %s )\n' % (s, ", ".join(cpp_type(ch) for ch in parse_cfg(s))))
            groups.append((key, ["-I" + d], [c for c in cases if c.cfg[0] in part]))
        return groups

    def generate(self, ctx):
        rng = ctx.rng
        cases = []
        per = 30 if not ctx.thorough else 600
        for spec in CONFIGS + (CONFIGS_THOROUGH if ctx.thorough else []):
            cases.append(Case("boundary", [spec, "3"], boundary(spec)))
            for k in range(per):
                nb = rng.choice([1, 2, 3, 8])
                cases.append(Case("rnd", [spec, str(nb)], Gen(rng, spec).ops(rng.choice([8, 20, 50]))))
        cases.append(Case("sigwalk", ["g", "4"], sig_walk()))
        cases.append(Case("sigwrap", ["e4.23.23,g,s6.23.65", "2"], sig_walk(wrap=True)))
        return cases

    def search_extra(self, ctx):
        rng = ctx.rng
        return [Case("s", [spec, str(rng.choice([1, 2, 4]))], Gen(rng, spec).ops(40)) for spec in CONFIGS for _ in range(150)]

    def nontrivial(self, case, outputs):
        # reached past the header / length checks: something was delivered to a channel or transmitted
        return any((o.startswith("in 1 ") and not o.startswith("in 1 - ")) or (o.startswith("poll ") and o != "poll -") for o in outputs)


def run(ctx):
    return standard_check(ctx, C31())
