"""C14 Advertising and scan response data are well-formed (server.hpp advertising part, adv_service_list.hpp,
appearance.hpp, peripheral_connection_interval_range.hpp, custom_advertising.hpp, server_name.hpp)"""
from vlib.core import Standard, Case, standard_check, VERIF
import json, os, random

META = dict(
    text="Coq model of server<>::advertising_data / scan_response_data (flags, appearance, name, 16-bit and 128-bit "
         "service UUID lists, peripheral connection interval range, trailing empty ADs, static and runtime custom data, "
         "auto scan response) over a bounded output buffer with a Fault outcome; theorems for EVERY declaration (name of "
         "any length, any appearance option, UUID lists of any length, optional range, custom data) and EVERY buffer size: "
         "no write outside [0,b), result r <= b, bytes past r untouched; for b <= 259 (no AD length byte can truncate; tight) the "
         "payload is exactly tiled by AD structures, flags first when b >= 3, name complete (0x09) iff whole else a strict "
         "prefix marked shortened (0x08), UUID lists complete (0x03/0x07) iff all listed else a strict whole-UUID prefix marked "
         "incomplete (0x02/0x06), payload <= 31 for b <= 31; custom data is the copy of min(size,b) bytes and tiles when "
         "b >= size and the user's data tiles; the executable monitor accepts every model trace. Refutations: unfixed auto "
         "scan response for b < 2 (fixed on branch fix/C14-scan-response-buffer), tiling for b >= 260 with names >= 255 octets.",
    level_note="Trusted: Coq kernel, extraction (ExtrOcamlBasic), OCaml driver, C++ harness + ASan, runner, the declaration "
               "emitter in props/C14.py (writes the C++ server<> declaration and the model cfg from one table; it resolves the "
               "default service UUID lists). Model hand-written (coq/AdvData/AdvDataModel.v) and tied on every declaration of the "
               "table x both calls x every buffer size 0..40 (exhaustive over that set). Not modelled: the dirty flags "
               "(advertising_or_scan_response_data_has_been_changed), the template meta-programs that select the options.",
    design_ref="DESIGN.md section 6 C14, docs/C14.md",
    technique="Coq model with bounded-buffer discipline + Hoare-style frame lemmas per writer, AD parser as the executable "
              "spec of tiling, parser soundness/completeness; extracted model vs C++ differential correspondence, exhaustive "
              "over declarations x b = 0..40")

BMAX = 40


def U(a, b, c, d, e):
    return (a << 96) | (b << 80) | (c << 64) | (d << 48) | e


U1 = U(0x111393DD, 0x01D2, 0x40D6, 0xA0A0, 0xE9B1A56A1191)
U2 = U(0x221393DD, 0x01D2, 0x40D6, 0xA0A0, 0xE9B1A56A1177)
U3 = U(0xF0E1D2C3, 0xB4A5, 0x9687, 0x7869, 0x5A4B3C2D1E0F)
U4 = U(0x00010203, 0x0405, 0x0607, 0x0809, 0x0A0B0C0D0E0F)

# One entry per server<> declaration. services: UUIDs of the declared services (< 0x10000: 16 bit);
# lists: "default" (derived from the services) | "none" (no_list_of_service_uuids) | dict(u16=[...]|None, u128=[...]|None)
# (explicit list_of_16_bit_service_uuids<...> / list_of_128_bit_service_uuids<...>; None = default for that width);
# nogap: no_gap_service_for_gatt_servers (otherwise 0x1800 is appended to the default 16-bit list);
# appearance: device_appearance<> value or None; advertise: advertise_appearance option; rng: None | "default" | (min, max)
DECLS = [
    dict(id="D01", services=[0x1234]),
    dict(id="D02", services=[0x1212], lists="none", name="Test Name"),
    dict(id="D03", services=[0x1234, 0xABCD], name="A rather long device name of 40 octets..", appearance=0x0340, advertise=True),
    dict(id="D04", services=[U1], name="", advertise=True),
    dict(id="D05", services=[0x1801, U2], lists=dict(u16=[0x1800 + i for i in range(16)], u128=None), name="five"),
    dict(id="D06", services=[U1, U2, U3], name="AB", nogap=True),
    dict(id="D07", services=[0x1122], lists=dict(u16=[0x1234, 0xABCD, 0x0102], u128=[U1, U2]), rng=(0x0006, 0x0C80)),
    dict(id="D08", services=[0x180F], lists="none", name="x", rng="default"),
    dict(id="D09", services=[0x1234], name="ignored", cadv=[2, 1, 6, 3, 0xFF, 0xAA, 0xBB], cscan=[4, 9, 0x41, 0x42, 0x43]),
    dict(id="D10", services=[0x1234], cadv=[2, 1, 6, 27, 0xFF] + list(range(26))),
    dict(id="D11", services=[0x1234], name="rt", rtadv=True, rtscan=True),
    dict(id="D12", services=[0x1810, 0x1811, 0x1812, U4], name="0123456789", appearance=0x03C1, advertise=True, rng=(0x0010, 0x0020)),
    dict(id="D13", services=[0x1234, U1], lists=dict(u16=[], u128=[]), name="\x80\xff\x01n"),
    dict(id="D14", services=[0x1234], lists="none", name="abcdefghijklmnopqrstuvwxyz"),          # 26: exact fit at b = 31
    dict(id="D15", services=[0x1234], lists="none", name="abcdefghijklmnopqrstuvwx", appearance=0x0040),  # value without advertise option
    dict(id="D16", services=[0x1234], cscan=[2, 0x0A, 0xF4] + [0x1D, 0xFF] + list(range(0x40, 0x40 + 28)), rtadv=True),
]
GROUPS = 3   # translation units of the quick tier (compiled in parallel)


def random_decls(seed, n=18):
    """seeded random declarations of the thorough tier (ids R00..)"""
    rng = random.Random("C14-decls/%s" % seed)
    res = []
    for i in range(n):
        d = dict(id="R%02d" % i)
        n16, n128 = rng.choice([0, 1, 2, 3, 7, 14, 20]), rng.choice([0, 0, 1, 2, 3])
        d["services"] = [rng.randrange(1, 0x10000) for _ in range(min(n16, 3))] + [rng.getrandbits(128) | (1 << 127) for _ in range(min(n128, 2))]
        if not d["services"]:
            d["services"] = [0x1234]
        k = rng.random()
        if k < 0.2:
            d["lists"] = "none"
        elif k < 0.7:
            d["lists"] = dict(u16=[rng.randrange(0x10000) for _ in range(n16)] if rng.random() < 0.8 else None,
                              u128=[rng.getrandbits(128) | (1 << 127) for _ in range(n128)] if rng.random() < 0.8 else None)
        if rng.random() < 0.8:
            ln = rng.choice([0, 1, 2, 5, 9, 20, 24, 25, 26, 27, 28, 29, 30, 36, 60, 300])
            d["name"] = "".join(chr(rng.randrange(1, 256)) for _ in range(ln))
        if rng.random() < 0.25:
            d["nogap"] = True
        if rng.random() < 0.5:
            d["advertise"] = True
        if rng.random() < 0.5:
            d["appearance"] = rng.randrange(0x10000)
        r = rng.random()
        if r < 0.2:
            d["rng"] = "default"
        elif r < 0.5:
            lo = rng.randrange(6, 0x0C81)
            d["rng"] = (lo, rng.randrange(lo, 0x0C81))
        r = rng.random()
        if r < 0.12:
            d["cadv"] = [rng.randrange(256) for _ in range(rng.choice([1, 3, 30, 31, 32, 45]))]
        elif r < 0.2:
            d["rtadv"] = True
        r = rng.random()
        if r < 0.15:
            d["cscan"] = [rng.randrange(256) for _ in range(rng.choice([1, 2, 31, 33]))]
        elif r < 0.25:
            d["rtscan"] = True
        res.append(d)
    return res


# ------------------------------------------------------------------ one table -> C++ declaration and model cfg
def eff_lists(d):
    # server<> appends the GAP service for GATT servers (0x1800) to the declared services unless told not to
    s16 = [u for u in d["services"] if u < 0x10000] + ([] if d.get("nogap") else [0x1800])
    s128 = [u for u in d["services"] if u >= 0x10000]
    l = d.get("lists", "default")
    if l == "none":
        return [], []
    if l == "default":
        return s16, s128
    return (s16 if l.get("u16") is None else l["u16"]), (s128 if l.get("u128") is None else l["u128"])


def hexs(bs):
    return "".join("%02x" % b for b in bs) if bs else "-"


def cfg_words(d):
    """model configuration: decl id + key=value words parsed by ocaml/advdata_driver.ml"""
    u16, u128 = eff_lists(d)
    name = d.get("name")
    w = [d["id"],
         "n=" + ("none" if name is None else hexs(name.encode("latin-1"))),
         "a=" + (str(d.get("appearance", 0)) if d.get("advertise") else "none"),
         "u16=" + (",".join(str(u) for u in u16) if u16 else "-"),
         "u128=" + (",".join(hexs(u.to_bytes(16, "little")) for u in u128) if u128 else "-"),
         "r=" + ("none" if d.get("rng") is None else "65535:65535" if d["rng"] == "default" else "%d:%d" % d["rng"]),
         "ca=" + ("none" if d.get("cadv") is None else hexs(d["cadv"])),
         "cs=" + ("none" if d.get("cscan") is None else hexs(d["cscan"])),
         "rt=%d" % ((1 if d.get("rtadv") else 0) + (2 if d.get("rtscan") else 0))]
    return w


def cpp_uuid(u):
    if u < 0x10000:
        return "bluetoe::service_uuid16< 0x%04X >" % u
    return "bluetoe::service_uuid< 0x%08X, 0x%04X, 0x%04X, 0x%04X, 0x%012X >" % (
        u >> 96, (u >> 80) & 0xFFFF, (u >> 64) & 0xFFFF, (u >> 48) & 0xFFFF, u & 0xFFFFFFFFFFFF)


def cpp_decl(d):
    ns = "d_" + d["id"]
    pre, opts = [], []
    for s in d["services"]:
        opts.append("bluetoe::service< %s >" % cpp_uuid(s))
    name = d.get("name")
    if name is not None:
        pre.append("static constexpr char name[] = { %s };" % ", ".join(["char( %d )" % b for b in name.encode("latin-1")] + ["0"]))
        opts.append("bluetoe::server_name< name >")
    if d.get("appearance") is not None:
        opts.append("bluetoe::device_appearance< 0x%04X >" % d["appearance"])
    if d.get("advertise"):
        opts.append("bluetoe::advertise_appearance")
    l = d.get("lists", "default")
    if l == "none":
        opts.append("bluetoe::no_list_of_service_uuids")
    elif l != "default":
        if l.get("u16") is not None:
            opts.append("bluetoe::list_of_16_bit_service_uuids< %s >" % ", ".join(cpp_uuid(u) for u in l["u16"]))
        if l.get("u128") is not None:
            opts.append("bluetoe::list_of_128_bit_service_uuids< %s >" % ", ".join(cpp_uuid(u) for u in l["u128"]))
    if d.get("rng") == "default":
        opts.append("bluetoe::peripheral_connection_interval_range<>")
    elif d.get("rng") is not None:
        opts.append("bluetoe::peripheral_connection_interval_range< 0x%04X, 0x%04X >" % d["rng"])
    for key, arr, opt in (("cadv", "cadv", "custom_advertising_data"), ("cscan", "cscan", "custom_scan_response_data")):
        if d.get(key) is not None:
            n = len(d[key])
            # a zero-length array is not C++: Size = 0 is declared over a 1-element array (no byte of it is ever copied)
            pre.append("static const std::uint8_t %s[ %d ] = { %s };" % (arr, max(n, 1), ", ".join("0x%02X" % b for b in d[key]) or "0"))
            if n:
                opts.append("bluetoe::%s< sizeof( %s ), %s >" % (opt, arr, arr))
            else:
                raise ValueError("empty static custom data cannot be declared (Size must equal the array extent)")
    if d.get("nogap"):
        opts.append("bluetoe::no_gap_service_for_gatt_servers")
    if d.get("rtadv"):
        opts.append("bluetoe::runtime_custom_advertising_data")
    if d.get("rtscan"):
        opts.append("bluetoe::runtime_custom_scan_response_data")
    types = "namespace %s {\n    %s\n    using type = bluetoe::server<\n        %s >;\n}\n" % (ns, "\n    ".join(pre), ",\n        ".join(opts))
    reg = "DECL( %s, %s::type, %s, %s )\n" % (d["id"], ns, "true" if d.get("rtadv") else "false", "true" if d.get("rtscan") else "false")
    return types, reg


def inc_text(decls):
    parts = [cpp_decl(d) for d in decls]
    return "#ifdef VERIF_DECL_TYPES\n" + "".join(t for t, _ in parts) + "#endif\n" + "".join(r for _, r in parts)


def sweep_cases(d):
    """every buffer size 0..BMAX for both calls. The sizes below 2 of the scan response are single-operation cases
    (on the unfixed tree they fault, and a fault ends the case)."""
    w = cfg_words(d)
    cs = [Case("adv", w, ["adv %d" % b for b in range(BMAX + 1)]),
          Case("scan", w, ["scan %d" % b for b in range(2, BMAX + 1)]),
          Case("scan0", w, ["scan 0"]), Case("scan1", w, ["scan 1"])]
    if d.get("rtadv") or d.get("rtscan"):
        for ln in (0, 1, 7, 30, 31, 32, 40):
            data = hexs([(17 * i + ln) % 256 for i in range(ln)])
            cs.append(Case("rt", w, ["setadv " + data, "setscan " + data] + ["adv %d" % b for b in range(BMAX + 1)] + ["scan %d" % b for b in range(BMAX + 1)]))
    else:
        cs.append(Case("na", w, ["setadv 0102", "setscan -", "adv 31", "scan 31"]))
    return cs


class C14(Standard):
    component = "AdvData"
    harness = "advdata_harness.cpp"
    trusted_base = ["model coq/AdvData/AdvDataModel.v (hand written transcription, tied by this run)",
                    "declaration emitter props/C14.py (C++ server<> declaration and model cfg from one table; resolves default UUID lists)",
                    "gen/consts/advdata.py (AD type codes read from codes.hpp, pinned in Properties_C14.v)"]
    assumptions = ["server names contain no NUL octet (std::strlen)", "128-bit UUIDs are 16 octets (wf_cfg)",
                   "tiling / kind clauses are stated for buffer sizes b <= 259 (an AD length octet cannot truncate); memory safety for every b",
                   "custom data: tiling only when b >= size and the user's data is itself a sequence of AD structures"]

    def all_decls(self, ctx):
        return {d["id"]: d for d in DECLS + random_decls(ctx.seed)}

    def group_of(self, did):
        if did.startswith("R"):
            return "advdata_r%d" % (int(did[1:]) // 6)
        ids = [d["id"] for d in DECLS]
        return "advdata_g%d" % (ids.index(did) % GROUPS if did in ids else 0)

    def prepare(self, ctx, cases):
        decls = self.all_decls(ctx)
        groups = {}
        for c in cases:
            did = c.cfg[0] if c.cfg and c.cfg[0] in decls else "D01"
            groups.setdefault(self.group_of(did), []).append(c)
        res = []
        for key, cs in sorted(groups.items()):
            members = [d for i, d in sorted(decls.items()) if self.group_of(i) == key]
            d = os.path.join(ctx.bdir, key + ".d")
            os.makedirs(d, exist_ok=True)
            text = inc_text(members)
            p = os.path.join(d, "advdata_decls.inc")
            if not os.path.exists(p) or open(p).read() != text:
                with open(p, "w") as f:
                    f.write(text)
            res.append((key, ["-I" + d], cs))
        return res

    def generate(self, ctx):
        cases = []
        for d in DECLS + (random_decls(ctx.seed) if ctx.thorough else []):
            cases += sweep_cases(d)
            if ctx.thorough:
                w = cfg_words(d)
                cases.append(Case("big", w, ["adv %d" % b for b in range(BMAX + 1, 260)] + ["scan %d" % b for b in (41, 100, 255, 256, 1000)]))
        return cases

    def search_extra(self, ctx):
        return []   # the generated set is already the whole domain

    def nontrivial(self, case, outputs):
        # past the first size checks: something beyond the flags was written
        return any(o.split()[0].isdigit() and int(o.split()[0]) > 3 for o in outputs if o.split())


def run(ctx):
    rc = standard_check(ctx, C14())
    p = os.path.join(VERIF, "evidence", ctx.pid + ".json")
    try:
        ev = json.load(open(p))
        cov = ev.get("coverage", {})
        if not ctx.replay and not cov.get("harness_groups_failed_to_compile"):
            n = len(DECLS) + (len(random_decls(ctx.seed)) if ctx.thorough else 0)
            cov["exhaustive"] = True
            cov["exhaustive_domain"] = ("%d server<> declarations (props/C14.py DECLS%s) x {advertising_data, scan_response_data} x "
                                        "buffer size 0..%d, each evaluated on the implementation (exact-size heap buffer under ASan) "
                                        "and on the extracted model and judged by the monitor" % (n, " + seeded random" if ctx.thorough else "", BMAX))
            cov["exhaustive_cells"] = n * 2 * (BMAX + 1)
            ev["coverage"] = cov
            with open(p, "w") as f:
                json.dump(ev, f, indent=1, sort_keys=True)
                f.write("\n")
    except Exception:
        pass
    return rc
