"""C11 Indications are confirmed one at a time and never lost (notification_queue.hpp, server.hpp: l2cap_output,
handle_value_confirmation)."""
from vlib.core import standard_check
from props import att_common as AC
from props import notif_common as NC
from props.att_common import AttBase

META = dict(
    text="Indications are confirmed one at a time and never lost",
    design_ref="DESIGN.md section 6 C11; docs/C11.md",
    technique="Coq: queue level from C12 (NQueueProofs.monitor_accepts_model: no indication is dequeued while one is "
              "outstanding); server level: l2cap_output / Handle Value Confirmation over the queue, theorems by case analysis "
              "and a termination measure (pending requests); monitor with a bounded-liveness clause (slack counter); tie: "
              "random interleavings of indicate / notify / poll / confirm / CCCD writes on 3 connections",
    level_note="proved: one indication at a time along any history; bad confirmations rejected; NEVER LOST as bounded progress (C11_never_lost: a pending indication is dequeued within 2*qsize confirm/poll rounds in every reachable state, and transmitted when subscribed); TRACE LEVEL: monitor safety clauses accept every fault-free model trace (C11_monitor_core_accepts_model). NOT proved: trace level soundness of the slack-counter clauses (C11_monitor_accepts_model_full, Definition). See docs/C11.md")


class C11(AttBase):
    tag = "C11"
    quick_random = 0
    thorough_random = 40
    trusted_base = ["models coq/AttSrv/AttSrvModel.v, coq/NQueue/NQueueModel.v (tied by this run / by C12)",
                    "observer coq/AttSrv/AttSrvNotifSpec.v", "gen/emit_cpp.py, ocaml/attsrv_lib.ml (configuration language)"]
    assumptions = ["wf cfg", "the l2cap layer queues a request on every connection and routes a confirmation to the connection it arrived on",
                   "liveness is relative to the environment: l2cap_output is polled with a buffer of at least 3 bytes and confirmations arrive"]

    def configurations(self, ctx):
        cfgs = list(NC.CONFIGS)
        if ctx.thorough:
            cfgs += AC.random_configs(self.component, ctx.rng, self.thorough_random)
        return cfgs

    def generate(self, ctx):
        rng = ctx.rng
        cfgs = self.configurations(ctx)
        w = NC.Weights(request=22, out=26, cccd_write=8, confirm=14, bad_confirm=3, setval=1, val=1, mtu=1, sec=1)
        per = 30 if not ctx.thorough else 300
        cases = []
        for cfg, info in zip(cfgs, AC.infos(self.component, cfgs)):
            for k in range(per):
                f = NC.gen_subscribed_flow if k % 2 else NC.gen_notif
                cases.append(self.case("ind", cfg, f(rng, info, rng.choice([10, 25, 60]), w)))
        return cases

    def nontrivial(self, case, outputs):
        return any(o.startswith("1d") and len(o) >= 6 for o in outputs)

    def search_extra(self, ctx):
        rng = ctx.rng
        cfgs = self.configurations(ctx)[:8]
        w = NC.Weights(request=25, out=25, confirm=15)
        return [self.case("s", cfg, NC.gen_notif(rng, info, 40, w)) for cfg, info in zip(cfgs, AC.infos(self.component, cfgs)) for _ in range(50)]


def run(ctx):
    return standard_check(ctx, C11())
