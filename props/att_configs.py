"""Fixed corpus of server configurations (one per feature) + seeded random configuration generator for
the AttDb/AttSrv components. JSON schema: gen/emit_cpp.py. Shared by C01..C11 (via props/att_common.py)."""
import os, sys
sys.path.insert(0, os.path.join(os.path.dirname(os.path.dirname(os.path.abspath(__file__))), "gen"))
import emit_cpp  # noqa: E402

U128 = "8c8b40940de2499fa28a4eed5bc7%04x"          # family of 128-bit uuids


def bind(size, const=False):
    return dict(kind="bind", size=size, const=const)


def fixed(size, value):
    return dict(kind="fixed", size=size, value=value)


def cstr(text):
    return dict(kind="cstring", text=text)


def blob(hexbytes):
    return dict(kind="blob", bytes=hexbytes)


def handler(size, read=True, write=True, blob=True):
    return dict(kind="handler", size=size, read=read, write=write, blob=blob)


def ch(uuid, value, *opts, **kw):
    d = dict(uuid=uuid, value=value, opts=list(opts))
    d.update(kw)
    return d


def svc(uuid, *chars, **kw):
    d = dict(uuid=uuid, chars=list(chars))
    d.update(kw)
    return d


def srv(name, *services, **kw):
    d = dict(name=name, services=list(services))
    d.update(kw)
    return d


R, NR, MAY = "requires_encryption", "no_encryption_required", "may_require_encryption"
N, I, NOR, NOW, WWR, OWWR = "notify", "indicate", "no_read_access", "no_write_access", "write_without_response", "only_write_without_response"

CORPUS = [
    # three services, mixed 16/128 bit uuids, values of size 1,2,4 (the configuration of the C01/C04 Examples)
    srv("basic3",
        svc("1810", ch("2a00", bind(1)), ch(U128 % 1, bind(2), N), ch("2a02", bind(4), NOW)),
        svc(U128 % 0x100, ch("2a03", fixed(2, 0x1234)), ch(U128 % 2, bind(4), I, name="second")),
        svc("1811", ch("2a04", cstr("hello world")), ch("2a05", bind(1), NOR, WWR)),
        mtu=23),
    # fixed handles with gaps
    srv("fixed_handles",
        svc("1810", ch("2a00", bind(2), handle=5), ch("2a01", bind(4), N, handle=[9, 12, 15]), ch("2a02", bind(1), name="nm", handle=[20, 22, 0]), handle=3),
        svc(U128 % 0x100, ch(U128 % 1, bind(20), I, N, descs=[dict(uuid="2905", bytes="010203")]), ch("2a03", bind(1), handle=[0x40, 0x50, 0x60])),
        svc("1812", ch("2a04", bind(2), N, handle=0x100), handle=0x80),
        mtu=65, wq=32),
    # include declarations (16 bit and 128 bit), a secondary service, an empty service
    srv("includes",
        svc("1810", ch("2a00", bind(2)), ch("2a01", bind(1), N), includes=[U128 % 0x100, "1812"]),
        svc(U128 % 0x100, ch("2a02", bind(4)), secondary=True),
        svc("1812", ch("2a03", bind(1), I), includes=["1810"]),
        svc("1813"),
        mtu=24, wq=10),
    # includes together with fixed handles
    srv("includes_fixed",
        svc("1810", ch("2a00", bind(2), handle=0x20), includes=["1811"], handle=0x10),
        svc("1811", ch("2a01", bind(1), N, handle=[0x40, 0x42, 0x48]), handle=0x30, secondary=True),
        mtu=23),
    # secondary services before / between / after primary ones
    srv("secondary",
        svc("1820", ch("2a10", bind(1)), secondary=True),
        svc("1821", ch("2a11", bind(2))),
        svc(U128 % 0x200, ch("2a12", bind(1)), secondary=True),
        svc(U128 % 0x201, ch(U128 % 0x12, bind(4))),
        svc("1822", ch("2a13", bind(1)), secondary=True),
        mtu=23),
    # nine CCCDs (crossing the 4-per-byte boundary twice), no priorities
    srv("cccd9",
        svc("1810", *[ch("2a%02x" % i, bind(1 + i % 3), *([N] if i % 3 == 0 else [I] if i % 3 == 1 else [N, I])) for i in range(5)]),
        svc("1811", ch("2b00", bind(2)), *[ch("2b%02x" % i, bind(2), N) for i in range(1, 5)]),
        mtu=23, wq=32),
    # priorities: service levels with single entries, a prioritised service
    srv("priorities",
        svc("1810", ch("2a00", bind(1), N), ch("2a01", bind(2), N), ch("2a02", bind(1), I), prio=["2a01"]),
        svc("1811", ch("2a10", bind(1), N), ch("2a11", bind(1), N, I)),
        svc("1812", ch("2a20", bind(4), I), ch("2a21", bind(1), N), prio=["2a21", "2a20"]),
        prio=["1812"], mtu=23),
    srv("priorities2",
        svc("1810", ch("2a00", bind(1), N), ch("2a01", bind(2), N), ch("2a02", bind(1), N), prio=["2a02"]),
        svc("1811", ch("2a10", bind(1), N)),
        svc("1812", ch("2a20", bind(4), I)),
        prio=["1811", "1810"], mtu=23),
    # every encryption option placement: server requires
    srv("enc_server_requires",
        svc("1810", ch("2a00", bind(1)), ch("2a01", bind(1), enc=[NR]), ch("2a02", bind(1), N, enc=[MAY]), ch("2a03", bind(2), I, enc=[R])),
        svc("1811", ch("2a10", bind(1), N), ch("2a11", bind(1), enc=[R]), ch("2a12", bind(2), enc=[MAY]), enc=[NR]),
        svc("1812", ch("2a20", bind(1)), ch("2a21", bind(1), N, enc=[NR]), enc=[MAY]),
        enc=[R], mtu=23, wq=32),
    srv("enc_server_none",
        svc("1810", ch("2a00", bind(1)), ch("2a01", bind(1), enc=[NR]), ch("2a02", bind(1), N, enc=[MAY]), ch("2a03", bind(2), I, enc=[R])),
        svc("1811", ch("2a10", bind(1), N), ch("2a11", bind(1), enc=[NR]), ch("2a12", bind(2), enc=[R, NR]), enc=[R]),
        svc("1812", ch("2a20", fixed(1, 7)), ch("2a21", cstr("secret"), enc=[R]), enc=[R, MAY]),
        mtu=23, wq=10),
    srv("enc_server_may",
        svc("1810", ch("2a00", bind(1)), ch("2a01", bind(1), N, enc=[R])),
        svc("1811", ch("2a10", bind(1), N), enc=[R]),
        enc=[MAY], mtu=24),
    srv("enc_server_not_required",
        svc("1810", ch("2a00", bind(1)), ch("2a01", bind(1), I, enc=[R])),
        svc("1811", ch("2a10", bind(4), N), ch("2a11", bind(1), enc=[NR]), enc=[R]),
        enc=[NR], mtu=23, wq=32),
    # MTU sizes 23 / 24 / 65 / 300 with values longer than the MTU
    srv("mtu24", svc("1810", ch("2a00", bind(23), N), ch("2a01", bind(64)), ch("2a02", bind(20), I)), mtu=24, wq=142),
    srv("mtu65", svc("1810", ch("2a00", bind(64), N), ch("2a01", bind(23)), ch(U128 % 3, bind(64), I)),
        svc(U128 % 0x100, ch("2a02", bind(20))), mtu=65, wq=142),
    srv("mtu300",
        svc("1810", *[ch("2a00", bind(64), *([N] if i == 0 else [])) for i in range(6)]),
        svc("1811", *[ch("2a00", bind(4)) for i in range(10)]),
        *[svc("18%02x" % (0x20 + i), ch("2b00", bind(1))) for i in range(12)],
        mtu=300, wq=142),
    # write queue sizes 0 / 10 (others above), all value kinds, descriptors, names
    srv("values",
        svc("1810", ch("2a00", bind(1)), ch("2a01", bind(2, const=True)), ch("2a02", bind(4), WWR), ch("2a03", bind(20), OWWR),
            ch("2a04", bind(23), NOR), ch("2a05", bind(64), NOW, N)),
        svc(U128 % 0x100, ch("2a10", fixed(1, 0x42)), ch("2a11", fixed(2, 0xbeef), N), ch("2a12", fixed(4, 0x11223344), NOR),
            ch("2a13", cstr("bluetoe")), ch("2a14", blob("00ff10203040")), ch("2a15", cstr(""), name="")),
        svc("1812", ch("2a20", bind(2), N, name="a name", descs=[dict(uuid="290a", bytes="aabbccddeeff00112233")])),
        mtu=23, wq=0),
    srv("handlers",
        svc("1810", ch("2a00", handler(8)), ch("2a01", handler(4, write=False), N), ch("2a02", handler(30, read=False)),
            ch("2a03", handler(6, blob=False), I), ch("2a04", bind(2))),
        mtu=23, wq=32),
]


def by_name(name):
    for c in CORPUS:
        if c["name"] == name:
            return c
    raise KeyError(name)


# ------------------------------------------------------------------ random configurations
def random_cfg(rng, name="rnd"):
    """a seeded random declaration. Only shapes the headers accept are produced as far as that is known
    statically here; the result must still be filtered through the model's wf_b (att_common.wf_filter)."""
    n_s = rng.choice([1, 1, 2, 2, 3, 4])
    used_s, used_c = set(), set()

    def new_uuid(used, base, p128):
        while True:
            u = (U128 % rng.randrange(0x10000)) if rng.random() < p128 else "%04x" % (base + rng.randrange(0x40))
            if u not in used and u != "0001":
                used.add(u)
                return u
    services = []
    h = 1                       # lower bound for the next fixed handle
    fixed_handles = rng.random() < 0.4
    with_enc = rng.random() < 0.4
    with_prio = rng.random() < 0.35

    def enc():
        if not with_enc or rng.random() < 0.5:
            return []
        return [rng.choice([R, NR, MAY])] if rng.random() < 0.85 else rng.sample([R, NR, MAY], 2)
    for si in range(n_s):
        su = new_uuid(used_s, 0x1800, 0.3)
        s = svc(su, secondary=rng.random() < 0.2, enc=enc())
        if fixed_handles and rng.random() < 0.5:
            h += rng.randrange(0, 6)
            s["handle"] = h
        h += 1
        for ci in range(rng.choice([0, 1, 1, 2, 2, 3, 4])):
            cu = new_uuid(used_c, 0x2a00, 0.25) if rng.random() < 0.9 or not used_c else rng.choice(sorted(used_c))
            k = rng.random()
            opts = []
            if k < 0.6:
                v = bind(rng.choice([1, 1, 2, 2, 4, 4, 20, 23, 64, 3, 19, 21, 22]), const=rng.random() < 0.1)
            elif k < 0.72:
                sz = rng.choice([1, 2, 4])
                v = fixed(sz, rng.randrange(1 << (8 * sz)))
            elif k < 0.82:
                v = cstr("".join(rng.choice("abcdefghijklmnopqrstuvwxyz 0123456789") for _ in range(rng.choice([0, 1, 5, 22, 30]))))
            elif k < 0.9:
                v = blob("".join("%02x" % rng.randrange(256) for _ in range(rng.choice([1, 2, 16, 22, 40]))))
            else:
                rd, wr = rng.choice([(True, True), (True, False), (False, True)])
                v = handler(rng.choice([1, 4, 8, 30]), read=rd, write=wr, blob=rng.random() < 0.6)
            for o, p in ((N, 0.35), (I, 0.2), (NOR, 0.1), (NOW, 0.12), (WWR, 0.1), (OWWR, 0.05)):
                if rng.random() < p:
                    opts.append(o)
            if v["kind"] == "handler":
                # static_asserts of value_handler_base
                if not v["read"]:
                    opts = [o for o in opts if o not in (N, I)]
                if v["write"] or WWR in opts:
                    opts = [o for o in opts if o != NOW]
            c = ch(cu, v, *opts, enc=enc())
            if rng.random() < 0.15:
                c["name"] = "".join(rng.choice("abcdefgh") for _ in range(rng.choice([0, 3, 25])))
            if rng.random() < 0.12:
                c["descs"] = [dict(uuid="29%02x" % rng.randrange(3, 0x10), bytes="".join("%02x" % rng.randrange(256) for _ in range(rng.choice([1, 2, 25]))))
                              for _ in range(1)]      # two descriptor<> options in one characteristic do not compile
            n_attr = 2 + (1 if (N in opts or I in opts) else 0) + (1 if c.get("name") is not None else 0) + len(c.get("descs") or [])
            if fixed_handles and rng.random() < 0.45:
                h += rng.randrange(0, 5)
                if rng.random() < 0.5:
                    c["handle"] = h
                    h += n_attr
                else:
                    d = h
                    v_ = d + 1 + rng.randrange(0, 3)
                    cc = 0 if rng.random() < 0.4 else v_ + 1 + rng.randrange(0, 3)
                    c["handle"] = [d, v_, cc]
                    h = (cc if cc else v_ + 1) + max(n_attr - 2, 1) if n_attr > 2 else v_ + 1
            else:
                h += n_attr
            s["chars"].append(c)
        services.append(s)
    # includes
    if n_s > 1 and rng.random() < 0.3:
        for s in services:
            if rng.random() < 0.5:
                s["includes"] = [rng.choice(services)["uuid"] for _ in range(rng.choice([1, 1, 2]))]
    cfg = srv(name, *services, mtu=rng.choice([23, 23, 24, 40, 65, 100, 255, 256, 257, 258, 300]),
              wq=rng.choice([None, 0, 10, 32, 142]), enc=enc())
    if with_prio:
        for s in services:
            cc = [c["uuid"] for c in s["chars"] if N in c["opts"] or I in c["opts"]]
            cc = sorted(set(cc), key=cc.index)
            if cc and rng.random() < 0.6:
                s["prio"] = rng.sample(cc, rng.randrange(1, len(cc) + 1))
        ss = [s["uuid"] for s in services if any(N in c["opts"] or I in c["opts"] for c in s["chars"])]
        if ss and rng.random() < 0.6:
            cfg["prio"] = rng.sample(ss, rng.randrange(1, len(ss) + 1))
    return cfg
