"""C12 Outgoing notification queue is a fair priority queue (notification_queue.hpp)"""
from vlib.core import Standard, Case, standard_check
import hashlib, os

SIZES = ["1", "2", "3", "4", "5", "9", "1,1", "1,3", "3,1,2", "1,1,1,1", "4,4", "2,1,5", "8", "13"]


def gen_ops(rng, sizes, n):
    total = sum(sizes)
    ops = []
    # weights shift between phases so that queues fill up and drain
    for _ in range(n):
        r = rng.random()
        fill = rng.random() < 0.5
        if r < (0.55 if fill else 0.25):
            i = rng.randrange(total + (1 if rng.random() < 0.05 else 0))
            ops.append(("qn %d" if rng.random() < 0.5 else "qi %d") % i)
        elif r < 0.85:
            ops.append("deq")
        elif r < 0.97:
            ops.append("conf")
        else:
            ops.append("clr")
    return ops


class C12(Standard):
    component = "NQueue"
    harness = "nqueue_harness.cpp"
    trusted_base = ["model of notification_queue.hpp in coq/NQueue/NQueueModel.v (hand written, tied by this correspondence run)"]
    assumptions = ["single context: no interleaving of producer and consumer (that is C13)",
                   "priority levels have Size >= 1 (wf_sizes)"]

    def prepare(self, ctx, cases):
        cfgs = sorted(set(c.cfg[0] for c in cases))
        key = "nqueue_" + hashlib.sha1(";".join(cfgs).encode()).hexdigest()[:10]
        d = os.path.join(ctx.bdir, key + ".d")
        os.makedirs(d, exist_ok=True)
        with open(os.path.join(d, "nqueue_configs.inc"), "w") as f:
            f.write("".join("CFG(%s)\n" % c for c in cfgs))
        return [(key, ["-I" + d], cases)]

    def generate(self, ctx):
        rng = ctx.rng
        cases = []
        per = 40 if not ctx.thorough else 600
        for s in SIZES + (["7,1,1,6", "16", "2,2,2,2,2", "1,30"] if ctx.thorough else []):
            sizes = [int(x) for x in s.split(",")]
            # boundary family: both kinds on every index, then drain
            tot = sum(sizes)
            b = []
            for i in range(tot):
                b += ["qi %d" % i, "qn %d" % i, "qn %d" % i]
            b += ["deq"] * (tot + 2) + ["conf"] + ["deq"] * (tot + 1)
            cases.append(Case("boundary", [s], b))
            for k in range(per):
                cases.append(Case("rnd", [s], gen_ops(rng, sizes, rng.choice([6, 12, 30, 80]))))
        return cases

    def search_extra(self, ctx):
        rng = ctx.rng
        return [Case("s", [s], gen_ops(rng, [int(x) for x in s.split(",")], 60)) for s in SIZES for _ in range(300)]

    def nontrivial(self, case, outputs):
        return any(o.startswith(("n ", "i ")) for o in outputs)


def run(ctx):
    return standard_check(ctx, C12())
