"""Configurations and traffic generators of the notification path properties C08..C11 (server::l2cap_output,
notify / indicate, the CCCD attribute, Exchange MTU, Handle Value Confirmation) on top of props/att_common.py.
Server max MTU in {23, 24, 65, 100, 300}; 1, 4, 5, 9 CCCDs with and without priorities; 3 connections."""
from props import att_common as AC
from props import att_configs as K
from props.att_configs import srv, svc, ch, bind, fixed, handler, N, I, NOR, NOW, R

U = K.U128

CONFIGS = [
    # one CCCD, value longer than the default MTU
    srv("n1_mtu23", svc("1810", ch("2a00", bind(2)), ch("2a01", bind(30), N, I)), mtu=23),
    # one CCCD in a priority list: a queue level of size 1
    srv("p1_mtu24", svc("1810", ch("2a00", bind(25), N, I), ch("2a01", bind(1)), prio=["2a00"]), mtu=24),
    # four CCCDs (one byte of packed configuration)
    srv("n4_mtu24",
        svc("1810", ch("2a00", bind(1), N), ch("2a01", bind(22), I), ch("2a02", bind(3))),
        svc("1811", ch("2a10", bind(25), N, I), ch("2a11", bind(60), N)),
        mtu=24),
    # four CCCDs, priorities reorder them (declaration order a b c d -> sorted c, a, b/d ...)
    srv("p4_mtu100",
        svc("1810", ch("2a00", bind(4), N), ch("2a01", bind(50), N, I), ch("2a02", bind(98), I), prio=["2a02", "2a01"]),
        svc("1811", ch("2a10", bind(120), N)),
        mtu=100),
    # five CCCDs (crossing the 4-per-byte boundary)
    srv("n5_mtu65",
        svc("1810", ch("2a00", bind(70), N), ch("2a01", bind(2), I), ch(U % 1, bind(62), N, I)),
        svc(U % 0x100, ch("2a02", bind(63), I), ch("2a03", bind(5)), ch("2a04", bind(64), N)),
        mtu=65, wq=32),
    # five CCCDs, server and service priorities
    srv("p5_mtu300",
        svc("1810", ch("2a00", bind(310), N), ch("2a01", bind(2), I)),
        svc("1811", ch("2a10", bind(20), N, I), ch("2a11", bind(297), N), prio=["2a11"]),
        svc("1812", ch("2a20", bind(40), I)),
        prio=["1812", "1811"], mtu=300),
    # nine CCCDs (three bytes of packed configuration)
    srv("n9_mtu100",
        svc("1810", *[ch("2a%02x" % i, bind(1 + 13 * i), *([N] if i % 3 == 0 else [I] if i % 3 == 1 else [N, I])) for i in range(5)]),
        svc("1811", ch("2b00", bind(2)), *[ch("2b%02x" % i, bind(95 + i), N) for i in range(1, 5)]),
        mtu=100),
    # nine CCCDs with priorities in three services
    srv("p9_mtu65",
        svc("1810", ch("2a00", bind(1), N), ch("2a01", bind(70), N), ch("2a02", bind(2), I), ch("2a03", bind(3), N, I), prio=["2a03", "2a01"]),
        svc("1811", ch("2a10", bind(64), N), ch("2a11", bind(62), N, I), ch("2a12", bind(1))),
        svc("1812", ch("2a20", bind(4), I), ch("2a21", bind(1), N), ch("2a22", bind(30), N, I), prio=["2a21", "2a20", "2a22"]),
        prio=["1812"], mtu=65),
    # other value kinds, a duplicated uuid (notify< UUID >() finds the first), a const value, encryption
    srv("misc_mtu23",
        svc("1810", ch("2a00", handler(30, write=False), N), ch("2a01", fixed(4, 0x11223344), N, I), ch("2a02", bind(3, const=True), N),
            ch("2a03", bind(24), I, enc=[R])),
        svc("1811", ch("2a00", bind(4), N), ch("2a10", bind(2), NOR, N)),
        mtu=23, wq=20),
]

# a service without characteristics in front of a notifying characteristic: known finding of C10
EMPTY_SERVICE = srv("emptysvc_mtu23", svc("1810"), svc("1811", ch("2a00", bind(2), N, I), ch("2a01", bind(3), N)), mtu=23)


def char_handles(info):
    """[(characteristic number, value handle, cccd handle or None)] in declaration order"""
    out, ci = [], 0
    for i, u in enumerate(info.uuids):
        if u == "2803":
            vh = info.handles[i + 1] if i + 1 < len(info.handles) else 0
            cc = info.handles[i + 2] if i + 2 < len(info.uuids) and info.uuids[i + 2] == "2902" else None
            out.append((ci, vh, cc))
            ci += 1
    return out


class Weights:
    """relative frequencies of the operation kinds of gen_notif"""

    def __init__(self, **kw):
        self.w = dict(cccd_write=10, cccd_read=4, request=14, out=18, confirm=8, bad_confirm=1, mtu=3, bad_mtu=1,
                      setval=3, val=3, read_value=2, disc=1, sec=0, other=2, cbs=0)
        self.w.update(kw)

    def pick(self, rng):
        ks = sorted(self.w)
        return rng.choices(ks, [self.w[k] for k in ks])[0]


def cccd_bytes(rng):
    return rng.choice(["0100", "0200", "0300", "0300", "0000", "01", "02", "03", "00", "ff00", "0101", "0400", "", "010000"])


def gen_notif(rng, info, n, weights, conns=3):
    """a random interleaving of CCCD writes / reads, notify / indicate by value and by uuid, l2cap_output polls,
    confirmations, MTU exchanges, value changes on `conns` connections"""
    chs = char_handles(info)
    with_cccd = [x for x in chs if x[2]]
    ops = []
    big = [23, info.mtu, info.mtu, info.mtu + 1, 512]
    for _ in range(n):
        k = weights.pick(rng)
        c = rng.randrange(conns)
        if k == "cccd_write" and with_cccd:
            _, _, h = rng.choice(with_cccd)
            ops.append("in %d %s%s%s %d" % (c, rng.choice(["12", "12", "12", "52"]), AC.le16(h), cccd_bytes(rng), rng.choice(big)))
        elif k == "cccd_read" and with_cccd:
            _, _, h = rng.choice(with_cccd)
            if rng.random() < 0.7:
                ops.append("in %d 0a%s %d" % (c, AC.le16(h), rng.choice(big)))
            else:
                ops.append("in %d 0c%s%s %d" % (c, AC.le16(h), AC.le16(rng.choice([0, 1, 2, 3])), rng.choice(big)))
        elif k == "request" and chs:
            g = rng.choice(with_cccd)[0] if with_cccd and rng.random() < 0.9 else rng.choice(chs)[0]
            ops.append("%s %d" % (rng.choice(["notify", "indicate", "notify_uuid", "indicate_uuid"]), g))
        elif k == "out":
            ops.append("out %d %d" % (c, rng.choice([0, 2, 3, 4, 22, 23, 23, 24, info.mtu - 1, info.mtu, info.mtu, info.mtu + 1, 100, 512, 512])))
        elif k == "confirm":
            ops.append("in %d 1e %d" % (c, rng.choice(big)))
        elif k == "bad_confirm":
            ops.append("in %d 1e%s %d" % (c, AC.rnd_hex(rng, rng.choice([1, 2, 4])), rng.choice(big)))
        elif k == "mtu":
            ops.append("in %d 02%s %d" % (c, AC.le16(rng.choice([23, 24, 25, 64, 65, 66, 99, 100, 101, 299, 300, 301, 512, 0xffff, info.mtu])), rng.choice(big)))
        elif k == "bad_mtu":
            ops.append("in %d %s %d" % (c, rng.choice(["02" + AC.le16(rng.choice([0, 1, 22])), "02", "0217", "0217000000", "02ffff00"]), rng.choice(big)))
        elif k == "setval" and chs:
            g = rng.choice(chs)[0]
            ops.append("setval %d %s" % (g, AC.rnd_hex(rng, max(1, min(info.sizes.get(g, 1), rng.choice([1, 2, 400]))))))
        elif k == "val" and chs:
            ops.append("val %d" % rng.choice(chs)[0])
        elif k == "read_value" and chs:
            ops.append("in %d 0a%s %d" % (c, AC.le16(rng.choice(chs)[1]), rng.choice(big)))
        elif k == "disc":
            ops.append("disc %d" % c)
        elif k == "sec":
            ops.append("sec %d %d %d" % (c, rng.randrange(2), rng.randrange(4)))
        elif k == "cbs":
            ops.append("cbs")
        else:
            pdu = AC.gen_pdu(rng, info, rng.choice([0x02, 0x0a, 0x0a, 0x0c, 0x12, 0x12, 0x52, 0x1e, 0x01]))   # no discovery requests: C02 / C03
            ops.append("in %d %s %d" % (c, pdu, rng.choice(big)))
    return ops


def gen_subscribed_flow(rng, info, n, weights):
    """subscribe everything on one or two connections first (so that requests are transmitted), then traffic"""
    chs = [x for x in char_handles(info) if x[2]]
    ops = []
    for c in rng.sample(range(3), rng.choice([1, 2, 3])):
        for _, _, h in chs:
            if rng.random() < 0.85:
                ops.append("in %d 12%s%s %d" % (c, AC.le16(h), rng.choice(["0300", "0300", "0100", "0200"]), 23))
    return ops + gen_notif(rng, info, n, weights)


def sent_pdu(outputs):
    return any(o[:2] in ("1b", "1d") and len(o) >= 6 for o in outputs)
