"""shared by C37 / C38: host build of bluetoe/bindings/nordic/nrf52/security_tool_box.cpp
(harness/toolbox_harness.cpp #includes it) against the emulated register header harness/verif_nrf/nrf.h,
linked with the real uECC.c, tests/test_tools/aes.c (the ECB peripheral's AES) and utility/address.cpp."""
import os, subprocess
from vlib import core

NORDIC = "bluetoe/bindings/nordic"
OBJ_FLAGS = ["-O1", "-g", "-fsanitize=address,undefined", "-fno-sanitize-recover=all", "-w"]


def _obj(ctx, src, name, defs=()):
    """compile a C source of the repository into ctx.bdir (once per run); on failure hand the source itself to
    the harness link line, so that the failure shows up as 'harness no longer compiles'"""
    out = os.path.join(ctx.bdir, name)
    cache = ctx.__dict__.setdefault("tb_objs", {})
    if name not in cache:
        cmd = ["gcc", "-c"] + OBJ_FLAGS + list(defs) + [os.path.join(core.REPO, src), "-o", out]
        try:
            p = subprocess.run(cmd, capture_output=True, text=True, timeout=600)
            cache[name] = out if p.returncode == 0 else os.path.join(core.REPO, src)
        except subprocess.TimeoutExpired:
            cache[name] = os.path.join(core.REPO, src)
    return cache[name]


def harness_extra(ctx):
    r = core.REPO
    inc = [os.path.join(core.VERIF, "harness", "verif_nrf"), os.path.join(r, NORDIC, "nrf52"),
           os.path.join(r, NORDIC, "nrf52", "include"), os.path.join(r, NORDIC, "include"),
           os.path.join(r, NORDIC, "uECC"), os.path.join(r, "tests", "test_tools")]
    objs = core.parallel([(NORDIC + "/uECC/uECC.c", "uECC.o", ["-DuECC_CURVE=uECC_secp256r1"]),
                          ("tests/test_tools/aes.c", "aes.o", [])], lambda j: _obj(ctx, j[0], j[1], j[2]), 2)
    # -fpermissive: the code stores a pointer in the 32 bit ECBDATAPTR register; -no-pie: static storage below 4 GB
    return (["-fpermissive", "-no-pie"] + ["-I" + i for i in inc] + objs +
            [os.path.join(r, "bluetoe", "utility", "address.cpp")])


def hexb(bs):
    return "".join("%02x" % b for b in bs) if len(bs) else "-"


def rnd(rng, n):
    return bytes(rng.getrandbits(8) for _ in range(n))


TRUSTED = [
    "harness/verif_nrf/nrf.h: emulated RNG (scripted byte stream, zeros after its end) and ECB peripheral (AES-128 from tests/test_tools/aes.c); host build with -fpermissive -no-pie instead of the Cortex-M4 target",
    "model coq/ToolBox/ToolBoxModel.v (hand written transcription of security_tool_box.cpp, tied by this run); constants and buffer offsets re-read from the sources by gen/consts/toolbox.py and pinned in the Properties file",
]
