"""Shared description of the checks C15, C16, C17 (component PduBuf, ll_data_pdu_buffer.hpp).

The three properties share model, monitor state, harness and generators; they differ in which monitor
clauses count (PduBufSpec.tag_in, selected by the first configuration word of every CASE line).

CASE <name> <C15|C16|C17> <overhead 0|1> <TransmitSize> <ReceiveSize>
"""
import hashlib, os, re, subprocess
from vlib.core import Standard, Case, BUILD, REPO, VERIF

# (layout overhead, TransmitSize, ReceiveSize)
CONFIGS_QUICK = [(0, 100, 100), (1, 100, 100), (0, 61, 61), (1, 61, 61), (0, 29, 29), (1, 30, 30),
                 (0, 300, 300), (1, 253, 255), (0, 40, 90), (1, 90, 35)]
CONFIGS_MORE = [(0, 31, 31), (1, 32, 31), (0, 58, 58), (1, 60, 60), (0, 251, 251), (1, 600, 600),
                (0, 1000, 64), (1, 64, 1000), (0, 87, 87), (1, 120, 45)]


# --------------------------------------------------------------------------- text cut out of the sources
def _brace_block(src, start):
    """text from index start up to and including the '}' that closes the first '{' after start, plus ';'"""
    i = src.index("{", start)
    depth = 0
    for j in range(i, len(src)):
        if src[j] == "{":
            depth += 1
        elif src[j] == "}":
            depth -= 1
            if depth == 0:
                k = j + 1
                while k < len(src) and src[k] in " \t\r\n":
                    k += 1
                return src[start:k + 1] if k < len(src) and src[k] == ";" else src[start:j + 1] + ";"
    raise ValueError("unbalanced braces")


def extract_sources(repo):
    """-> dict filename -> text for the harness include directory"""
    out = {}
    defs = []
    try:
        s = open(os.path.join(repo, "bluetoe/bindings/nordic/include/bluetoe/nrf.hpp")).read()
        out["pdubuf_layout.inc"] = _brace_block(s, s.index("struct encrypted_pdu_layout")) + "\n"
        defs.append("#define PDUBUF_HAVE_LAYOUT 1")
    except Exception as e:  # noqa
        out["pdubuf_layout.inc"] = "#error \"struct encrypted_pdu_layout not found in nrf.hpp: %s\"\n" % str(e).replace('"', "'")
        defs.append("#define PDUBUF_HAVE_LAYOUT 1")
    try:
        h = open(os.path.join(repo, "bluetoe/bindings/nordic/nrf52/include/bluetoe/nrf52.hpp")).read()
        c = open(os.path.join(repo, "bluetoe/bindings/nordic/nrf52/nrf52.cpp")).read()
        out["pdubuf_counter_decl.inc"] = _brace_block(h, h.index("struct counter")) + "\n"
        m = re.search(r"\n([ \t]*counter::counter\(\).*?)\n\s*/{10,}", c, re.S)
        if not m:
            raise ValueError("counter members not found in nrf52.cpp")
        out["pdubuf_counter_impl.inc"] = m.group(1) + "\n"
        defs.append("#define PDUBUF_HAVE_COUNTER 1")
    except Exception as e:  # noqa
        out["pdubuf_counter_decl.inc"] = "#error \"counter not found in nrf52 sources: %s\"\n" % str(e).replace('"', "'")
        out["pdubuf_counter_impl.inc"] = "\n"
        defs.append("#define PDUBUF_HAVE_COUNTER 1")
    out["pdubuf_extracted.inc"] = "\n".join(defs) + "\n"
    return out


# --------------------------------------------------------------------------- helpers
def hexb(b):
    return "".join("%02x" % x for x in b) if b else "-"


def payload(rng, n):
    return [rng.randrange(256) for _ in range(n)]


class ModelOracle:
    """the extracted model as a lock-step oracle (used only to GENERATE closed-loop operation sequences:
    the conformant central needs the peripheral's responses to decide what to send next)"""

    def __init__(self):
        self.p = subprocess.Popen([os.path.join(BUILD, "btmodel_pdubuf"), "model"], stdin=subprocess.PIPE,
                                  stdout=subprocess.PIPE, text=True, bufsize=1)

    def case(self, cfg):
        self.p.stdin.write("CASE g %s\n" % " ".join(cfg))
        self.p.stdin.flush()
        self.p.stdout.readline()

    def op(self, line):
        self.p.stdin.write(line + "\n")
        self.p.stdin.flush()
        return self.p.stdout.readline().strip()

    def close(self):
        try:
            self.p.stdin.close()
            self.p.wait(timeout=5)
        except Exception:
            self.p.kill()


class Central:
    """Core specification conformant central (same rules as PduBufSpec.cen_*)"""

    def __init__(self):
        self.sn, self.nesn, self.cur = 0, 0, None

    def packet(self, rng, fresh):
        if self.cur is None:
            self.cur = fresh
        llid, body = self.cur
        hl = llid | (self.nesn << 2) | (self.sn << 3) | (0x10 if rng.random() < 0.2 else 0)
        return hl, body

    def response(self, out):
        w = out.split()
        if len(w) != 6 or w[0] not in "RAN":
            return
        h = int(w[2][0:2], 16)
        if ((h >> 2) & 1) != self.sn:
            self.sn ^= 1
            self.cur = None
        if ((h >> 3) & 1) == self.nesn:
            self.nesn ^= 1


def closed_loop_case(rng, oracle, cfg, n_events, p_lost=0.15, p_mic=0.1, p_resp_lost=0.2, traffic=0.6, ll_rate=0.5,
                     maxrx=None, maxtx=None):
    """one connection: events of a conformant central over a faulty channel, interleaved with link layer
    operations; the sequence is generated against the model and later replayed on both sides"""
    o, T, R = int(cfg[1]), int(cfg[2]), int(cfg[3])
    oracle.case(cfg)
    ops = []

    def do(line):
        ops.append(line)
        return oracle.op(line)
    mrx, mtx = 29, 29
    if maxrx:
        if do("maxrx %d" % maxrx) == "-":
            mrx = maxrx
    if maxtx:
        if do("maxtx %d" % maxtx) == "-":
            mtx = maxtx
    cen = Central()
    for _ in range(n_events):
        # link layer side
        while rng.random() < ll_rate:
            r = rng.random()
            if r < 0.4:
                n = rng.choice([1, 1, 2, 5, mtx - 2, rng.randrange(1, mtx - 1)])
                size = rng.choice([n + 2 + o, mtx + o, rng.randrange(n + 2 + o, mtx + o + 1)])
                do("tx %d %02x %s" % (size, rng.choice([1, 2, 3]), hexb(payload(rng, n))))
            elif r < 0.65:
                do("nr")
            elif r < 0.9:
                do("fr")
            else:
                do("pend")
        # connection event
        if rng.random() < traffic:
            n = rng.choice([1, 2, 7, mrx - 2, rng.randrange(1, mrx - 1)])
            fresh = (rng.choice([1, 2, 2, 3, 3, 0]), payload(rng, n))
        else:
            fresh = (1, [])
        hl, body = cen.packet(rng, fresh)
        r = rng.random()
        if r < p_lost:
            continue
        # a MIC failure can only be reported for a non-empty PDU (nrf52.cpp received_pdu()); the open
        # loop generators also send empty ones
        out = do(("mic %02x %s" if r < p_lost + p_mic and body else "rx %02x %s") % (hl, hexb(body)))
        if rng.random() >= p_resp_lost:
            cen.response(out)
    return ops


def open_loop_ops(rng, cfg, n, malformed=False):
    o, T, R = int(cfg[1]), int(cfg[2]), int(cfg[3])
    ops = []
    mrx, mtx = 29, 29
    for _ in range(n):
        r = rng.random()
        if r < 0.04:
            v = rng.choice([29, 30, 40, 251, 252, 28, R - o, R - o + 1, R - o - 1, rng.randrange(20, 260)])
            ops.append("maxrx %d" % v)
            if 29 <= v <= 251 and v + o <= R:
                mrx = v
        elif r < 0.08:
            v = rng.choice([29, 30, 40, 251, 252, 28, T - o, T - o + 1, T - o - 1, rng.randrange(20, 260)])
            ops.append("maxtx %d" % v)
            if 29 <= v <= 251 and v + o <= T:
                mtx = v
        elif r < 0.09:
            ops.append("reset")
            mrx = mtx = 29
        elif r < 0.10:
            ops.append("stop")
        elif r < 0.30:
            n_ = rng.choice([1, 2, mtx - 2, mtx - 1, rng.randrange(1, mtx), 0 if malformed else 1])
            size = rng.choice([n_ + 2 + o, mtx + o, mtx + o + 1, n_ + 1 + o, rng.randrange(2, mtx + o + 2)])
            hl = rng.choice([1, 2, 3]) if not malformed and rng.random() < 0.85 else rng.randrange(256)
            ops.append("tx %d %02x %s" % (size, hl, hexb(payload(rng, n_))))
        elif r < 0.36:
            ops.append("pend")
        elif r < 0.46:
            ops.append("nr")
        elif r < 0.56:
            ops.append("fr")
        elif r < 0.62:
            ops.append("nt")
        else:
            n_ = rng.choice([0, 0, 1, 2, mrx - 2, mrx - 3, mrx - 1 if malformed else mrx - 2, rng.randrange(0, mrx - 1)])
            hl = rng.randrange(32) if rng.random() < 0.8 else rng.randrange(256)
            ops.append(("mic %02x %s" if rng.random() < 0.2 else "rx %02x %s") % (hl, hexb(payload(rng, n_))))
    return ops


def boundary_cases(cfg):
    o, T, R = int(cfg[1]), int(cfg[2]), int(cfg[3])
    cases = []
    # receive ring filled to the brim, then acknowledgements without buffer, then drained
    b = []
    sn = 0
    for i in range(R // 5 + 3):
        b.append("rx %02x %s" % (1 | (sn << 3), hexb([i & 255, 1, 2])))
        sn ^= 1
    b += ["nr", "fr"] * 3 + ["rx %02x %s" % (1 | (sn << 3), hexb([9] * 27))] + ["nr", "fr"] * (R // 5 + 4)
    cases.append(Case("b_rxfull", cfg, b))
    # transmit ring filled, every PDU acknowledged in turn (NESN alternating), lost acknowledgements in between
    b = []
    for i in range(T // 4 + 3):
        b.append("tx %d 02 %s" % (3 + o, hexb([i & 255])))
    nesn = 1
    for i in range(T // 4 + 5):
        b += ["nt", "rx %02x -" % (1 | ((nesn ^ 1) << 2)), "rx %02x -" % (1 | (nesn << 2) | 8), "pend"]
        nesn ^= 1
    cases.append(Case("b_txfull", cfg, b))
    # size limits
    b = []
    for v in (28, 29, 251, 252, R - o - 1, R - o, R - o + 1):
        b += ["maxrx %d" % v, "rx 01 %s" % hexb([7] * 27), "rx 09 %s" % hexb([7] * 28), "nr", "fr", "nr", "fr"]
    for v in (28, 29, 251, 252, T - o - 1, T - o, T - o + 1):
        b += ["maxtx %d" % v, "tx %d 01 %s" % (29 + o, hexb([5] * 27)), "tx %d 01 %s" % (30 + o, hexb([5] * 27)),
              "tx %d 01 %s" % (28 + o, hexb([5] * 27)), "nt", "rx 05 -", "rx 09 -", "rx 05 -"]
    cases.append(Case("b_sizes", cfg, b))
    if R - o >= 251:
        b = ["maxrx 251", "rx 02 %s" % hexb([3] * 249), "nr", "fr", "rx 0a %s" % hexb([4] * 250), "rx 0a %s" % hexb([4] * 249), "nr"]
        cases.append(Case("b_rxmax", cfg, b))
    if T - o >= 251:
        b = ["maxtx 251", "tx %d 02 %s" % (251 + o, hexb([3] * 249)), "nt", "rx 05 -", "tx %d 02 %s" % (251 + o, hexb([6] * 249)), "nt"]
        cases.append(Case("b_txmax", cfg, b))
    # every header low byte once, as received() and as acknowledge()
    b = []
    for hl in range(256):
        b.append("rx %02x %s" % (hl, hexb([hl])))
        if hl % 8 == 7:
            b += ["nr", "fr", "nr", "fr", "nr", "fr", "nr", "fr", "nr", "fr", "nr", "fr", "nr", "fr", "nr", "fr"]
    cases.append(Case("b_hdr_rx", cfg, b))
    b = ["tx %d 01 aa" % (3 + o), "tx %d 02 bb" % (3 + o)]
    for hl in range(64):
        b += ["mic %02x %s" % (hl, hexb([hl])), "nr"]
    cases.append(Case("b_hdr_mic", cfg, b))
    # stop: commits are ignored, the rest goes on
    b = ["tx %d 01 aa" % (3 + o), "stop", "tx %d 01 bb" % (3 + o), "nt", "rx 05 -", "nt", "rx 09 11", "nr", "pend", "reset", "tx %d 01 cc" % (3 + o), "nt"]
    cases.append(Case("b_stop", cfg, b))
    return cases


COUNTER_OPS = ["ctr 0 0 0", "ctr 0 0 1", "ctr 0 0 300", "ctr 4294967295 0 1", "ctr 4294967294 0 3", "ctr 4294967295 127 1",
               "ctr 4294967295 255 1", "ctr 4294967040 7 600", "ctr 305419896 18 5", "ctr 65535 0 2", "ctr 16777215 3 2"]


class PduBufCheck(Standard):
    component = "PduBuf"
    harness = "pdubuf_harness.cpp"
    pid = "C15"
    trusted_base = [
        "model of ll_data_pdu_buffer.hpp in coq/PduBuf/PduBufModel.v (hand written, tied by this correspondence run); "
        "pdu_ring_buffer is represented by a FIFO plus the alloc_front() placement arithmetic (its internals are property C18)",
        "Core specification 4.5.9 acknowledgement scheme as transcribed in PduBufSpec.v (central cen_*, monitor mstep)",
        "props/pdubuf_common.py: text of encrypted_pdu_layout and of counter cut out of the nRF sources and compiled unchanged",
    ]
    assumptions = [
        "system theorems: the central follows the Core specification's SN/NESN rules (cen_load/cen_recv), the channel may lose or damage "
        "any packet in either direction; header bits are not altered on a packet that passes the CRC",
        "the link layer calls the buffer within its documented preconditions (operations answered 'pre' are not executed on either side)",
        "modelled, not tied: nrf52.hpp radio_interrupt_handler's choice among received/acknowledge/next_transmit (isr_decide) and "
        "nrf52.cpp received_pdu() (received_pdu_flags); the harness makes the same choice for rx/mic operations",
    ]

    def prepare(self, ctx, cases):
        # one compiled harness per fixed bucket of two configurations (compiled in parallel); the buckets do not
        # depend on the cases, so that shrinking re-uses the binaries
        known = ["%d,%d,%d" % c for c in CONFIGS_QUICK + (CONFIGS_MORE if ctx.thorough else [])]
        buckets = [known[i:i + 2] for i in range(0, len(known), 2)]
        for c in cases:
            k = ",".join(c.cfg[1:4])
            if len(c.cfg) >= 4 and re.fullmatch(r"[01],\d+,\d+", k) and not any(k in b for b in buckets):
                buckets.append([k])
        memo = ctx.__dict__.setdefault("pdubuf_memo", {})       # per run: the sources are read once
        if "files" not in memo:
            memo["files"] = extract_sources(REPO)
        files = memo["files"]
        groups = []
        for b in buckets:
            cs = [c for c in cases if ",".join(c.cfg[1:4]) in b]
            if not cs:
                continue
            if tuple(b) not in memo:
                fs = dict(files)
                fs["pdubuf_configs.inc"] = "".join("CFG(%s)\n" % k for k in b)
                key = "pdubuf_" + hashlib.sha1(repr(sorted(fs.items())).encode()).hexdigest()[:10]
                d = os.path.join(ctx.bdir, key + ".d")
                os.makedirs(d, exist_ok=True)
                for name, text in fs.items():
                    with open(os.path.join(d, name), "w") as f:
                        f.write(text)
                memo[tuple(b)] = (key, d)
            key, d = memo[tuple(b)]
            groups.append((key, ["-I" + d], cs))
        rest = [c for c in cases if not any(c in g[2] for g in groups)]
        if rest:  # malformed CASE line: let the first harness answer NOCONFIG
            if groups:
                groups[0] = (groups[0][0], groups[0][1], groups[0][2] + rest)
        return groups

    def configs(self, ctx):
        return [[self.pid, str(o), str(t), str(r)] for o, t, r in CONFIGS_QUICK + (CONFIGS_MORE if ctx.thorough else [])]

    def generate(self, ctx):
        rng = ctx.rng
        cases = []
        cfgs = self.configs(ctx)
        n_closed = 24 if not ctx.thorough else 300
        n_open = 14 if not ctx.thorough else 250
        oracle = ModelOracle()
        try:
            for cfg in cfgs:
                o, T, R = int(cfg[1]), int(cfg[2]), int(cfg[3])
                cases += boundary_cases(cfg)
                for k in range(n_closed):
                    style = k % 6
                    kw = {}
                    if style == 1:
                        kw = dict(p_lost=0.4, p_mic=0.2, p_resp_lost=0.4)
                    elif style == 2:
                        kw = dict(p_lost=0.0, p_mic=0.0, p_resp_lost=0.0, traffic=0.9, ll_rate=0.6)
                    elif style == 3:
                        kw = dict(p_mic=0.45, traffic=0.9)
                    elif style == 4:
                        kw = dict(maxrx=min(R - o, rng.choice([40, 60, 251])), maxtx=min(T - o, rng.choice([40, 60, 251])), traffic=0.8)
                    elif style == 5:
                        kw = dict(ll_rate=0.2, traffic=1.0, p_resp_lost=0.5)
                    if "maxrx" in kw and kw["maxrx"] < 29:
                        kw.pop("maxrx")
                    if "maxtx" in kw and kw["maxtx"] < 29:
                        kw.pop("maxtx")
                    cases.append(Case("closed", cfg, closed_loop_case(rng, oracle, cfg, rng.choice([8, 20, 60]), **kw)))
                for k in range(n_open):
                    cases.append(Case("open", cfg, open_loop_ops(rng, cfg, rng.choice([10, 30, 90]))))
                for k in range(max(n_open // 5, 2)):
                    cases.append(Case("malformed", cfg, open_loop_ops(rng, cfg, rng.choice([10, 40]), malformed=True)))
        finally:
            oracle.close()
        if self.pid == "C16":
            cases.append(Case("counter", cfgs[0], COUNTER_OPS))
        return cases

    def search_extra(self, ctx):
        rng = ctx.rng
        cases = []
        oracle = ModelOracle()
        try:
            for cfg in self.configs(ctx):
                for k in range(60):
                    cases.append(Case("s", cfg, closed_loop_case(rng, oracle, cfg, 40, p_mic=0.3, p_lost=0.3, p_resp_lost=0.3)))
                    cases.append(Case("s", cfg, open_loop_ops(rng, cfg, 60)))
        finally:
            oracle.close()
        return cases

    def nontrivial(self, case, outputs):
        # reached past the first checks: a new PDU was accepted or a committed PDU was acknowledged
        return any(re.match(r"^[RA] \d+ \S+ \S+ (1 \d|\d 1)$", o) for o in outputs) or any(o.startswith("D ") for o in outputs)


META_COMMON = dict(
    technique="Coq model + machine-checked theorems; extracted-model / C++ implementation correspondence",
)
