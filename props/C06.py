"""C06 Reads and writes follow the attribute value semantics (characteristic_value.hpp: value_impl of every value
kind, attribute.hpp: attribute_value_read_access, server.hpp: read / read blob / write handlers)."""
from vlib.core import standard_check
from props import att_common as AC
from props import val_common as VC
from props.att_common import AttBase

META = dict(
    text="Reads and writes follow the attribute value semantics",
    design_ref="DESIGN.md section 6 C06",
    technique="Coq: the transcribed attribute access functions refine a reference semantics of values (abstract store, "
              "splice / sub, permissions; AttSrvSpecVal.v), unbounded over value kinds, sizes, offsets, lengths, states; "
              "executable monitor running the reference store beside the observed trace. Tie: generated server<> "
              "instantiations with every value kind, sizes 1, 2, 4, 20, 23, 64 and permission option; request sequences "
              "with offsets and lengths around the value size and the MTU; bound variables inspected after every write",
    level_note="proved (unbounded: all value kinds, sizes, offsets, lengths, states): a successful write stores exactly splice old off data in this characteristic and a rejected write changes nothing; reads return sub value off (min maxlen (size-off)) or Invalid Offset iff off > size; write permission for every value kind; read permission for every value kind except (read handler + no_read_access) - refuted with witness, known finding; properties byte = reference byte with its bits characterised; the monitor (reference store beside the trace, exact response bytes incl. MTU truncation) accepts every model trace: histories without Read By Type / Read Multiple for every configuration without that finding, and ALL histories (scanned responses included) for well formed configurations without include_service<> and without that finding. With include_service<> the scans are tied only. See docs/C06.md")


class C06(AttBase):
    tag = "C06"
    quick_pool = ["v_sizes23", "v_sizes65", "v_perms", "v_fixed", "v_handlers", "v_handler_noread", "v_enc_kinds", "v_long"]
    quick_random = 1
    thorough_random = 40
    trusted_base = ["models coq/AttDb/AttDbModel.v, coq/AttSrv/AttSrvModel.v (hand written transcription, tied by this run)",
                    "reference semantics coq/AttSrv/AttSrvSpecVal.v (aread_value, awrite, spec_readable, spec_writable, spec_properties)",
                    "gen/emit_cpp.py, ocaml/attsrv_lib.ml (configuration language)",
                    "the harness reads / writes the bound variables directly (val / setval)"]
    assumptions = ["1 <= length pdu, 23 <= out_size (the asserts of l2cap_input)",
                   "wf cfg; user handlers are the harness' array handlers (a buffer with array semantics)",
                   "handle <-> attribute mapping as proved / tied by C04"]

    def configurations(self, ctx):
        cfgs = [c for c in VC.POOL if ctx.thorough or c["name"] in self.quick_pool]
        cfgs.append(VC.by_name("fixed_handles"))   # handle gaps: accesses under a handle no attribute has
        if ctx.thorough:
            cfgs += [VC.by_name(n) for n in ("values", "handlers", "mtu24", "mtu65", "mtu300", "basic3")]
        return cfgs + VC.random_configs(self.component, ctx.rng, self.thorough_random if ctx.thorough else self.quick_random)

    def generate(self, ctx):
        rng = ctx.rng
        cfgs = self.configurations(ctx)
        cases = []
        per = 25 if not ctx.thorough else 400
        for cfg, vi in zip(cfgs, VC.vinfos(self.component, cfgs)):
            for ops in VC.gen_rw_boundaries(rng, vi):
                cases.append(self.case("bounds", cfg, ops))
            for ops in VC.gen_wide_offsets(rng, vi):
                cases.append(self.case("wide", cfg, ops))
            for ops in VC.gen_k1(rng, vi):
                cases.append(self.case("noread", cfg, ops))
            for ops in VC.gen_gap_handles(rng, vi):
                cases.append(self.case("gaps", cfg, ops))
            for k in range(per):
                cases.append(self.case("hist", cfg, VC.gen_value_history(rng, vi, rng.choice([10, 25, 40]), sec_rate=0.04)))
            if ctx.thorough:
                for ops in VC.gen_three_states(rng, vi):
                    cases.append(self.case("states", cfg, ops))
        return cases

    def nontrivial(self, case, outputs):
        # a value was read or a write was accepted
        return any(o[:2] in ("0b", "0d", "13", "19") for o in outputs if o)

    def search_extra(self, ctx):
        rng = ctx.rng
        cfgs = self.configurations(ctx)[:6]
        return [self.case("s", cfg, VC.gen_value_history(rng, vi, 40)) for cfg, vi in zip(cfgs, VC.vinfos(self.component, cfgs)) for _ in range(60)]


def run(ctx):
    return standard_check(ctx, C06())
