"""C08 ATT MTU negotiation bounds every PDU (server.hpp: handle_exchange_mtu, connection_data::negotiated_mtu,
l2cap_input, l2cap_output)."""
from vlib.core import standard_check
from props import att_common as AC
from props import notif_common as NC
from props.att_common import AttBase

META = dict(
    text="ATT MTU negotiation bounds every PDU",
    design_ref="DESIGN.md section 6 C08; docs/C08.md",
    technique="Coq: executable transcription of Exchange MTU, l2cap_input and l2cap_output with bounded buffers; theorems by "
              "invariant (client MTU >= 23 in every reachable state, frame lemma over the 14 handlers) and case analysis; "
              "monitor tracking the negotiated MTU from the observed exchanges; tie: generated server<> instantiations "
              "(max MTU 23/24/65/100/300, values longer than the MTU) under ASan/UBSan, random histories on 3 connections",
    level_note="proved: negotiated MTU = min(server, last valid client MTU) >= 23 after any history; every response / notification <= min(buffer, MTU); invalid exchanges rejected and ignored; TRACE LEVEL: monitor (clauses fault, pdu_exceeds_mtu, mtu_rejected_changed, exchange answers) accepts every fault-free model trace of every wf configuration (C08_monitor_core_accepts_model). Tied only: exact-length clause mtu_value (C08_monitor_accepts_model_full is a Definition). See docs/C08.md")


class C08(AttBase):
    tag = "C08"
    quick_random = 0
    thorough_random = 30
    trusted_base = ["models coq/AttDb/AttDbModel.v, coq/AttSrv/AttSrvModel.v (hand written transcription, tied by this run)",
                    "observer coq/AttSrv/AttSrvNotifSpec.v (what the configuration declares is read through attribute_at / handle_by_index)",
                    "gen/emit_cpp.py, ocaml/attsrv_lib.ml (configuration language)"]
    assumptions = ["1 <= length pdu, 23 <= out_size of l2cap_input (its asserts)", "wf cfg (23 <= max_mtu_size < 65536)",
                   "the link layer hands l2cap_output a buffer; its size is the op's argument (any size is exercised)"]

    def configurations(self, ctx):
        cfgs = list(NC.CONFIGS)
        if ctx.thorough:
            cfgs += AC.random_configs(self.component, ctx.rng, self.thorough_random)
        return cfgs

    def generate(self, ctx):
        rng = ctx.rng
        cfgs = self.configurations(ctx)
        w = NC.Weights(mtu=9, bad_mtu=4, read_value=6, out=20, request=16, cccd_write=8, confirm=8, other=3)
        per = 30 if not ctx.thorough else 300
        cases = []
        for cfg, info in zip(cfgs, AC.infos(self.component, cfgs)):
            for k in range(per):
                f = NC.gen_subscribed_flow if k % 3 else NC.gen_notif
                cases.append(self.case("mtu", cfg, f(rng, info, rng.choice([10, 25, 60]), w)))
        return cases

    def nontrivial(self, case, outputs):
        return NC.sent_pdu(outputs) or any(o.startswith("03") for o in outputs)

    def search_extra(self, ctx):
        rng = ctx.rng
        cfgs = self.configurations(ctx)[:6]
        w = NC.Weights(mtu=12, bad_mtu=6, read_value=8)
        return [self.case("s", cfg, NC.gen_subscribed_flow(rng, info, 40, w)) for cfg, info in zip(cfgs, AC.infos(self.component, cfgs)) for _ in range(50)]


def run(ctx):
    return standard_check(ctx, C08())
