"""C01 ATT input handling is memory safe and well framed (server.hpp: l2cap_input and the 14 handlers)."""
from vlib.core import standard_check
from props import att_common as AC
from props.att_common import AttBase

META = dict(
    text="ATT input handling is memory safe and well framed",
    design_ref="DESIGN.md section 6 C01",
    technique="Coq: executable transcription of l2cap_input with bounded buffers (Fault outcome); theorems by case analysis "
              "over the handlers; tie: generated server<> instantiations under ASan/UBSan with exactly sized heap buffers, "
              "every opcode x length sweep + structured histories",
    level_note="proved (unbounded, closed): (b)+(c) length and opcode framing for every configuration/state/request; "
               "(a) no Fault for all 14 handlers for every wf configuration without include_service<> and without the marker "
               "uuid 0x0001, per call and over all reachable states; (c') list framing for min(out_size, MTU) <= 256; "
               "the C01 monitor accepts every model trace of input-side operations (max_mtu <= 256). Refuted: (a) with "
               "includes, (c') above 256 (8 bit size counters). Not proved: histories containing l2cap_output / notify. "
               "See docs/C01.md")


class C01(AttBase):
    tag = "C01"
    quick_corpus = ["basic3", "fixed_handles", "includes", "values", "handlers", "mtu300", "enc_server_requires"]
    quick_random = 3
    thorough_random = 60
    trusted_base = ["models coq/AttDb/AttDbModel.v, coq/AttSrv/AttSrvModel.v (hand written transcription, tied by this run)",
                    "gen/emit_cpp.py, ocaml/attsrv_lib.ml (configuration language)", "ASan/UBSan/assert as the memory safety oracle on the C++ side"]
    assumptions = ["1 <= length pdu, 23 <= out_size (the asserts of l2cap_input)", "wf cfg; user handlers are the harness' array handlers"]

    def generate(self, ctx):
        rng = ctx.rng
        cfgs = self.configurations(ctx)
        cases = []
        per = 25 if not ctx.thorough else 400
        for cfg, info in zip(cfgs, AC.infos(self.component, cfgs)):
            lengths = None if ctx.thorough else [1, 2, 3, 4, 5, 6, 7, 8, 9, 10, 20, 21, 22, 23, 24, info.mtu, info.mtu + 1]
            sweep = AC.gen_opcode_sweep(rng, info, lengths=lengths)
            for k in range(0, len(sweep), 400):
                cases.append(self.case("sweep", cfg, sweep[k:k + 400]))
            for k in range(per):
                cases.append(self.case("hist", cfg, AC.gen_history(rng, info, rng.choice([8, 20, 60]))))
            for ops in AC.gen_prepare_cccd(rng, info, 2 if not ctx.thorough else 8):
                cases.append(self.case("prepcccd", cfg, ops))
        return cases

    def search_extra(self, ctx):
        rng = ctx.rng
        cfgs = self.configurations(ctx)[:6]
        return [self.case("s", cfg, AC.gen_history(rng, info, 40)) for cfg, info in zip(cfgs, AC.infos(self.component, cfgs)) for _ in range(60)]


def run(ctx):
    return standard_check(ctx, C01())
