"""C19 L2CAP fragmentation and reassembly are exact and memory safe (ll_l2cap_sdu_buffer.hpp)"""
from vlib.core import Standard, Case, standard_check
import os

# (MTUSize, layout overhead); 23 is the pass-through specialisation
CONFIGS = [(23, 0), (24, 0), (27, 1), (65, 0), (100, 1), (247, 0)]
CONFIGS_THOROUGH = [(23, 1), (24, 1), (27, 0), (40, 0), (28, 0), (65, 1), (100, 0), (247, 1), (517, 0), (64, 2)]
TX_LIMIT = 6      # PDUs in the transmit ring (the harness' ring never refuses below this)
RX_LIMIT = 22     # PDUs in the receive ring


def hexb(bs):
    return "".join("%02x" % b for b in bs) if bs else "-"


def le16(n):
    return [n & 0xff, (n >> 8) & 0xff]


def malformed_starts(mtu, room):
    """bodies of every kind of start fragment (LLID 2) that does not begin a fragmented SDU: shorter than
    the L2CAP header (0..3 bytes; 0 bytes never reaches the buffer), announced length 0 (exact = an
    empty unfragmented SDU, or with excess bytes), announced length > MTU, longer than announced,
    unfragmented SDU. Each of them has to abort an SDU in progress."""
    big = le16(mtu + 1) + [4, 0] + [0x5a] * min(8, room - 4)
    return [[], [0x01], [0x01, 0x00], [0x01, 0x00, 0x04],
            [0, 0, 4, 0], [0, 0, 4, 0, 0x77, 0x78],
            big, le16(65535) + [4, 0, 1, 2, 3], le16(mtu + 1) + [4, 0],
            le16(2) + [4, 0, 9, 9, 9],             # longer than announced
            le16(3) + [4, 0, 7, 8, 9]]             # unfragmented SDU in between


def malformed_start_family(mtu, oh):
    """systematic: a three fragment train (start + 2 continuations, exact length) with every malformed start
    fragment inserted at every point after the start fragment; next/free either after every PDU or only
    at the end, with and without a LL control PDU next to the malformed fragment."""
    L = min(mtu, 12)
    data = le16(L) + [4, 0] + [(0xa0 + i) & 0xff for i in range(L)]
    frags = [(2, data[:7]), (1, data[7:10]), (1, data[10:])]
    cases = []
    for bad in malformed_starts(mtu, 27):
        for k in (1, 2):
            for eager in (False, True):
                for ctrl in (False, True):
                    seq = frags[:k] + [(2, bad)] + ([(3, [0x0c, k])] if ctrl else []) + frags[k:]
                    ops = []
                    for llid, body in seq:
                        ops.append("rx %d %s" % (llid, hexb(body)))
                        if eager:
                            ops += ["next 0", "free"]
                    ops += ["next 0", "free", "next 0", "free", "next 0"]
                    cases.append(ops)
    return cases


class Gen:
    """builds one case; keeps pessimistic counts of PDUs in the two rings so that the rings never refuse"""

    def __init__(self, rng, mtu, oh):
        self.r, self.mtu, self.oh = rng, mtu, oh
        self.ops = []
        self.maxrx = self.maxtx = 29
        self.rxp = 0
        self.txp = 0

    # ---- plumbing
    def grants(self, want=None):
        room = max(TX_LIMIT - self.txp, 0)
        g = self.r.choice([0, 0, 1, 1, 2, 3, 6]) if want is None else want
        g = min(g, room)
        self.txp += g
        return g

    def radio(self, n=1):
        for _ in range(n):
            self.ops.append("radio")
            self.txp = max(self.txp - 1, 0)

    def drain_tx(self):
        self.radio(self.txp + self.r.choice([0, 0, 1]))

    def nxt(self, free=None):
        self.ops.append("next %d" % self.grants())
        if self.txp >= TX_LIMIT - 1:
            self.drain_tx()
        if free is None:
            free = self.r.random() < 0.8
        if free:
            self.ops.append("free")
            self.rxp = max(self.rxp - 1, 0)

    def rx(self, llid, body):
        if self.rxp >= RX_LIMIT:
            for _ in range(self.rxp):
                self.nxt(True)
            self.rxp = 0
        self.ops.append("rx %d %s" % (llid, hexb(body)))
        if len(body) + 2 <= self.maxrx and body and llid & 3:
            self.rxp += 1

    def rnd(self, n):
        return [self.r.randrange(256) for _ in range(n)]

    def set_maxrx(self, n=None):
        self.maxrx_req = n if n is not None else self.r.choice([29, 30, 31, 60, 100, 250, 251, 251, 251, 28, 252])
        self.ops.append("maxrx %d" % self.maxrx_req)
        if 29 <= self.maxrx_req <= 251:
            self.maxrx = self.maxrx_req

    def set_maxtx(self, n=None):
        n = n if n is not None else self.r.choice([29, 29, 30, 31, 35, 60, 100, 250, 251, 251, 28, 252])
        self.ops.append("maxtx %d" % n)
        if 29 <= n <= 251:
            self.maxtx = n

    def ctrl(self):
        self.rx(3, [self.r.choice([0x0c, 0x14, 0x08, 0x12])] + self.rnd(self.r.choice([0, 1, 5, 8, 26])))

    # ---- receive: one fragment train
    def train(self, kind):
        r, mtu = self.r, self.mtu
        room = self.maxrx - 2                      # largest body the radio accepts
        if kind == "lenfield":                     # odd length fields
            L = r.choice([0, 1, 2, mtu - 1, mtu, mtu + 1, mtu + 2, 65535, 65534, 0x100, 23, 27])
        elif r.random() < 0.3:
            L = r.choice([mtu, mtu - 1, max(room - 4, 0), max(room - 3, 0), max(room - 5, 0), 2 * room, 1, 0])
        else:
            L = r.randrange(0, mtu + 1)
        L = max(L, 0)
        if kind == "badstart_mid":
            L = max(2, min(L, mtu))                # a valid SDU that needs at least one continuation
        total = min(L, 600) + 4                    # bytes really sent (length field may lie)
        if kind == "short":
            total = max(total - r.choice([1, 1, 2, 5]), 1)
        elif kind == "long":
            total = total + r.choice([1, 1, 2, 7, 40, 200])
        data = (le16(L) + [4, 0] + [(i * 7 + L) & 0xff for i in range(total)])[:total]
        # first fragment
        if kind == "tinystart":
            f0 = r.choice([1, 2, 3])
        elif kind == "badstart_mid":
            f0 = r.choice([4, 5, max(4, min(room, total - 1)), r.randrange(4, max(5, min(room, total - 1) + 1))])
            f0 = min(f0, total - 1)
        else:
            f0 = r.choice([4, 5, room, room, min(total, room), max(min(total, room) - 1, 1), r.randrange(1, room + 1)])
        f0 = max(1, min(f0, room, len(data)))
        frags = [(2, data[:f0])]
        pos = f0
        while pos < len(data):
            n = r.choice([1, 2, room, room, r.randrange(1, room + 1)])
            if kind == "overlong_cont" and r.random() < 0.5:
                n = room
            n = min(n, room)
            if kind != "overlong_cont":
                n = min(n, len(data) - pos)
            frags.append((1, (data[pos:pos + n] + self.rnd(n))[:n]))
            pos += n
        if kind == "restart":                      # a second start fragment in the middle
            k = r.randrange(1, len(frags) + 1)
            frags = frags[:k] + [(2, data[:f0])] + frags[k:] if r.random() < 0.5 else frags[:k] + frags
        if kind == "badstart_mid" and len(frags) >= 2:
            # a malformed / ignored start fragment at a random point of the reassembly in progress; the
            # continuations that follow would complete the OLD SDU
            k = r.randrange(1, len(frags))
            frags.insert(k, (2, r.choice(malformed_starts(mtu, room))))
        if kind == "zero":
            frags.insert(r.randrange(0, len(frags) + 1), (r.choice([1, 2]), []))
        if kind == "nostart":
            frags = frags[1:] or [(1, self.rnd(r.choice([1, 5, room])))]
        if kind == "llid0":
            frags.insert(r.randrange(0, len(frags) + 1), (0, self.rnd(3)))
        if kind == "toolong":                      # more than the radio receives: never reaches the buffer
            frags.insert(r.randrange(0, len(frags) + 1), (r.choice([1, 2]), self.rnd(min(room + r.choice([1, 2, 9]), 255))))
        for llid, body in frags:
            self.rx(llid, body)
            x = r.random()
            if x < 0.15:
                self.ctrl()
            if x > 0.75:
                self.nxt()
        for _ in range(r.choice([1, 1, 2, 3])):
            self.nxt()

    # ---- transmit: one SDU
    def sdu(self, kind):
        r, mtu = self.r, self.mtu
        first = self.maxtx - 2 - self.oh - 4       # payload bytes that fit into the start fragment
        if kind == "boundary":
            L = r.choice([0, 1, first - 1, first, first + 1, 2 * first, mtu - 1, mtu, 23, 27])
        else:
            L = r.randrange(0, mtu + 1)
        L = max(0, min(L, mtu))
        body = le16(L) + [4, 0] + [(i * 5 + L) & 0xff for i in range(L)]
        if kind == "pre":
            body = r.choice([body[:3], le16(L + 1) + body[2:], le16(mtu + 1) + [4, 0] + self.rnd(mtu + 1), body + [0]])
        self.ops.append("l2tx %d %s" % (self.grants(), hexb(body)))
        for _ in range(r.choice([0, 1, 2, 4])):
            x = r.random()
            if x < 0.4:
                self.nxt(free=r.random() < 0.3)
            elif x < 0.6:
                g = self.grants()
                a = 1 if (r.random() < 0.6 and self.txp < TX_LIMIT) else 0
                self.txp += a
                self.ops.append("lltx %d %d %s" % (g, a, hexb(self.rnd(r.choice([1, 2, 9, 27])))))
            elif x < 0.7:
                self.set_maxtx()
            elif x < 0.8:
                self.ops.append("l2tx %d %s" % (self.grants(), hexb(body)))     # most likely busy
            else:
                self.radio(r.choice([1, 2]))
            if self.txp >= TX_LIMIT - 1:
                self.drain_tx()
        # flush
        if r.random() < 0.7:
            for _ in range(r.choice([1, 3, 12])):
                self.ops.append("next %d" % self.grants(3))
                self.drain_tx()


RX_KINDS = ["ok"] * 10 + ["badstart_mid"] * 4 + ["short", "long", "overlong_cont", "overlong_cont", "restart", "restart", "zero", "nostart",
                          "tinystart", "lenfield", "lenfield", "llid0", "toolong"]
TX_KINDS = ["ok"] * 6 + ["boundary"] * 3 + ["pre"]


def gen_case(rng, mtu, oh, phases):
    g = Gen(rng, mtu, oh)
    if rng.random() < 0.7:
        g.set_maxrx()
    if rng.random() < 0.6:
        g.set_maxtx()
    for _ in range(phases):
        x = rng.random()
        if x < 0.55:
            g.train(rng.choice(RX_KINDS))
        elif x < 0.9:
            g.sdu(rng.choice(TX_KINDS))
        elif x < 0.95:
            g.set_maxrx()
        else:
            g.ops.append("lltx %d 0 %s" % (g.grants(), hexb(g.rnd(rng.choice([0, 1, 27, 28])))))
    g.drain_tx()
    return g.ops


class C19(Standard):
    component = "SduBuf"
    harness = "sdubuf_harness.cpp"
    trusted_base = ["model of ll_l2cap_sdu_buffer.hpp in coq/SduBuf/SduBufModel.v (hand written, tied by this correspondence run)",
                    "harness/sdubuf_harness.cpp: mock radio / central over the real ll_data_pdu_buffer; std::copy replaced by a bounds checking copy for the arrays inside the object"]
    assumptions = ["the buffered radio below is a FIFO of PDUs in both directions (ll_data_pdu_buffer: C15-C18) whose allocate_transmit_buffer() may fail at any call",
                   "callers keep the documented preconditions: SDU payload <= MTUSize with a matching L2CAP length field, free_ll_l2cap_received() only after next_ll_l2cap_received() returned a buffer, max_tx_size/max_rx_size in 29..251",
                   "MTUSize + overall_overhead < 65536 (16 bit receive_size_/transmit_size_), layout overhead <= 16"]

    def configs(self, ctx):
        return CONFIGS + (CONFIGS_THOROUGH if ctx.thorough else [])

    def prepare(self, ctx, cases):
        groups = {}
        for c in cases:
            groups.setdefault((c.cfg[0], c.cfg[1]), []).append(c)
        out = []
        for (mtu, oh), cs in sorted(groups.items()):
            key = "sdubuf_%s_%s" % (mtu, oh)
            d = os.path.join(ctx.bdir, key + ".d")
            os.makedirs(d, exist_ok=True)
            inc = os.path.join(d, "sdubuf_configs.inc")
            txt = "CFG(%s,%s)\n" % (mtu, oh)
            if not os.path.exists(inc) or open(inc).read() != txt:
                open(inc, "w").write(txt)
            out.append((key, ["-I" + d], cs))
        return out

    def generate(self, ctx):
        rng = ctx.rng
        cases = []
        per = 80 if not ctx.thorough else 1500
        for mtu, oh in self.configs(ctx):
            cfg = [str(mtu), str(oh)]
            for ops in malformed_start_family(mtu, oh):
                cases.append(Case("badstart", cfg, ops))
            for k in range(per):
                cases.append(Case("rnd", cfg, gen_case(rng, mtu, oh, rng.choice([1, 2, 3, 6]))))
        return cases

    def search_extra(self, ctx):
        rng = ctx.rng
        return [Case("s", [str(m), str(o)], gen_case(rng, m, o, rng.choice([2, 4, 8]))) for m, o in CONFIGS for _ in range(250)]

    def nontrivial(self, case, outputs):
        # a reassembled SDU was delivered, or an outgoing SDU needed a continuation fragment
        return any(o.startswith("sdu ") or ("; tx" in o and " 1:" in o.split("; tx", 1)[1]) for o in outputs if o)


META = dict(
    text="L2CAP fragmentation and reassembly are exact and memory safe",
    level_note="unbounded Coq theorems about the hand-written model of ll_l2cap_sdu_buffer.hpp (after the three repairs on fix/C19-reassembly-overflow); model tied to the C++ by differential runs over the real ll_data_pdu_buffer",
    design_ref="DESIGN.md section 6, C19; docs/C19.md",
    technique="Coq model + machine-checked theorems; extracted-model / C++ implementation correspondence")


def run(ctx):
    return standard_check(ctx, C19())
