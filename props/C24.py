"""C24 Advertising uses exactly the enabled channels at the configured rate (advertising.hpp)"""
from vlib.core import Standard, Case, standard_check
from props import adv_common as A

META = dict(
    text="Coq model of advertising.hpp's advertiser (both channel map classes, fixed / variable interval and the 0..10 ms perturbation, auto / manual start with stop and count, the four advertising types and the multi-type advertiser) driven by an unbounded sequence of link layer calls (start, timeout, received PDU, stop) and API calls (start/stop/count, channel map add/remove, interval, directed address, change type). Theorems: for every configuration and every operation sequence of any length the executable C24 monitor accepts the model's trace (every scheduled PDU is on an enabled channel; every (re)start and every new advertising event begins on the lowest enabled channel; inside an event the next enabled channel follows with delay 0, none repeated or skipped; events are separated by interval + 0..10 ms; nothing is scheduled after stop or beyond count); channel stepping enumerates exactly the ascending enabled channels for all 7 non-empty maps; a steady run of n timeouts is exactly the cyclic concatenation of events; perturbation stays in 0..10 and takes all 11 values. The model is tied to the real mixin classes (instantiated over a stub link layer that records schedule_advertisment) by differential runs; the monitor judges the implementation's traces.",
    level_note="Trusted: Coq kernel, extraction (ExtrOcamlBasic), OCaml driver, C++ harness + ASan/UBSan, runner. The model is hand written (coq/Adv/AdvModel.v) and tied by correspondence; the stub link layer stands for link_layer<> (whose adv_received / adv_timeout / start_advertising_impl call exactly handle_adv_receive / handle_adv_timeout / handle_start_advertising). Documented-unsupported usage makes the monitor give up: channel map changed while an advertisement is outstanding, empty map while advertising, timeout without an outstanding advertisement. count bounds PDUs (the code and the repository's tests count PDUs), hence events; an event may be cut short by stop / count / connection. Real time is not modelled: the delay is the delta_time passed to the radio. Two defects were repaired on branch fix/C24-disabled-adv-channel (map {37,39} used channel 38; a restart resumed in the middle of an event); the model is the repaired behaviour.",
    design_ref="DESIGN.md section 6 C24, docs/C24.md",
    technique="Coq state-machine model + invariant proof against an executable spec monitor; finite sweep over the 7 channel maps lifted to theorems; extracted model vs C++ differential correspondence")

QUICK_CFGS = [
    "u manual var var def", "- dflt dflt dflt def", "u auto var fix20 def", "u,d,s,n manual var var def",
    "d manual all fix10240 def", "s auto var var nrf", "n manual all var def", "d,u auto var fix100 def",
]
MORE_CFGS = [
    "s manual var fix250 def", "n auto all dflt nrf", "u,s manual dflt var nrf", "n,d,u auto var var def",
    "d dflt dflt dflt def", "u manual var var nrf", "s,n,u,d manual var var def", "u auto all fix10240 def",
]
MAPS = [1, 2, 3, 4, 5, 6, 7]


def junk_pdu(rng, layout):
    r = rng.random()
    if r < 0.3:
        return bytes(rng.randrange(256) for _ in range(rng.choice([2, 3, 4, 8, 14, 15, 36, 37, 38])))
    if r < 0.6:
        return A.scan_req(layout, rng.choice(A.PEERS), A.OWN)
    return A.connect_ind(layout, rng.choice(A.PEERS), A.mutate_addr(A.OWN, rng), rng)   # not addressed to us


def map_ops(rng, cur, target, detour):
    """rmch/addch sequence from map cur to the non-empty map target (optionally through the empty map)"""
    ops = []
    if detour:
        for b in range(3):
            if cur >> b & 1:
                ops.append("rmch %d" % (37 + b))
        cur = 0
    order = [0, 1, 2]
    rng.shuffle(order)
    for b in order:                       # add first so that the map is never empty on the way
        if target >> b & 1 and not cur >> b & 1:
            ops.append("addch %d" % (37 + b))
    for b in order:
        if cur >> b & 1 and not target >> b & 1:
            ops.append("rmch %d" % (37 + b))
    if rng.random() < 0.2:                # idempotent repetitions
        b = rng.randrange(3)
        ops.append(("addch %d" if target >> b & 1 else "rmch %d") % (37 + b))
    return ops


def gen_case(rng, cfg, n, own=A.OWN, filt="all", legal=True):
    """a history: the link layer starts, the application starts/stops/counts, changes map and interval
    while nothing is outstanding, timeouts and rejected PDUs in between"""
    w = cfg.split()
    sim = A.Sim(["C24"] + w)
    layout = w[4]
    ops = []

    def emit(o, kind=None):
        ops.append(o)
        sim.op(kind or o)

    def drain():
        while sim.pending > 0 and len(ops) < n + 40:
            emit("to")

    if sim.varmap and rng.random() < 0.8:
        for o in map_ops(rng, 7, rng.choice(MAPS), rng.random() < 0.15):
            emit(o)
    if "d" in sim.types and rng.random() < 0.8:
        emit("daddr " + rng.choice(A.PEERS[:4]))
    if w[3] == "var" and rng.random() < 0.6:
        emit("ival %d" % rng.choice([20, 21, 100, 1000, 10240, 19, 10241, rng.randrange(20, 10241)]))
    if rng.random() < 0.9:
        emit("lstart")
    while len(ops) < n:
        r = rng.random()
        if sim.pending > 0 and r < 0.62:
            if rng.random() < 0.85:
                emit("to")
            else:
                emit("rx " + A.hexs(junk_pdu(rng, layout)), "rxrej")
        elif sim.manual and r < 0.74:
            k = rng.random()
            if k < 0.35:
                emit("start")
            elif k < 0.75:
                emit("startn %d" % rng.choice([1, 1, 2, 2, 3, 4, 5, 6, 7, 9, rng.randrange(1, 40)]))
            else:
                emit("stop")
        elif sim.varmap and r < 0.82:
            if legal:
                if sim.manual:
                    emit("stop")
                    drain()
                elif sim.pending > 0 and filt == "all" and sim.types[sim.sel] == "u":
                    # auto start: the map can only change while connected
                    emit("rx " + A.hexs(A.connect_ind(layout, A.PEERS[0], own, rng)), "rxacc")
                    emit("lstop")
            if sim.pending == 0 or not legal:
                cur = sim.map
                for o in map_ops(rng, cur, rng.choice(MAPS), rng.random() < 0.1):
                    emit(o)
                emit("lstart" if not sim.manual or rng.random() < 0.3 else rng.choice(["start", "startn %d" % rng.randrange(1, 9)]))
        elif w[3] == "var" and r < 0.88:
            if rng.random() < 0.7:
                emit("ival %d" % rng.choice([20, 25, 100, 999, 10240, 19, 10241, 0, rng.randrange(20, 10241)]))
            else:
                emit("ivalus %d" % rng.choice([20000, 19999, 10240000, 10240001, 20001, 123456, rng.randrange(0, 11000000)]))
        elif sim.multi and r < 0.92:
            emit("chg %d" % rng.randrange(len(sim.types)))
        elif "d" in sim.types and r < 0.95:
            emit("daddr " + rng.choice(A.PEERS[:4] + ["000000000000r"]))
        elif r < 0.97 and rng.random() < 0.12:
            emit("dchg")
        elif r < 0.985 and rng.random() < 0.2:
            emit("lstop")
            emit("lstart")
        elif not legal:
            emit(rng.choice(["to", "lstart", "startn 0" if sim.manual else "to", "addch 36" if sim.varmap else "to", "rmch 40" if sim.varmap else "to"]))
        else:
            emit("lstart" if sim.pending == 0 else "to")
    return ops


def boundary_cases(cfgs):
    """every map x every count 1..7 x restart, and the interval boundaries"""
    cases = []
    for cfg in cfgs:
        w = cfg.split()
        full = ["C24"] + w + [A.OWN, "all"]
        if w[1] == "manual" and w[2] == "var" and "u" in w[0].split(",")[0]:
            for m in MAPS:
                ops = ["lstart"] + ["rmch %d" % (37 + b) for b in range(3) if not m >> b & 1]
                for k in range(1, 8):
                    ops += ["startn %d" % k] + ["to"] * (k + 1)
                ops += ["start"] + ["to"] * 7 + ["stop", "to", "start", "to", "to", "to", "to"]
                cases.append(Case("bmap%d" % m, full, ops))
        if w[3] == "var":
            ops = ["lstart", "start"]
            for v in [19, 20, 21, 10239, 10240, 10241, 0, 4294967295]:
                ops += ["ival %d" % v] + ["to"] * 4
            for v in [19999, 20000, 20001, 10239999, 10240000, 10240001, 0, 4294967295]:
                ops += ["ivalus %d" % v] + ["to"] * 4
            ops += ["to"] * 40                          # the perturbation runs through all its values
            cases.append(Case("bival", full, ops))
        if w[1] != "manual":
            cases.append(Case("bauto", full, ["lstart"] + ["to"] * 40))
    return cases


class C24(Standard):
    component = "Adv"
    harness = "adv_harness.cpp"
    trusted_base = ["model of advertising.hpp in coq/Adv/AdvModel.v (hand written, tied by this correspondence run)",
                    "stub link layer of harness/adv_harness.cpp in place of link_layer<> (records schedule_advertisment)",
                    "the text of nrf_details::encrypted_pdu_layout is cut out of nrf.hpp by props/adv_common.py (nrf.h is not available on the host)"]
    assumptions = ["the channel map is changed only while no advertisement is outstanding and is not empty while advertising (documented in advertising.hpp)",
                   "adv_timeout / adv_received are delivered only for an outstanding advertisement",
                   "start_advertising( count ) bounds PDUs, hence events; an event may be cut short by stop, count or a connection"]

    def cfgs(self, ctx):
        return QUICK_CFGS + (MORE_CFGS if ctx.thorough else [])

    def prepare(self, ctx, cases):
        return A.prepare(ctx, cases)

    def generate(self, ctx):
        rng = ctx.rng
        cfgs = self.cfgs(ctx)
        cases = boundary_cases(cfgs)
        per = 60 if not ctx.thorough else 600
        for cfg in cfgs:
            for k in range(per):
                own = A.OWN if rng.random() < 0.8 else A.OWN_P
                filt = rng.choice(["all", "all", "none", "wl:" + A.PEERS[0]])
                ops = gen_case(rng, cfg, rng.choice([10, 25, 60, 120]), own, filt, legal=(k % 10 != 9))
                cases.append(Case("rnd", ["C24"] + cfg.split() + [own, filt], ops))
        return cases

    def search_extra(self, ctx):
        rng = ctx.rng
        return [Case("s", ["C24"] + cfg.split() + [A.OWN, "all"], gen_case(rng, cfg, 80)) for cfg in self.cfgs(ctx) for _ in range(150)]

    def nontrivial(self, case, outputs):
        # at least two advertising PDUs were scheduled (the second one exercises the stepping)
        return sum(1 for o in outputs if o.startswith("s ") or o.startswith("rej s ")) >= 2


def run(ctx):
    return standard_check(ctx, C24())
