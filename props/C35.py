"""C35 Reported pairing status reflects the authentication actually performed (bluetoe/sm)"""
from vlib.core import Case, standard_check
from props.sm_common import SMStandard, build_case, configs_for, yn_modes, mixed_walk, model_available

META = dict(
    text="Same Coq model of the security managers as C32. Specification monitor: local_device_pairing_status() and the link's pairing_status() (snapshot at encryption changes) are authenticated_key exactly when the completed exchange authenticated the peer (legacy: verified confirm with a typed / displayed passkey or the OOB data as TK; LESC: the user was asked to compare numbers and said yes), unauthenticated_key after any other completed exchange (LESC passkey entry / OOB are not implemented: the exchange performed is Just Works), no_key otherwise. Proved for every tool box, bond data base, configuration and operation sequence of any length: the only deviations are the combined manager reporting authenticated where unauthenticated is specified and the LESC-only manager reporting unauthenticated where authenticated is specified (C35_status_partial; key / no key is always exact), and the legacy and rejecting managers are exact (C35_legacy_status_exact). The full statement is refuted both ways with witnesses (known findings). Model tied to the real classes by differential runs; the monitor judges the implementation's traces.",
    level_note="Trusted: Coq kernel, extraction, OCaml driver, C++ harness + ASan/UBSan, runner, Python peer. Model hand-written, tied on the compiled configurations. Which legacy method is in use is taken from the selection functions of property C36 (SMSelectModel); that the exchange really used that method's temporary key is what C32's monitor checks. authenticated_key_with_secure_connection is never produced by the code.",
    design_ref="DESIGN.md section 6 C35, docs/C35.md, docs/SM_MODEL.md",
    technique="Coq state-machine model + simulation invariant + executable monitor; extracted model vs C++ differential correspondence with a lock-step pairing peer")


def scenarios(cfg5):
    v = cfg5[0]
    sc = []
    st = lambda p: (p.send("status"), p.send("enc 1"), p.send("status"), p.send("enc 0"), p.send("status"))
    if v in ("legacy", "both"):
        for io in range(5):
            sc.append(("legacy_io%d" % io, lambda p, io=io: (p.type_passkey(31337), p.send("status"), p.pair_legacy(io=io), st(p), p.garbage(), st(p))))
        sc.append(("legacy_oob", lambda p: (p.pair_legacy(io=3, oobflag=1), st(p), p.new_connection(1), p.pair_legacy(io=3, oobflag=1), st(p))))
        sc.append(("legacy_bad", lambda p: (p.pair_legacy(io=4, good=False), st(p))))
    if v in ("lesc", "both"):
        for io in range(5):
            sc.append(("lesc_io%d" % io, lambda p, io=io: (p.pair_lesc(io=io), st(p), p.new_connection(0), st(p))))
            sc.append(("lesc_oob_io%d" % io, lambda p, io=io: (p.pair_lesc(io=io, oobflag=1), st(p))))
        sc.append(("lesc_no", lambda p: (p.pair_lesc(io=1, answer=False), st(p))))
        sc.append(("lesc_midway", lambda p: (p.request(True, io=1), p.pubkey(), p.poll(), p.random(), st(p))))
        sc.append(("lesc_poll_first", lambda p: (p.pair_lesc(io=4, poll_before_dhkey=True), st(p))))
    if v == "none":
        sc.append(("none", lambda p: (st(p), p.request(True), st(p))))
    return sc


def gen_cases(ctx, per, lengths):
    cases = []
    if not model_available():
        return cases
    rng = ctx.rng
    for cfg5 in configs_for(ctx):
        for yn in yn_modes(cfg5):
            for name, s in scenarios(cfg5):
                cases.append(build_case("C35", cfg5, yn, rng, s, name))
            for _ in range(per):
                cases.append(build_case("C35", cfg5, yn, rng, mixed_walk(rng.choice(lengths), 0.35), "walk"))
    return cases


class C35(SMStandard):
    def generate(self, ctx):
        return gen_cases(ctx, 10 if not ctx.thorough else 50, [8, 14, 24, 36])

    def search_extra(self, ctx):
        return gen_cases(ctx, 40, [10, 20, 36])

    def nontrivial(self, case, outputs):
        # a status other than "no key" was reported
        return any(op == "status" and out not in ("none none", "SKIPPED", "FAULT") for op, out in zip(case.ops, outputs))


def run(ctx):
    return standard_check(ctx, C35())
