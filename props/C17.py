"""C17 A PDU failing its integrity check is never acknowledged as delivered (ll_data_pdu_buffer.hpp acknowledge())"""
from vlib.core import standard_check
from props.pdubuf_common import PduBufCheck, META_COMMON


class C17(PduBufCheck):
    pid = "C17"


META = dict(META_COMMON,
            text="A PDU failing its integrity check is never acknowledged as delivered.",
            design_ref="DESIGN.md section 6, C17; appendix 12.2; docs/C17.md",
            level_note="unbounded Coq theorems in the C15 system with MIC failures at arbitrary events; the model has the corrected "
                       "acknowledge( read_buffer ) of branch fix/C17-mic-failure-acknowledged; the nRF52 interrupt handler's choice of "
                       "acknowledge() (CRC ok, MIC failed, buffer available) is modelled, not tied")


def run(ctx):
    return standard_check(ctx, C17())
