"""C22 Connection event timing and supervision follow the connection parameters (link_layer.hpp: setup_next_connection_event,
timeout, check_timing_paremeters; peripheral_latency.hpp: plan_next_connection_event*; delta_time.cpp: ppm)"""
from vlib.core import Case, standard_check
from props.ll_common import LLCheck, connected, connect_ind, ctrl, session, le

META = dict(
    text="Connection event timing and supervision follow the connection parameters.",
    level_note="Coq model of link_layer<> (coq/LL/LLModel.v) tied to the real link_layer<> on a scripted radio that records every "
               "schedule_connection_event( channel, start, end, interval ). Proved (unbounded): next event k whole intervals after the anchor, "
               "1 <= k <= latency + 1, one interval later after a missed event; delta_time::ppm within 1 us below the real value (exact statement "
               "refuted: sub-microsecond known finding, not alarmed) and every window covering the anchor / transmit window widened by that amount; "
               "supervision: timeout() drops iff time since last event >= timeout; a connection only from a connect request with timing parameters "
               "in the Core ranges - for the code AFTER the repair fix/C22-connect-timing-ranges (the unrepaired tree violates it: exit 1 with the "
               "connect request as replay) - and the converse: every valid request addressed to us is accepted (C22_valid_request_connects). The "
               "specification monitor accepts every model trace of any length inside the executable environment env22 = any connect requests, "
               "events that are empty or (without encryption support) carry control PDUs without instant other than LL_TERMINATE_IND or one "
               "LL_CONNECTION_UPDATE_IND - deferred, waiting through events and missed events, applied at its instant with the transmit window "
               "covered and the new interval, consumed by the monitor's applied_update, further updates following -, any pattern of missed "
               "events, own accuracy <= 500 ppm, nothing left in the receive queue (C22_monitor_accepts_partial, C22_event_at_the_instant; "
               "simulation proof coq/LL/LLProofsC22Sim.v), also when the instant falls on a missed event, when the update is refused at delivery "
               "(0x28) or found invalid at its instant by a connection event (link dropped, run continues). Not proved / outside: an invalid "
               "update whose instant falls on a missed event (the monitor rejects that trace: known finding, pinned as an Example), an update "
               "delivered and applied within one end_event(), PDUs delivered while an update waits, channel map / PHY update / terminate / "
               "data PDUs, encryption support, API calls (C22_monitor_accepts_all_full stays a Definition; tested every run). "
               "What the radio does with the "
               "window (HFXO start-up, timer resolution) is outside.",
    design_ref="DESIGN.md section 6 C22, docs/C22.md, docs/LL_MODEL.md",
    technique="Coq state-machine model + arithmetic proofs over the fixed point ppm formula (lia/nia) + step invariants; boundary CONNECT_INDs, "
              "missed-event patterns and sleep clock accuracies replayed on the real link layer; executable spec monitor on its traces")


def boundary_connects():
    out = []
    base = dict(winsize=2, winoffset=1, interval=24, latency=0, timeout=72)
    def add(**kw):
        d = dict(base); d.update(kw); out.append(d)
    for iv in [0, 1, 5, 6, 7, 3199, 3200, 3201, 4000, 65535]:
        add(interval=iv, timeout=3200, winoffset=0, winsize=1)
    for la in [0, 1, 2, 498, 499, 500, 501, 65535]:
        add(latency=la, interval=6, timeout=3200)
    for to in [0, 9, 10, 11, 3199, 3200, 3201, 65535]:
        add(timeout=to, interval=6)
    # timeout against ( 1 + latency ) * interval * 2: below, equal, above
    for (iv, la, to) in [(40, 0, 9), (40, 0, 10), (40, 0, 11), (800, 1, 399), (800, 1, 400), (800, 1, 401), (3200, 3, 3199), (3200, 3, 3200),
                         (3200, 2, 2400), (3200, 2, 2401), (24, 9, 59), (24, 9, 60), (24, 9, 61)]:
        add(interval=iv, latency=la, timeout=to)
    # 32 bit overflow of ( latency + 1 ) * 2 * interval in the unrepaired check
    for (iv, la) in [(3436, 499), (3437, 499), (65535, 499), (3200, 65535), (6554, 261), (13108, 130)]:
        add(interval=iv, latency=la, timeout=3200)
    for ws in [0, 1, 7, 8, 9, 255]:
        add(winsize=ws, interval=24)
    for (ws, iv) in [(5, 6), (6, 6), (7, 6), (8, 8), (8, 7)]:
        add(winsize=ws, interval=iv, timeout=100)
    for (wo, iv) in [(0, 24), (23, 24), (24, 24), (25, 24), (65535, 24), (3200, 3200), (3201, 3200)]:
        add(winoffset=wo, interval=iv, timeout=3200)
    for hop in [0, 4, 5, 16, 17, 31]:
        add(hop=hop)
    for m in ["0000000000", "0100000000", "0300000000", "0000000010", "0000000018", "ffffffffff", "00000000e0"]:
        add(chmap=m)
    return out


class C22(LLCheck):
    pid = "C22"
    variants_quick = ["base", "nophy"]
    variants_thorough = ["base", "nophy", "nocb", "desired"]

    def generate(self, ctx):
        rng, mk = ctx.rng, self.mk
        cases = []
        variants = self.variants(ctx)
        for v in variants:
            # 1. connect requests over the boundary values of the six timing fields, hop and map; all 8 sleep clock accuracies
            for i, kw in enumerate(boundary_connects()):
                kw = dict(kw, sca=i % 8)
                tail = ["st", "ev 0", "ev 0", "timeout", "timeout", "ev 2", "st"]
                cases.append(mk("connect", v, ["run"] + ["adv_timeout"] * (i % 3) + [connect_ind(**kw)] + tail))
            # not addressed to this device / wrong type / wrong length
            cases.append(mk("notus", v, ["run", connect_ind(adva="471108150fc1"), connect_ind(hdr0="45"), connect_ind(hdr0="c3"), connect_ind(extra="00"), "st"]))
            # 2. supervision: missed events until the link is dropped, for every accuracy; while connecting: 6 windows
            for sca in range(8):
                for (iv, la, to) in [(24, 0, 72), (6, 0, 10), (800, 0, 400), (3200, 0, 3200), (80, 3, 100), (24, 4, 30)]:
                    ops = connected(rng, interval=iv, latency=la, timeout=to, sca=sca, winsize=rng.choice([1, 2, 3]), winoffset=rng.choice([0, 1, 4]))
                    n = to * 10000 // (iv * 1250) + 3
                    k = rng.randrange(0, 4)
                    ops += ["ev %d" % rng.choice([0, 2, 16, 63]) for _ in range(k)]
                    ops += ["timeout"] * rng.randrange(0, max(1, min(n, 5))) + ["ev 0"] + ["timeout"] * min(n, 70) + ["st"]
                    cases.append(mk("supervision", v, ops))
                cases.append(mk("attempt", v, ["run", connect_ind(sca=sca, interval=rng.choice([6, 24, 800]), timeout=rng.choice([100, 3200]))] + ["timeout"] * 7 + ["st"]))
            # 2b. every sleep clock accuracy field 0..7 of the CONNECT_IND with anchors 0.5 s .. 16 s apart (long interval, latency,
            #     missed events), so that a table entry that is off by a few ppm moves the window by more than the 1 us slack of the
            #     `window` clause (5 ppm x 0.5 s = 2.5 us); the monitor's table is the Core's, as a literal
            for sca in range(8):
                for (iv, la, to) in [(400, 0, 600), (800, 3, 3200), (3200, 0, 3200), (1600, 1, 3200)]:
                    ops = connected(None, interval=iv, latency=la, timeout=to, sca=sca, winsize=1, winoffset=0)
                    ops += ["ev 0", "timeout", "ev 0", "ev 2", "timeout", "timeout", "ev 0", "st"]
                    cases.append(mk("sca", v, ops))
            # 3. missed-event patterns and latency (event flags decide whether events are skipped)
            per = 80 if not ctx.thorough else 600
            for k in range(per):
                iv, la = rng.choice([(6, 0), (24, 0), (24, 3), (80, 10), (800, 2), (8, 100), (6, 499)])
                to = min(3200, max((la + 1) * 2 * iv * 1250 // 10000 + 1, rng.choice([100, 600, 3200])))
                ops = connected(rng, interval=iv, latency=la, timeout=to, sca=rng.randrange(8))
                for _ in range(rng.choice([10, 30, 60])):
                    ops.append(rng.choice(["ev 0", "ev 0", "ev 0", "ev 2", "ev 16", "ev 32", "ev 8", "timeout", "timeout", "ev 0 3:12", "ev 63"]))
                cases.append(mk("pattern", v, ops + ["st"]))
            # 4. connection updates: the transmit window after the instant, then the new interval / timeout
            for k in range(60 if not ctx.thorough else 300):
                ops = connected(rng, interval=rng.choice([6, 24, 80]), latency=rng.choice([0, 0, 2]), timeout=rng.choice([300, 3200]), sca=rng.randrange(8))
                evc = 1
                ops += ["ev 0"] * rng.randrange(0, 3)
                evc += len(ops) - 3
                niv = rng.choice([6, 7, 24, 400, 3200])
                nla = rng.choice([0, 0, 1, 5])
                nto = min(3200, max((nla + 1) * 2 * niv * 1250 // 10000 + 1, rng.choice([10, 100, 3200])))
                inst = (evc + rng.choice([6, 7, 9])) & 0xffff
                ops.append("ev 0 " + ctrl(0, le(rng.choice([1, 2, 6]), 1) + le(rng.choice([0, 1, 6]), 2) + le(niv, 2) + le(nla, 2) + le(nto, 2) + le(inst, 2)))
                ops += [rng.choice(["ev 0", "ev 0", "timeout", "ev 16"]) for _ in range(14)]
                ops += ["timeout"] * rng.choice([0, 3, 40]) + ["st"]
                cases.append(mk("update", v, ops))
            # 4b. two (three) updates with the SAME interval / latency / timeout and different transmit windows, the later ones
            #     delivered while the first is pending or after it was applied: connection_changed reports the same values each
            #     time, the monitor has to judge every instant against its own update's window
            for k in range(24 if not ctx.thorough else 150):
                niv, nla = rng.choice([(80, 0), (80, 1), (24, 0), (400, 0)])
                nto = min(3200, max((nla + 1) * 2 * niv * 1250 // 10000 + 1, rng.choice([200, 3200])))
                ops = connected(rng, interval=rng.choice([24, 80, 800]), latency=0, timeout=3200, sca=rng.randrange(8))
                def upd(inst):
                    return ctrl(0, le(rng.choice([1, 2, 3]), 1) + le(rng.choice([0, 1, 3, 5]), 2) + le(niv, 2) + le(nla, 2) + le(nto, 2) + le(inst, 2))
                i1 = rng.choice([3, 5])
                i2 = i1 + rng.choice([2, 6, 10])
                ops.append("ev 0 " + upd(i1))
                if rng.random() < 0.5:
                    ops.append("ev 0 " + upd(i2))               # delivered while the first is pending
                    ops += ["ev 0"] * rng.choice([12, 16])
                else:
                    ops += ["ev 0"] * (i1 + 1)                   # first one applied
                    ops.append("ev 0 " + upd(i1 + 12) + (" " + upd(i1 + 20) if rng.random() < 0.3 else ""))
                    ops += [rng.choice(["ev 0", "ev 0", "ev 0", "timeout"]) for _ in range(26)]
                cases.append(mk("likeupd", v, ops + ["st"]))
            # 5. random sessions
            for k in range(60 if not ctx.thorough else 500):
                cases.append(mk("rnd", v, session(rng, v, rng.choice([15, 40]), instants=True)))
        return cases

    def search_extra(self, ctx):
        rng = ctx.rng
        return [self.mk("s", v, session(rng, v, 40)) for v in self.variants(ctx) for _ in range(200)]

    def nontrivial(self, case, outputs):
        return any("cb:established" in o or ("ce:" in o and "adv " in " ".join(case.ops)) for o in outputs)


def run(ctx):
    return standard_check(ctx, C22())
