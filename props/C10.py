"""C10 Notifications carry the requested characteristic to subscribed clients only (server.hpp: notify / indicate by
value and by uuid, find_notification_data.hpp, l2cap_output)."""
from vlib.core import standard_check
from props import att_common as AC
from props import notif_common as NC
from props.att_common import AttBase

META = dict(
    text="Notifications carry the requested characteristic to subscribed clients only",
    design_ref="DESIGN.md section 6 C10; docs/C10.md",
    technique="Coq: transcription of find_notification_data_in_list (priority sort, CCCD positions), notify / indicate, the "
              "notification queue (C12) and l2cap_output; theorems about the sorted list (permutation, positions) and the "
              "output step; monitor keeping the requested set, the CCCD bits each connection wrote and the current values; "
              "tie: generated server<> instantiations with 1/4/5/9 CCCDs with and without outgoing priorities, 3 connections",
    level_note="proved: by value / by uuid requests queue the sorted position of the requested characteristic; transmitted PDU = handle + current bytes, only with the CCCD bit; for every configuration without an empty service the attribute read is the characteristic's own value attribute and the tested store position is its CCCD's. Refuted: the same with an empty service (known finding). NOT proved: trace level statement C10_monitor_accepts_model_full (Definition). See docs/C10.md")


class C10(AttBase):
    tag = "C10"
    quick_random = 0
    thorough_random = 40
    trusted_base = ["models coq/AttDb/AttDbModel.v, coq/AttSrv/AttSrvModel.v, coq/NQueue/NQueueModel.v (tied by this run / by C12)",
                    "observer coq/AttSrv/AttSrvNotifSpec.v", "gen/emit_cpp.py, ocaml/attsrv_lib.ml (configuration language)"]
    assumptions = ["wf cfg", "the l2cap layer queues a request on every connection (what link_layer::queue_lcap_notification does for its one connection)",
                   "the current value is the one the trace shows (val / setval / initial content of the harness)"]

    def configurations(self, ctx):
        cfgs = list(NC.CONFIGS) + [NC.EMPTY_SERVICE]
        if ctx.thorough:
            cfgs += AC.random_configs(self.component, ctx.rng, self.thorough_random)
        return cfgs

    def generate(self, ctx):
        rng = ctx.rng
        cfgs = self.configurations(ctx)
        w = NC.Weights(request=22, out=24, cccd_write=10, setval=5, val=6, confirm=8, mtu=2)
        per = 30 if not ctx.thorough else 300
        cases = []
        for cfg, info in zip(cfgs, AC.infos(self.component, cfgs)):
            for k in range(per):
                f = NC.gen_subscribed_flow if k % 4 else NC.gen_notif
                cases.append(self.case("notif", cfg, f(rng, info, rng.choice([10, 25, 60]), w)))
        return cases

    def nontrivial(self, case, outputs):
        return NC.sent_pdu(outputs)

    def search_extra(self, ctx):
        rng = ctx.rng
        cfgs = self.configurations(ctx)[:8]
        w = NC.Weights(request=25, out=25)
        return [self.case("s", cfg, NC.gen_subscribed_flow(rng, info, 40, w)) for cfg, info in zip(cfgs, AC.infos(self.component, cfgs)) for _ in range(50)]


def run(ctx):
    return standard_check(ctx, C10())
