"""C10 Notifications carry the requested characteristic to subscribed clients only (server.hpp: notify / indicate by
value and by uuid, find_notification_data.hpp, l2cap_output)."""
from vlib.core import standard_check
from props import att_common as AC
from props import notif_common as NC
from props.att_common import AttBase

META = dict(
    text="Notifications carry the requested characteristic to subscribed clients only",
    design_ref="DESIGN.md section 6 C10; docs/C10.md",
    technique="Coq: transcription of find_notification_data_in_list (priority sort, CCCD positions), notify / indicate, the "
              "notification queue (C12) and l2cap_output; theorems about the sorted list (permutation, positions) and the "
              "output step; monitor keeping the requested set, the CCCD bits each connection wrote and the current values; "
              "tie: generated server<> instantiations with 1/4/5/9 CCCDs with and without outgoing priorities, 3 connections",
    level_note="proved: by value / by uuid requests queue the sorted position of the requested characteristic; transmitted PDU = handle + current bytes, only with the CCCD bit; for every configuration without an empty service the attribute read is the characteristic's own value attribute and the tested store position is its CCCD's. Refuted: the same with an empty service (known finding). TRACE LEVEL: on every fault-free model trace (any operations, any length, requests by value and by uuid) of a wf configuration without include_service<> with env10 (attributable, no write queue, no encryption requirement on a characteristic with CCCD, handles < 65536) the clauses not_subscribed, duplicate_pdu, wrong_characteristic never fire (C10_not_subscribed_never_fires, C10_duplicate_pdu_never_fires, C10_wrong_characteristic_never_fires) and whatever monitor10 reports is none of five of its six clauses (C10_monitor_accepts_model_partial); table position = global characteristic number for every configuration (C10_table_position_is_gci). NOT proved: the clause wrong_value at trace level (known values against vals), hence C10_monitor_accepts_model_full stays a Definition. See docs/C10.md")


class C10(AttBase):
    tag = "C10"
    quick_random = 0
    thorough_random = 40
    trusted_base = ["models coq/AttDb/AttDbModel.v, coq/AttSrv/AttSrvModel.v, coq/NQueue/NQueueModel.v (tied by this run / by C12)",
                    "observer coq/AttSrv/AttSrvNotifSpec.v", "gen/emit_cpp.py, ocaml/attsrv_lib.ml (configuration language)"]
    assumptions = ["wf cfg", "the l2cap layer queues a request on every connection (what link_layer::queue_lcap_notification does for its one connection)",
                   "the current value is the one the trace shows (val / setval / initial content of the harness)"]

    def configurations(self, ctx):
        cfgs = list(NC.CONFIGS) + [NC.EMPTY_SERVICE]
        if ctx.thorough:
            cfgs += AC.random_configs(self.component, ctx.rng, self.thorough_random)
        return cfgs

    def generate(self, ctx):
        rng = ctx.rng
        cfgs = self.configurations(ctx)
        w = NC.Weights(request=22, out=24, cccd_write=10, setval=5, val=6, confirm=8, mtu=2)
        per = 30 if not ctx.thorough else 300
        cases = []
        for cfg, info in zip(cfgs, AC.infos(self.component, cfgs)):
            for k in range(per):
                f = NC.gen_subscribed_flow if k % 4 else NC.gen_notif
                cases.append(self.case("notif", cfg, f(rng, info, rng.choice([10, 25, 60]), w)))
        return cases

    def nontrivial(self, case, outputs):
        return NC.sent_pdu(outputs)

    def search_extra(self, ctx):
        rng = ctx.rng
        cfgs = self.configurations(ctx)[:8]
        w = NC.Weights(request=25, out=25)
        return [self.case("s", cfg, NC.gen_subscribed_flow(rng, info, 40, w)) for cfg, info in zip(cfgs, AC.infos(self.component, cfgs)) for _ in range(50)]


def run(ctx):
    return standard_check(ctx, C10())
