(* Extraction of the WhiteList model (software list; radio-backed list over the reference radio) and
   monitor. ExtrOcamlBasic only; no Extract Constant. *)
Require Extraction.
Require Import ExtrOcamlBasic.
From BT Require Import Base.Conv WhiteList.WhiteListModel WhiteList.WhiteListSpec.
Extraction Language OCaml.
Extraction "whitelist.ml" conv_anchor WhiteListModel.init WhiteListModel.step WhiteListSpec.hw_ref_step
  WhiteListSpec.minit WhiteListSpec.mstep.
