(* Extraction for property C06: AttDb/AttSrv models + the C06 monitor (reference semantics AttSrvSpecVal). ExtrOcamlBasic only. *)
Require Extraction.
Require Import ExtrOcamlBasic.
From BT Require Import Base.Conv AttDb.AttDbModel AttSrv.AttSrvModel AttSrv.AttSrvSpecVal AttSrv.AttSrvSpecC06.
Extraction Language OCaml.
Extraction "attsrvc06.ml" conv_anchor
  AttDbModel.wf_b AttDbModel.number_of_attributes AttDbModel.number_of_client_configs
  AttDbModel.handle_by_index AttDbModel.first_index_by_handle AttDbModel.index_by_handle
  AttDbModel.attribute_at AttDbModel.attr_uuid AttDbModel.cccd_indices AttDbModel.priority_numbers
  AttDbModel.find_notification_data_by_index AttDbModel.find_notification_data AttDbModel.all_chars
  AttDbModel.invalid_index
  AttSrvModel.srv_init AttSrvModel.srv_step AttSrvModel.by_value_available
  AttSrvSpecVal.minit AttSrvSpecC06.mstep.
