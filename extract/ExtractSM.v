(* Extraction of the SM model and monitors (toy instance). ExtrOcamlBasic only; no Extract Constant. *)
Require Extraction.
Require Import ExtrOcamlBasic.
From BT Require Import Base.Conv SM.SMModel SM.SMSpec SM.ToyCrypto SM.SMInst.
Extraction Language OCaml.
Extraction "sm.ml" conv_anchor SMInst.toy_init SMInst.toy_step SMInst.toy_minit SMInst.toy_mstep32 SMInst.toy_mstep33
  SMInst.toy_mstep34 SMInst.toy_mstep35 SMInst.legacy_oob_switch SMModel.wf.
