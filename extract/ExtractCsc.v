(* Extraction of the Csc model and monitor. ExtrOcamlBasic only; no Extract Constant. *)
Require Extraction.
Require Import ExtrOcamlBasic.
From BT Require Import Base.Conv Csc.CscModel Csc.CscSpec.
Extraction Language OCaml.
Extraction "csc.ml" conv_anchor CscModel.init CscModel.step CscSpec.minit CscSpec.mstep.
