(* Extraction of the Boot model and monitor. ExtrOcamlBasic only; no Extract Constant. *)
Require Extraction.
Require Import ExtrOcamlBasic.
From BT Require Import Base.Conv Boot.BootModel Boot.BootSpec.
Extraction Language OCaml.
Extraction "boot.ml" conv_anchor BootModel.init BootModel.step BootModel.toy_oracle BootSpec.minit BootSpec.mstep.
