(* Extraction of the AttDb / AttSrv models and the monitors built on them. ExtrOcamlBasic only; no
   Extract Constant. Later properties (C02, C03, C05..C11) add their monitor's entry points to the
   list below (one line each) or use their own Extract<Comp>.v on top of the same models. *)
Require Extraction.
Require Import ExtrOcamlBasic.
From BT Require Import Base.Conv AttDb.AttDbModel AttSrv.AttSrvModel.
Extraction Language OCaml.
Extraction "attsrv.ml" conv_anchor
  AttDbModel.wf_b AttDbModel.number_of_attributes AttDbModel.number_of_client_configs
  AttDbModel.handle_by_index AttDbModel.first_index_by_handle AttDbModel.index_by_handle
  AttDbModel.attribute_at AttDbModel.attr_uuid AttDbModel.cccd_indices AttDbModel.priority_numbers
  AttDbModel.find_notification_data_by_index AttDbModel.find_notification_data AttDbModel.all_chars
  AttDbModel.invalid_index
  AttSrvModel.srv_init AttSrvModel.srv_step AttSrvModel.by_value_available.
