(* Extraction of the SduBuf model and monitor. ExtrOcamlBasic only; no Extract Constant. *)
Require Extraction.
Require Import ExtrOcamlBasic.
From BT Require Import Base.Conv SduBuf.SduBufModel SduBuf.SduBufSpec.
Extraction Language OCaml.
Extraction "sdubuf.ml" conv_anchor SduBufModel.mkcfg SduBufModel.init SduBufModel.step SduBufSpec.minit SduBufSpec.mstep.
