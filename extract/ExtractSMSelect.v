(* Extraction of the SMSelect model and monitor (C36). ExtrOcamlBasic only; no Extract Constant. *)
Require Extraction.
Require Import ExtrOcamlBasic.
From BT Require Import Base.Conv SMSelect.SMSelectModel SMSelect.SMSelectSpec.
Extraction Language OCaml.
Extraction "smselect.ml" conv_anchor SMSelectModel.init SMSelectModel.step SMSelectSpec.minit SMSelectSpec.mstep.
