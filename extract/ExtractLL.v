(* Extraction of the LL model (link_layer.hpp on a scripted radio) and of the property monitors over it.
   ExtrOcamlBasic only; no Extract Constant. To add a property monitor: add its minit/mstep here and an entry in
   the table [monitors] of ocaml/ll_driver.ml (docs/LL_MODEL.md). *)
Require Extraction.
Require Import ExtrOcamlBasic.
From BT Require Import Base.Conv LL.LLModel LL.LLSpec LL.LLSpecC27 LL.LLSpecC22.
Extraction Language OCaml.
Extraction "ll.ml" conv_anchor LLModel.linit LLModel.lstep LLSpecC27.minit27 LLSpecC27.mstep27 LLSpecC22.minit22 LLSpecC22.mstep22.
