(* Extraction of the Ring model and monitor. ExtrOcamlBasic only; no Extract Constant. *)
Require Extraction.
Require Import ExtrOcamlBasic.
From BT Require Import Base.Conv Ring.RingModel Ring.RingSpec.
Extraction Language OCaml.
Extraction "ring.ml" conv_anchor RingModel.init RingModel.step RingSpec.minit RingSpec.mstep.
