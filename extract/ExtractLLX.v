(* Extraction of the LL model (link_layer.hpp on a scripted radio) with the monitors of C28 and C29 (own component LLX,
   so that extract/ExtractLL.v and ocaml/ll_driver.ml stay untouched; docs/LL_MODEL.md, "Adding a property on top").
   ExtrOcamlBasic only; no Extract Constant. *)
Require Extraction.
Require Import ExtrOcamlBasic.
From BT Require Import Base.Conv LL.LLModel LL.LLSpec LL.LLSpecC28 LL.LLSpecC29.
Extraction Language OCaml.
Extraction "llx.ml" conv_anchor LLModel.linit LLModel.lstep LLSpecC28.minit28 LLSpecC28.mstep28 LLSpecC29.minit29 LLSpecC29.mstep29.
