(* Extraction of the LL model (link_layer.hpp on a scripted radio) with the monitor of property C21 (component LL21,
   docs/LL_MODEL.md "adding a property on top", variant (a): own component name, no shared file touched).
   ExtrOcamlBasic only; no Extract Constant. *)
Require Extraction.
Require Import ExtrOcamlBasic.
From BT Require Import Base.Conv LL.LLModel LL.LLSpec LL.LLSpecC21.
Extraction Language OCaml.
Extraction "ll21.ml" conv_anchor LLModel.linit LLModel.lstep LLSpecC21.minit21 LLSpecC21.mstep21.
