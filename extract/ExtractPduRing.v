(* Extraction of the PduRing model and monitor. ExtrOcamlBasic only; no Extract Constant. *)
Require Extraction.
Require Import ExtrOcamlBasic.
From BT Require Import Base.Conv PduRing.PduRingModel PduRing.PduRingSpec gen.GenPduRing.
Extraction Language OCaml.
Extraction "pduring.ml" conv_anchor PduRingModel.init PduRingModel.step PduRingModel.is_fault
  PduRingSpec.minit PduRingSpec.mstep
  GenPduRing.default_overhead GenPduRing.nrf_overhead GenPduRing.push_len_mod.
