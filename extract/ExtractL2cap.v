(* Extraction of the L2cap model and monitor. ExtrOcamlBasic only; no Extract Constant. *)
Require Extraction.
Require Import ExtrOcamlBasic.
From BT Require Import Base.Conv L2cap.L2capModel L2cap.L2capSpec.
Extraction Language OCaml.
Extraction "l2cap.ml" conv_anchor L2capModel.sig_chan L2capModel.init L2capModel.step L2capSpec.minit L2capSpec.mstep.
