(* Extraction of the AdvData model and monitor. ExtrOcamlBasic only; no Extract Constant. *)
Require Extraction.
Require Import ExtrOcamlBasic.
From BT Require Import Base.Conv AdvData.AdvDataModel AdvData.AdvDataSpec.
Extraction Language OCaml.
Extraction "advdata.ml" conv_anchor AdvDataModel.mkcfg AdvDataModel.init AdvDataModel.step AdvDataSpec.minit AdvDataSpec.mstep.
