(* Extraction of the PduBuf model, monitor and closed-loop environment. ExtrOcamlBasic only; no Extract Constant. *)
Require Extraction.
Require Import ExtrOcamlBasic.
From BT Require Import Base.Conv PduBuf.PduBufModel PduBuf.PduBufSpec.
Extraction Language OCaml.
Extraction "pdubuf.ml" conv_anchor PduBufModel.init PduBufModel.step PduBufModel.counter_increment
  PduBufModel.counter_bytes PduBufSpec.minit PduBufSpec.mstep PduBufSpec.judge
  PduBufSpec.cen_init PduBufSpec.cen_load PduBufSpec.cen_hl PduBufSpec.cen_pdu PduBufSpec.cen_recv.
