(* Extraction of the Latency model and monitor. ExtrOcamlBasic only; no Extract Constant. *)
Require Extraction.
Require Import ExtrOcamlBasic.
From BT Require Import Base.Conv Latency.LatencyModel Latency.LatencySpec.
Extraction Language OCaml.
Extraction "latency.ml" conv_anchor LatencyModel.init LatencyModel.step LatencyModel.legal LatencySpec.minit LatencySpec.mstep.
