(* Extraction of the Adv model and the C24 / C25 monitors. ExtrOcamlBasic only; no Extract Constant. *)
Require Extraction.
Require Import ExtrOcamlBasic.
From BT Require Import Base.Conv Adv.AdvModel Adv.AdvSpec.
Extraction Language OCaml.
Extraction "adv.ml" conv_anchor AdvModel.init AdvModel.step AdvSpec.minit24 AdvSpec.mstep24 AdvSpec.minit25 AdvSpec.mstep25.
