(* Extraction of the ChanMap model and monitor. ExtrOcamlBasic only; no Extract Constant. *)
Require Extraction.
Require Import ExtrOcamlBasic.
From BT Require Import Base.Conv ChanMap.ChanMapModel ChanMap.ChanMapSpec.
Extraction Language OCaml.
Extraction "chanmap.ml" conv_anchor ChanMapModel.init ChanMapModel.step ChanMapSpec.minit ChanMapSpec.mstep.
