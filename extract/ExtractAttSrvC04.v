(* Extraction for property C04: AttDb/AttSrv models + the C04 monitor (AttDbSpec). ExtrOcamlBasic only. *)
Require Extraction.
Require Import ExtrOcamlBasic.
From BT Require Import Base.Conv AttDb.AttDbModel AttDb.AttDbSpec AttSrv.AttSrvModel.
Extraction Language OCaml.
Extraction "attsrvc04.ml" conv_anchor
  AttDbModel.wf_b AttDbModel.number_of_attributes AttDbModel.number_of_client_configs
  AttDbModel.handle_by_index AttDbModel.first_index_by_handle AttDbModel.index_by_handle
  AttDbModel.attribute_at AttDbModel.attr_uuid AttDbModel.cccd_indices AttDbModel.priority_numbers
  AttDbModel.find_notification_data_by_index AttDbModel.find_notification_data AttDbModel.all_chars
  AttDbModel.invalid_index
  AttSrvModel.srv_init AttSrvModel.srv_step AttSrvModel.by_value_available
  AttDbSpec.check_dump AttDbSpec.check_read AttDbSpec.check_discovery AttDbSpec.assign.
