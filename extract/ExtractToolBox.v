(* Extraction of the ToolBox model and monitor (C37, C38). ExtrOcamlBasic only; no Extract Constant. *)
Require Extraction.
Require Import ExtrOcamlBasic.
From BT Require Import Base.Conv ToolBox.ToolBoxModel ToolBox.ToolBoxSpec.
Extraction Language OCaml.
Extraction "toolbox.ml" conv_anchor ToolBoxModel.init ToolBoxModel.step ToolBoxSpec.minit ToolBoxSpec.mstep.
