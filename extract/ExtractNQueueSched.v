(* Extraction of the micro-step model of the notification queue (C13) and its monitor.
   ExtrOcamlBasic only; no Extract Constant. *)
Require Extraction.
Require Import ExtrOcamlBasic.
From BT Require Import Base.Conv NQueue.NQueueModel NQueue.NQueueSched.
Extraction Language OCaml.
Extraction "nqueuesched.ml" conv_anchor NQueueSched.sinit NQueueSched.sstep NQueueSched.sminit NQueueSched.smstep.
