(* Extraction of the NQueue model and monitor. ExtrOcamlBasic only; no Extract Constant. *)
Require Extraction.
Require Import ExtrOcamlBasic.
From BT Require Import Base.Conv NQueue.NQueueModel NQueue.NQueueSpec.
Extraction Language OCaml.
Extraction "nqueue.ml" conv_anchor NQueueModel.init NQueueModel.step NQueueSpec.minit NQueueSpec.mstep.
