// Correspondence harness for bluetoe/link_layer/include/bluetoe/ring_buffer.hpp (C18).
// build/C18/<key>.d/pduring_configs.inc (written by the runner) lists the instantiations as
//   CFG( 61, default, rb )      Size, layout (default | nrf), Buffer (rb = read_buffer | wb = write_buffer)
// The storage handed to the ring is an exactly sized heap block, so that AddressSanitizer sees every
// access of the ring outside [0,Size). Accesses made by the harness itself on behalf of the user
// (filling an allocated region, reading a peeked PDU) are bounds checked and abort, which the
// runner records as FAULT exactly like a sanitizer report.
#include "verif_common.hpp"
#define private public
#include <bluetoe/ring_buffer.hpp>
#include <bluetoe/nrf.hpp>
#undef private

namespace {
    using bluetoe::link_layer::read_buffer;
    using bluetoe::link_layer::write_buffer;
    using bluetoe::link_layer::pdu_ring_buffer;
    using layout_default = bluetoe::link_layer::default_pdu_layout;
    using layout_nrf     = bluetoe::nrf_details::encrypted_pdu_layout;

    [[noreturn]] void user_fault( const char* what )
    {
        std::fprintf( stderr, "ERROR: verif: %s outside the ring's storage\n", what );
        std::fflush( stderr );
        std::_Exit( 77 );
    }

    // push_front only compiles for Buffer = read_buffer (it assigns pdu.buffer to a std::uint8_t*).
    // For Buffer = write_buffer the commit is done by a read_buffer ring that shares front_/end_.
    template < std::size_t Size, typename Layout >
    void push( pdu_ring_buffer< Size, read_buffer, Layout >& ring, std::uint8_t* buffer, std::size_t off, std::size_t n )
    {
        ring.push_front( buffer, read_buffer{ buffer + off, n } );
    }

    template < std::size_t Size, typename Layout >
    void push( pdu_ring_buffer< Size, write_buffer, Layout >& ring, std::uint8_t* buffer, std::size_t off, std::size_t n )
    {
        // the constructor resets (writes the wrap mark at buffer[0..1]): construct on scratch storage
        std::uint8_t scratch[ 2 ];
        pdu_ring_buffer< Size, read_buffer, Layout > twin( scratch );
        twin.front_ = ring.front_; twin.end_ = ring.end_;
        twin.push_front( buffer, read_buffer{ buffer + off, n } );
        ring.front_ = twin.front_; ring.end_ = twin.end_;
    }

    template < std::size_t Size, typename Layout, typename Buffer >
    struct ring_subject : verif::subject
    {
        verif::heap_bytes                     store;   // filled with 0xAA
        pdu_ring_buffer< Size, Buffer, Layout > ring;
        std::size_t                           last_off, last_n;
        bool                                  have;    // an allocation is outstanding: the last alloc succeeded and was not committed yet

        ring_subject() : store( Size ), ring( store.p ), last_off( 0 ), last_n( 0 ), have( false ) {}

        std::string num( std::size_t v ) { return std::to_string( v ); }

        std::string do_push( std::size_t off, std::size_t n )
        {
            std::uint8_t* const buffer = store.p;
            // the user's view of what is committed: the PDU's bytes before the call
            std::string committed = "c ?";
            if ( off + 2 <= Size )
            {
                std::size_t len = Layout::data_channel_pdu_memory_size( buffer[ off + 1 ] );
                len = std::min( len, Size - off );
                committed = "c " + verif::hex_of_bytes( buffer + off, len );
            }
            push( ring, buffer, off, n );
            return committed;
        }

        std::string op( const std::vector< std::string >& w ) override
        {
            std::uint8_t* const buffer = store.p;
            const std::string& o = w[ 0 ];

            if ( o == "alloc" )
            {
                const std::size_t n = std::stoul( w[ 1 ] );
                const Buffer b = ring.alloc_front( buffer, n );
                if ( b.size == 0 && b.buffer == nullptr ) { have = false; return "none"; }
                last_off = static_cast< std::size_t >( b.buffer - buffer ); last_n = b.size; have = true;
                return "a " + num( last_off ) + " " + num( last_n );
            }
            // a client neither fills nor commits a buffer it did not get
            if ( ( o == "w" || o == "push" || o == "pushn" ) && !have ) return "skip";
            if ( o == "w" || o == "wabs" )
            {
                const std::size_t off = ( o == "w" ? last_off : 0 ) + std::stoul( w[ 1 ] );
                const auto bytes = verif::bytes_of_hex( w[ 2 ] );
                if ( off + bytes.size() > Size ) user_fault( "user write" );
                if ( !bytes.empty() ) std::memcpy( buffer + off, bytes.data(), bytes.size() );
                return "-";
            }
            if ( o == "push" ) { have = false; return do_push( last_off, last_n ); }
            if ( o == "pushn" ) { have = false; return do_push( last_off, std::stoul( w[ 1 ] ) ); }
            if ( o == "pushabs" ) return do_push( std::stoul( w[ 1 ] ), std::stoul( w[ 2 ] ) );
            if ( o == "peek" )
            {
                const Buffer b = ring.next_end();
                if ( b.size == 0 && b.buffer == nullptr ) return "none";
                const std::size_t off = static_cast< std::size_t >( b.buffer - buffer );
                if ( off + b.size > Size ) user_fault( "user read of the peeked PDU" );
                return "p " + num( off ) + " " + num( b.size ) + " " + verif::hex_of_bytes( b.buffer, b.size );
            }
            if ( o == "pop" ) { ring.pop_end( buffer ); return "-"; }
            if ( o == "more" ) return ring.more_than_one() ? "1" : "0";
            if ( o == "reset" ) { ring.reset( buffer ); have = false; return "-"; }
            if ( o == "dump" ) return "d " + verif::hex_of_bytes( buffer, Size );
            if ( o == "st" ) return "s " + num( static_cast< std::size_t >( ring.front_ - buffer ) ) + " " + num( static_cast< std::size_t >( ring.end_ - buffer ) );
            return "BADOP";
        }
    };

    std::map< std::string, verif::factory > registry;

    template < std::size_t Size, typename Layout, typename Buffer >
    void reg( const std::string& name )
    {
        registry[ name ] = []( const std::vector< std::string >& ) { return std::unique_ptr< verif::subject >( new ring_subject< Size, Layout, Buffer >() ); };
    }

    using rb = read_buffer;
    using wb = write_buffer;
}

int main()
{
#define CFG( SIZE, LAYOUT, BUF ) reg< SIZE, layout_##LAYOUT, BUF >( #SIZE " " #LAYOUT " " #BUF );
#include "pduring_configs.inc"
    return verif::main_loop( []( const std::vector< std::string >& cfg ) -> std::unique_ptr< verif::subject > {
        if ( cfg.size() < 3 ) return nullptr;
        auto f = registry.find( cfg[ 0 ] + " " + cfg[ 1 ] + " " + cfg[ 2 ] );
        return f == registry.end() ? nullptr : f->second( cfg );
    } );
}
