// Correspondence harness for bluetoe/notification_queue.hpp (C11 queue level, C12).
// build/<id>/nqueue_configs.inc (written by the runner) lists the size tuples as CFG(3,1,2)
#include "verif_common.hpp"
#include <bluetoe/notification_queue.hpp>

namespace {
    struct mixin {};

    template < int ... S >
    struct queue_subject : verif::subject
    {
        using sizes = std::tuple< std::integral_constant< int, S >... >;
        bluetoe::notification_queue< sizes, mixin > q;

        std::string op( const std::vector< std::string >& w ) override
        {
            if ( w[ 0 ] == "qn" ) return q.queue_notification( std::stoul( w[ 1 ] ) ) ? "1" : "0";
            if ( w[ 0 ] == "qi" ) return q.queue_indication( std::stoul( w[ 1 ] ) ) ? "1" : "0";
            if ( w[ 0 ] == "conf" ) { q.indication_confirmed(); return "-"; }
            if ( w[ 0 ] == "clr" ) { q.clear_indications_and_confirmations(); return "-"; }
            if ( w[ 0 ] == "deq" )
            {
                const auto r = q.dequeue_indication_or_confirmation();
                switch ( r.first )
                {
                    case bluetoe::details::notification_queue_entry_type::empty: return "e";
                    case bluetoe::details::notification_queue_entry_type::notification: return "n " + std::to_string( r.second );
                    case bluetoe::details::notification_queue_entry_type::indication: return "i " + std::to_string( r.second );
                }
                return "?";
            }
            return "BADOP";
        }
    };

    std::map< std::string, verif::factory > registry;

    template < int ... S >
    void reg( const char* name )
    {
        registry[ name ] = []( const std::vector< std::string >& ) { return std::unique_ptr< verif::subject >( new queue_subject< S... >() ); };
    }
}

int main()
{
#define CFG( ... ) reg< __VA_ARGS__ >( #__VA_ARGS__ );
#include "nqueue_configs.inc"
    return verif::main_loop( []( const std::vector< std::string >& cfg ) -> std::unique_ptr< verif::subject > {
        auto f = registry.find( cfg.at( 0 ) );
        return f == registry.end() ? nullptr : f->second( cfg );
    } );
}
