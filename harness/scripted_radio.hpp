// A scripted implementation of the scheduled-radio concept (bluetoe/link_layer/scheduled_radio.hpp)
// over the REAL ll_data_pdu_buffer. It never runs by itself: every schedule_* call of the link layer
// is recorded as an output item, and the trace drives the link layer's callbacks
// (adv_received / adv_timeout / end_event / timeout) through the harness.
//
// The radio side of a connection event is played by connection_event(): a well behaved central
// that sends the given PDUs (one empty PDU when there are none), acknowledges every PDU it gets and
// keeps the event open while either side has more data - the same loop as the repository's own
// test double (tests/test_tools/test_radio.hpp, simulate_connection_event_response).
//
// Output items (appended to verif_ll::log(), joined by blanks into the result line of an operation):
//   aa:<access address hex8>:<crc init hex6>     set_access_address_and_crc_init
//   adv:<channel>                                 schedule_advertisment (timing/data: properties C24, C14)
//   ce:<channel>:<start us>:<end us>:<interval us>  schedule_connection_event
//   tx:<llid>:<body hex>                          PDU handed to the air by received() (empty PDUs not shown)
//   phy:<c_to_p>:<p_to_c>                         radio_set_phy
//   enc:r+ enc:r- enc:t+ enc:t-                   start/stop receive/transmit encrypted
//   rxfull                                        no receive buffer (the model assumes this never happens)
//   disarm                                        disarm_connection_event was called
#ifndef VERIF_SCRIPTED_RADIO_HPP
#define VERIF_SCRIPTED_RADIO_HPP
#include "verif_common.hpp"
#include <cassert>
#include <bluetoe/ll_data_pdu_buffer.hpp>
#include <bluetoe/delta_time.hpp>
#include <bluetoe/buffer.hpp>
#include <bluetoe/address.hpp>
#include <bluetoe/phy_encodings.hpp>
#include <bluetoe/connection_events.hpp>
#include <bluetoe/default_pdu_layout.hpp>

namespace verif_ll {
    inline std::vector< std::string >& log() { static std::vector< std::string > l; return l; }
    inline void item( const std::string& s ) { log().push_back( s ); }
    inline std::string take_line()
    {
        std::string r;
        for ( const auto& s : log() ) { if ( !r.empty() ) r += ' '; r += s; }
        log().clear();
        return r.empty() ? std::string( "-" ) : r;
    }
    inline std::string num( unsigned long v ) { return std::to_string( v ); }
    inline std::string hexn( unsigned long v, int digits )
    {
        static const char* d = "0123456789abcdef"; std::string r( digits, '0' );
        for ( int i = digits - 1; i >= 0; --i, v >>= 4 ) r[ i ] = d[ v & 15 ];
        return r;
    }

    struct air_pdu { unsigned llid; std::vector< std::uint8_t > body; };

    // state of the scripted radio that is independent of the template parameters
    struct radio_script
    {
        bool        tx_available = true;        // 'txavail' operation: allocate_transmit_buffer() fails when false
        bool        disarm_result = false;      // 'cancel' operation: result of disarm_connection_event()
        std::uint32_t disarm_time = 0;
        bool        central_sn = false;
        bool        central_nesn = false;
        bluetoe::link_layer::read_buffer adv_receive_buffer{ nullptr, 0 };
        unsigned    wake_ups = 0;
    };

    template < std::size_t TransmitSize, std::size_t ReceiveSize, typename CallBack, bool Phy2M, bool Encryption >
    class scripted_radio_impl :
        public bluetoe::link_layer::ll_data_pdu_buffer< TransmitSize, ReceiveSize,
            scripted_radio_impl< TransmitSize, ReceiveSize, CallBack, Phy2M, Encryption > >
    {
    public:
        using buffer_t = bluetoe::link_layer::ll_data_pdu_buffer< TransmitSize, ReceiveSize,
            scripted_radio_impl< TransmitSize, ReceiveSize, CallBack, Phy2M, Encryption > >;
        using layout   = typename buffer_t::layout;

        radio_script script;

        // ------------------------------------------------------------------ scheduled radio concept
        void schedule_advertisment(
            unsigned channel, const bluetoe::link_layer::write_buffer&, const bluetoe::link_layer::write_buffer&,
            bluetoe::link_layer::delta_time, const bluetoe::link_layer::read_buffer& receive )
        {
            script.adv_receive_buffer = receive;
            item( "adv:" + num( channel ) );
        }

        bluetoe::link_layer::delta_time schedule_connection_event(
            unsigned channel, bluetoe::link_layer::delta_time start_receive, bluetoe::link_layer::delta_time end_receive,
            bluetoe::link_layer::delta_time connection_interval )
        {
            item( "ce:" + num( channel ) + ":" + num( start_receive.usec() ) + ":" + num( end_receive.usec() ) + ":" + num( connection_interval.usec() ) );
            return start_receive;
        }

        std::pair< bool, bluetoe::link_layer::delta_time > disarm_connection_event()
        {
            item( "disarm" );
            return { script.disarm_result, bluetoe::link_layer::delta_time( script.disarm_time ) };
        }

        bool schedule_synchronized_user_timer( bluetoe::link_layer::delta_time, bluetoe::link_layer::delta_time ) { return false; }
        bool cancel_synchronized_user_timer() { return false; }

        void set_access_address_and_crc_init( std::uint32_t access_address, std::uint32_t crc_init )
        {
            item( "aa:" + hexn( access_address, 8 ) + ":" + hexn( crc_init, 6 ) );
        }

        std::uint32_t static_random_address_seed() const { return 0x47110815; }
        void run() {}
        void wake_up() { ++script.wake_ups; }
        void request_event_cancelation() {}

        class lock_guard { public: lock_guard() {} };

        void radio_set_phy( bluetoe::link_layer::phy_ll_encoding::phy_ll_encoding_t c_to_p, bluetoe::link_layer::phy_ll_encoding::phy_ll_encoding_t p_to_c )
        {
            item( "phy:" + num( c_to_p ) + ":" + num( p_to_c ) );
        }

        void increment_receive_packet_counter() {}
        void increment_transmit_packet_counter() {}

        static constexpr std::size_t radio_package_overhead = 0;
        static constexpr bool hardware_supports_encryption = Encryption;
        static constexpr bool hardware_supports_lesc_pairing = false;
        static constexpr bool hardware_supports_legacy_pairing = Encryption;
        static constexpr bool hardware_supports_2mbit = Phy2M;
        static constexpr bool hardware_supports_synchronized_user_timer = false;

        // ------------------------------------------------------------------ encryption (toy; see toy security manager)
        std::pair< std::uint64_t, std::uint32_t > setup_encryption( bluetoe::details::uint128_t key, std::uint64_t skdm, std::uint32_t ivm )
        {
            item( "setup:" + verif::hex_of_bytes( key.data(), key.size() ) + ":" + hexn( skdm >> 32, 8 ) + hexn( skdm & 0xffffffffu, 8 ) + ":" + hexn( ivm, 8 ) );
            return { 0x3fac22107855aa56ul, 0x78563412u };
        }
        void start_receive_encrypted()  { item( "enc:r+" ); }
        void start_transmit_encrypted() { item( "enc:t+" ); }
        void stop_receive_encrypted()   { item( "enc:r-" ); }
        void stop_transmit_encrypted()  { item( "enc:t-" ); }

        // ------------------------------------------------------------------ scripted transmit buffer availability
        // ll_l2cap_sdu_buffer<> calls this->allocate_transmit_buffer(); these overloads hide the ones of
        // ll_data_pdu_buffer, so that the trace can make "no transmit buffer" happen at will.
        bluetoe::link_layer::read_buffer allocate_transmit_buffer( std::size_t size )
        {
            if ( !script.tx_available )
                return bluetoe::link_layer::read_buffer{ nullptr, 0 };
            return buffer_t::allocate_transmit_buffer( size );
        }
        bluetoe::link_layer::read_buffer allocate_transmit_buffer()
        {
            if ( !script.tx_available )
                return bluetoe::link_layer::read_buffer{ nullptr, 0 };
            return buffer_t::allocate_transmit_buffer();
        }

        // ------------------------------------------------------------------ the radio's side of one connection event
        void new_connection() { script.central_sn = false; script.central_nesn = false; }

        // returns false if the exchange had to stop for lack of a receive buffer
        bool connection_event( std::vector< air_pdu > pdus )
        {
            static constexpr std::uint16_t sn_flag = 0x8, nesn_flag = 0x4, md_flag = 0x10;
            bool more = false;
            do
            {
                auto rb = this->allocate_receive_buffer();
                if ( rb.size == 0 ) { item( "rxfull" ); return false; }
                std::uint16_t header = 0x0001;
                std::size_t   len    = 0;
                if ( !pdus.empty() )
                {
                    const air_pdu p = pdus.front(); pdus.erase( pdus.begin() );
                    len    = p.body.size();
                    assert( layout::data_channel_pdu_memory_size( len ) <= rb.size );
                    header = static_cast< std::uint16_t >( ( p.llid & 3 ) | ( len << 8 ) );
                    std::copy( p.body.begin(), p.body.end(), layout::body( rb ).first );
                    if ( !pdus.empty() ) header |= md_flag;
                }
                if ( script.central_sn )   header |= sn_flag;
                if ( script.central_nesn ) header |= nesn_flag;
                layout::header( rb, header );
                rb.size = layout::data_channel_pdu_memory_size( len );

                const bluetoe::link_layer::write_buffer response = this->received( rb );
                script.central_sn   = !script.central_sn;
                script.central_nesn = !script.central_nesn;

                const std::uint16_t rh   = layout::header( response );
                const std::size_t   rlen = rh >> 8;
                if ( rlen )
                    item( "tx:" + num( rh & 3 ) + ":" + verif::hex_of_bytes( layout::body( response ).first, rlen ) );
                more = !pdus.empty() || ( rh & md_flag );
            } while ( more );
            return true;
        }
    };

    template < std::size_t T, std::size_t R, typename C > using radio_2m      = scripted_radio_impl< T, R, C, true, false >;
    template < std::size_t T, std::size_t R, typename C > using radio_1m      = scripted_radio_impl< T, R, C, false, false >;
    template < std::size_t T, std::size_t R, typename C > using radio_2m_enc  = scripted_radio_impl< T, R, C, true, true >;
    template < std::size_t T, std::size_t R, typename C > using radio_1m_enc  = scripted_radio_impl< T, R, C, false, true >;
}
#endif
