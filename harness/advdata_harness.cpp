// Correspondence harness for the advertising / scan response data of bluetoe::server<> (C14):
// server.hpp (advertising_data, advertising_data_impl, scan_response_data, copy_name),
// adv_service_list.hpp, appearance.hpp, peripheral_connection_interval_range.hpp,
// custom_advertising.hpp, server_name.hpp.
//
// build/C14/<group>.d/advdata_decls.inc (written by props/C14.py from its declaration table) contains,
// per declaration, a namespace with the name / custom data arrays and the server type, and a line
//     DECL( D03, d_D03::type, <runtime adv 0|1>, <runtime scan 0|1> )
//
// CASE <name> <decl id> <model cfg words...>    (only the declaration id is used here)
// ops:  adv <b>  |  scan <b>      -> "<r> <hex of the whole b-byte buffer>"  (buffer pre-filled with 0xAA,
//                                    exactly sized heap block, so ASan sees every write outside [0,b))
//       setadv <hex> | setscan <hex>  -> "done" (runtime_custom_* declarations) | "na"
#include "verif_common.hpp"
#include <bluetoe/server.hpp>
#include <bluetoe/custom_advertising.hpp>
#include <bluetoe/adv_service_list.hpp>
#include <bluetoe/appearance.hpp>
#include <bluetoe/peripheral_connection_interval_range.hpp>
#include <bluetoe/server_name.hpp>

namespace {
    template < bool > struct rt_adv {
        template < class S > static std::string set( S&, const std::vector< std::uint8_t >& ) { return "na"; }
    };
    template <> struct rt_adv< true > {
        template < class S > static std::string set( S& s, const std::vector< std::uint8_t >& v )
        {
            verif::heap_bytes in( v );
            s.set_runtime_custom_advertising_data( in.p, in.size );
            return "done";
        }
    };
    template < bool > struct rt_scan {
        template < class S > static std::string set( S&, const std::vector< std::uint8_t >& ) { return "na"; }
    };
    template <> struct rt_scan< true > {
        template < class S > static std::string set( S& s, const std::vector< std::uint8_t >& v )
        {
            verif::heap_bytes in( v );
            s.set_runtime_custom_scan_response_data( in.p, in.size );
            return "done";
        }
    };

    template < class Server, bool RtAdv, bool RtScan >
    struct adv_subject : verif::subject
    {
        Server srv;

        std::string op( const std::vector< std::string >& w ) override
        {
            if ( w[ 0 ] == "adv" || w[ 0 ] == "scan" )
            {
                const std::size_t b = std::stoul( w.at( 1 ) );
                verif::heap_bytes out( b );          // filled with 0xAA
                const std::size_t r = w[ 0 ] == "adv"
                    ? srv.advertising_data( out.p, b )
                    : srv.scan_response_data( out.p, b );
                return std::to_string( r ) + " " + verif::hex_of_bytes( out.p, b );
            }
            if ( w[ 0 ] == "setadv" )  return rt_adv< RtAdv >::set( srv, verif::bytes_of_hex( w.at( 1 ) ) );
            if ( w[ 0 ] == "setscan" ) return rt_scan< RtScan >::set( srv, verif::bytes_of_hex( w.at( 1 ) ) );
            return "BADOP";
        }
    };

    std::map< std::string, verif::factory > registry;

    template < class Server, bool RtAdv, bool RtScan >
    void reg( const char* name )
    {
        registry[ name ] = []( const std::vector< std::string >& ) {
            return std::unique_ptr< verif::subject >( new adv_subject< Server, RtAdv, RtScan >() ); };
    }
}

#define DECL( id, type, rta, rts )
#define VERIF_DECL_TYPES
#include "advdata_decls.inc"
#undef VERIF_DECL_TYPES
#undef DECL

int main()
{
#define DECL( id, type, rta, rts ) reg< type, rta, rts >( #id );
#include "advdata_decls.inc"
    return verif::main_loop( []( const std::vector< std::string >& cfg ) -> std::unique_ptr< verif::subject > {
        auto f = registry.find( cfg.at( 0 ) );
        return f == registry.end() ? nullptr : f->second( cfg );
    } );
}
