// Correspondence harness for bluetoe/link_layer/include/bluetoe/white_list.hpp (C26).
// build/C26/<key>.d/whitelist_configs.inc (written by the runner) lists the configurations:
//   SW(N,R)  white_list< N > over a radio with R < N hardware entries  -> software list
//   HW(N,R)  white_list< N > over a radio with R >= N hardware entries -> radio-backed list
// (which of the two classes is used is decided by white_list< N >::impl, not here)
// The white list base class is selected exactly the way link_layer<> does it:
//   details::white_list< Radio, LinkLayer, Options... >::type   (link_layer.hpp)
// and the object under test derives from the radio and from that type, like link_layer<> does.
//
// ops:  add|rem|in|cin|sin <p|r> <12 hex digits>   -> true|false
//       free -> decimal     clr -> -     cf|sf <0|1> -> -     cf?|sf? -> true|false
#include "verif_common.hpp"
#include <stdexcept>
#include <type_traits>
#include <bluetoe/link_layer.hpp>
#include "utility/address.cpp"      // device_address::operator== of the tree under test

namespace {
    using bluetoe::link_layer::device_address;

    // a radio without hardware white list (nrf51 / nrf52 / the repo's test radio: 0 entries)
    struct radio_without_white_list {
        static constexpr std::size_t radio_maximum_white_list_entries = 0;
    };

    // A radio with R hardware entries. Written independently of white_list.hpp (and of the mock in
    // tests/link_layer/white_list_tests.cpp): R entries with a valid flag each, first free entry is
    // taken, removing clears the flag. This is the tie-side instance of "the radio implements the set".
    template < std::size_t R >
    class mock_radio {
    public:
        static constexpr std::size_t radio_maximum_white_list_entries = R;

        mock_radio() : conn_( false ), scan_( false ) { for ( std::size_t i = 0; i != R; ++i ) valid_[ i ] = false; }

        std::size_t radio_white_list_free_size() const
        {
            std::size_t n = 0;
            for ( std::size_t i = 0; i != R; ++i ) if ( !valid_[ i ] ) ++n;
            return n;
        }
        void radio_clear_white_list() { for ( std::size_t i = 0; i != R; ++i ) valid_[ i ] = false; }
        bool radio_is_in_white_list( const device_address& a ) const { return index_of( a ) != R; }
        bool radio_add_to_white_list( const device_address& a )
        {
            if ( index_of( a ) != R ) return true;
            for ( std::size_t i = 0; i != R; ++i )
                if ( !valid_[ i ] ) { entry_[ i ] = a; valid_[ i ] = true; return true; }
            return false;
        }
        bool radio_remove_from_white_list( const device_address& a )
        {
            const std::size_t i = index_of( a );
            if ( i == R ) return false;
            valid_[ i ] = false;
            return true;
        }
        void radio_connection_request_filter( bool b ) { conn_ = b; }
        bool radio_connection_request_filter() const { return conn_; }
        void radio_scan_request_filter( bool b ) { scan_ = b; }
        bool radio_scan_request_filter() const { return scan_; }
        bool radio_is_connection_request_in_filter( const device_address& a ) const { return !conn_ || index_of( a ) != R; }
        bool radio_is_scan_request_in_filter( const device_address& a ) const { return !scan_ || index_of( a ) != R; }
    private:
        std::size_t index_of( const device_address& a ) const
        {
            for ( std::size_t i = 0; i != R; ++i )
                if ( valid_[ i ] && entry_[ i ].is_random() == a.is_random() && std::equal( a.begin(), a.end(), entry_[ i ].begin() ) )
                    return i;
            return R;
        }
        bool            valid_[ R ? R : 1 ];
        device_address  entry_[ R ? R : 1 ];
        bool            conn_, scan_;
    };

    template < std::size_t R > struct radio_of { using type = mock_radio< R >; };
    template <> struct radio_of< 0 > { using type = radio_without_white_list; };

    // the object link_layer<> would be, reduced to its radio and white list base classes; the white
    // list option sits between other link layer options as in a real configuration
    template < std::size_t N, std::size_t R >
    struct link_layer_stub :
        radio_of< R >::type,
        bluetoe::link_layer::details::white_list<
            typename radio_of< R >::type,
            link_layer_stub< N, R >,
            bluetoe::link_layer::buffer_sizes< 61, 61 >,
            bluetoe::link_layer::white_list< N >,
            bluetoe::link_layer::random_static_address >::type
    {
    };

    template < std::size_t N, std::size_t R >
    struct wl_subject : verif::subject
    {
        using ll_t = link_layer_stub< N, R >;
        ll_t ll;

        static device_address addr( const std::vector< std::string >& w )
        {
            if ( w.size() != 3 || ( w[ 1 ] != "p" && w[ 1 ] != "r" ) || w[ 2 ].size() != 12 )
                throw std::runtime_error( "bad address" );
            const verif::heap_bytes raw( verif::bytes_of_hex( w[ 2 ] ) );   // exactly 6 bytes on the heap
            return device_address( raw.p, w[ 1 ] == "r" );
        }
        static std::string b( bool v ) { return v ? "true" : "false"; }

        std::string op( const std::vector< std::string >& w ) override
        {
            const ll_t& cll = ll;
            if ( w[ 0 ] == "add" )  return b( ll.add_to_white_list( addr( w ) ) );
            if ( w[ 0 ] == "rem" )  return b( ll.remove_from_white_list( addr( w ) ) );
            if ( w[ 0 ] == "in" )   return b( cll.is_in_white_list( addr( w ) ) );
            if ( w[ 0 ] == "cin" )  return b( cll.is_connection_request_in_filter( addr( w ) ) );
            if ( w[ 0 ] == "sin" )  return b( cll.is_scan_request_in_filter( addr( w ) ) );
            if ( w[ 0 ] == "free" ) return std::to_string( cll.white_list_free_size() );
            if ( w[ 0 ] == "clr" )  { ll.clear_white_list(); return "-"; }
            if ( w[ 0 ] == "cf" )   { ll.connection_request_filter( w.at( 1 ) == "1" ); return "-"; }
            if ( w[ 0 ] == "sf" )   { ll.scan_request_filter( w.at( 1 ) == "1" ); return "-"; }
            if ( w[ 0 ] == "cf?" )  return b( cll.connection_request_filter() );
            if ( w[ 0 ] == "sf?" )  return b( cll.scan_request_filter() );
            return "BADOP";
        }
    };

    std::map< std::string, verif::factory > registry;

    template < std::size_t N, std::size_t R >
    void reg( const std::string& name )
    {
        registry[ name ] = []( const std::vector< std::string >& ) {
            return std::unique_ptr< verif::subject >( new wl_subject< N, R >() ); };
    }
}

int main()
{
#define SW( N, R ) reg< N, R >( "sw " #N " " #R );
#define HW( N, R ) reg< N, R >( "hw " #N " " #R );
#include "whitelist_configs.inc"
    return verif::main_loop( []( const std::vector< std::string >& cfg ) -> std::unique_ptr< verif::subject > {
        if ( cfg.size() != 3 ) return nullptr;
        auto f = registry.find( cfg[ 0 ] + " " + cfg[ 1 ] + " " + cfg[ 2 ] );
        return f == registry.end() ? nullptr : f->second( cfg );
    } );
}
