// Correspondence harness for bluetoe/l2cap.hpp (channel multiplexer l2cap< LinkLayer, ChannelData, Channels... >)
// and bluetoe/link_layer/include/bluetoe/l2cap_signaling_channel.hpp (the real signaling_channel<>)  -- C31.
//
// build/<id>/<key>.d/l2cap_configs.inc (written by props/C31.py: prepare) lists the configurations as
//   CFG( <id>, "<spec>", <channel types...> )
// with spec = comma separated  e<cid>.<min>.<max>  echo channel     (replies min( in_size, out_size ) input bytes)
//                              s<cid>.<min>.<max>  silent channel   (consumes, never replies)
//                              a<cid>.<min>.<max>  async channel    (queues every non empty input, hands one queued
//                                                                    SDU (truncated to the offered size) to l2cap_output)
//                              g                   the real signaling_channel<> (CID 5, MTU 23)
// CASE <name> <spec> <nbuf>       nbuf = number of output buffers of the fake link layer
// ops:  in <hex frame>     -> in <ret> <deliveries> <committed frames>      deliveries: cid:hex;...   frames: hex,...
//       req <a> <b> <c> <d>-> req <0|1>      signaling_channel::connection_parameter_update_request
//       poll               -> poll <committed frames>                       transmit_pending_l2cap_output
//       free <n>           -> free <k>       the link layer got n buffers back (k = free buffers now)
//
// The fake link layer implements the contract of link_layer::allocate_l2cap_output_buffer( size ): a buffer of
// exactly size + 4 bytes (l2cap header + payload) or { 0, nullptr }. Every buffer is an exactly sized heap block
// (filled with 0xAA), every input an exactly sized heap copy, so ASan sees any access outside.
#include "verif_common.hpp"
#include <deque>
#include <bluetoe/l2cap.hpp>
#include <bluetoe/l2cap_signaling_channel.hpp>

namespace {
    struct base_data {};

    std::vector< std::pair< std::uint16_t, std::vector< std::uint8_t > > > deliveries;

    void log_delivery( std::uint16_t cid, const std::uint8_t* in, std::size_t n )
    {
        deliveries.push_back( { cid, std::vector< std::uint8_t >( in, in + n ) } );
    }

    template < std::uint16_t CID, std::size_t MIN, std::size_t MAX >
    struct toy_base
    {
        static constexpr std::uint16_t channel_id               = CID;
        static constexpr std::size_t   minimum_channel_mtu_size = MIN;
        static constexpr std::size_t   maximum_channel_mtu_size = MAX;
        template < class P > using channel_data_t = P;
    };

    template < std::uint16_t CID, std::size_t MIN, std::size_t MAX >
    struct echo_ch : toy_base< CID, MIN, MAX >
    {
        template < class CD >
        void l2cap_input( const std::uint8_t* in, std::size_t n, std::uint8_t* out, std::size_t& out_size, CD& )
        {
            log_delivery( CID, in, n );
            const std::size_t m = std::min( n, out_size );
            for ( std::size_t i = 0; i != m; ++i ) out[ i ] = in[ i ];
            out_size = m;
        }
        template < class CD > void l2cap_output( std::uint8_t*, std::size_t& out_size, CD& ) { out_size = 0; }
    };

    template < std::uint16_t CID, std::size_t MIN, std::size_t MAX >
    struct silent_ch : toy_base< CID, MIN, MAX >
    {
        template < class CD >
        void l2cap_input( const std::uint8_t* in, std::size_t n, std::uint8_t*, std::size_t& out_size, CD& )
        {
            log_delivery( CID, in, n );
            out_size = 0;
        }
        template < class CD > void l2cap_output( std::uint8_t*, std::size_t& out_size, CD& ) { out_size = 0; }
    };

    template < std::uint16_t CID, std::size_t MIN, std::size_t MAX >
    struct async_ch : toy_base< CID, MIN, MAX >
    {
        template < class CD >
        void l2cap_input( const std::uint8_t* in, std::size_t n, std::uint8_t*, std::size_t& out_size, CD& )
        {
            log_delivery( CID, in, n );
            if ( n ) queue.push_back( std::vector< std::uint8_t >( in, in + n ) );
            out_size = 0;
        }
        template < class CD > void l2cap_output( std::uint8_t* out, std::size_t& out_size, CD& )
        {
            if ( queue.empty() ) { out_size = 0; return; }
            const std::vector< std::uint8_t > p = queue.front();
            queue.pop_front();
            const std::size_t m = std::min( p.size(), out_size );
            for ( std::size_t i = 0; i != m; ++i ) out[ i ] = p[ i ];
            out_size = m;
        }
        std::deque< std::vector< std::uint8_t > > queue;
    };

    // the real signaling channel; only the delivery is logged before the real l2cap_input runs
    struct sig_ch : bluetoe::l2cap::signaling_channel<>
    {
        template < class CD >
        void l2cap_input( const std::uint8_t* in, std::size_t n, std::uint8_t* out, std::size_t& out_size, CD& cd )
        {
            log_delivery( channel_id, in, n );
            bluetoe::l2cap::signaling_channel<>::l2cap_input( in, n, out, out_size, cd );
        }
    };

    template < class ... Ch > struct has_sig : std::false_type {};
    template < class ... Ch > struct has_sig< sig_ch, Ch... > : std::true_type {};
    template < class C, class ... Ch > struct has_sig< C, Ch... > : has_sig< Ch... > {};

    template < class ... Ch >
    struct fake_ll : bluetoe::details::l2cap< fake_ll< Ch... >, base_data, Ch... >
    {
        explicit fake_ll( std::size_t n ) : nbuf( n ), free_( n ) {}

        std::pair< std::size_t, std::uint8_t* > allocate_l2cap_output_buffer( std::size_t size )
        {
            if ( free_ == 0 ) return { 0, nullptr };
            cur.reset( new verif::heap_bytes( size + 4 ) );
            return { size + 4, cur->p };
        }

        void commit_l2cap_output_buffer( std::pair< std::size_t, std::uint8_t* > b )
        {
            std::vector< std::uint8_t > f;
            for ( std::size_t i = 0; i != b.first; ++i ) f.push_back( b.second[ i ] );
            tx.push_back( f );
            --free_;
            cur.reset();
        }

        std::size_t nbuf, free_;
        std::unique_ptr< verif::heap_bytes > cur;
        std::vector< std::vector< std::uint8_t > > tx;
    };

    std::string show_tx( const std::vector< std::vector< std::uint8_t > >& tx )
    {
        if ( tx.empty() ) return "-";
        std::string r;
        for ( std::size_t i = 0; i != tx.size(); ++i )
            r += ( i ? "," : "" ) + verif::hex_of_bytes( tx[ i ].data(), tx[ i ].size() );
        return r;
    }

    std::string show_deliveries()
    {
        if ( deliveries.empty() ) return "-";
        std::string r;
        for ( std::size_t i = 0; i != deliveries.size(); ++i )
            r += ( i ? ";" : "" ) + std::to_string( deliveries[ i ].first ) + ":"
               + verif::hex_of_bytes( deliveries[ i ].second.data(), deliveries[ i ].second.size() );
        return r;
    }

    template < class LL >
    bool request( LL& ll, std::true_type, std::uint16_t a, std::uint16_t b, std::uint16_t c, std::uint16_t d )
    {
        return static_cast< sig_ch& >( ll ).connection_parameter_update_request( a, b, c, d );
    }

    template < class LL >
    bool request( LL&, std::false_type, std::uint16_t a, std::uint16_t b, std::uint16_t c, std::uint16_t d )
    {
        // what link_layer<> uses when no signaling channel is configured
        return bluetoe::l2cap::no_signaling_channel().connection_parameter_update_request( a, b, c, d );
    }

    template < class ... Ch >
    struct l2cap_subject : verif::subject
    {
        using ll_t = fake_ll< Ch... >;
        ll_t                                ll;
        typename ll_t::connection_data_t    cd;

        explicit l2cap_subject( std::size_t nbuf ) : ll( nbuf ) {}

        std::string op( const std::vector< std::string >& w ) override
        {
            deliveries.clear();
            ll.tx.clear();
            if ( w[ 0 ] == "in" && w.size() == 2 )
            {
                const verif::heap_bytes frame( verif::bytes_of_hex( w[ 1 ] ) );
                const bool r = ll.handle_l2cap_input( frame.p, frame.size, cd );
                ll.cur.reset();
                return std::string( "in " ) + ( r ? "1 " : "0 " ) + show_deliveries() + " " + show_tx( ll.tx );
            }
            if ( w[ 0 ] == "req" && w.size() == 5 )
            {
                const bool r = request( ll, has_sig< Ch... >(),
                    static_cast< std::uint16_t >( std::stoul( w[ 1 ] ) ), static_cast< std::uint16_t >( std::stoul( w[ 2 ] ) ),
                    static_cast< std::uint16_t >( std::stoul( w[ 3 ] ) ), static_cast< std::uint16_t >( std::stoul( w[ 4 ] ) ) );
                return r ? "req 1" : "req 0";
            }
            if ( w[ 0 ] == "poll" )
            {
                ll.transmit_pending_l2cap_output( cd );
                ll.cur.reset();
                return "poll " + show_tx( ll.tx );
            }
            if ( w[ 0 ] == "free" && w.size() == 2 )
            {
                ll.free_ = std::min( ll.nbuf, ll.free_ + static_cast< std::size_t >( std::stoul( w[ 1 ] ) ) );
                return "free " + std::to_string( ll.free_ );
            }
            return "BADOP";
        }
    };

    std::map< std::string, verif::factory > registry;

    template < class ... Ch >
    void reg( const char* spec )
    {
        registry[ spec ] = []( const std::vector< std::string >& cfg ) {
            return std::unique_ptr< verif::subject >( new l2cap_subject< Ch... >( std::stoul( cfg.at( 1 ) ) ) );
        };
    }
}

int main()
{
#define CFG( SPEC, ... ) reg< __VA_ARGS__ >( SPEC );
#include "l2cap_configs.inc"
    return verif::main_loop( []( const std::vector< std::string >& cfg ) -> std::unique_ptr< verif::subject > {
        auto f = registry.find( cfg.at( 0 ) );
        return f == registry.end() ? nullptr : f->second( cfg );
    } );
}
