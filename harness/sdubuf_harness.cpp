// Correspondence harness for bluetoe/link_layer/include/bluetoe/ll_l2cap_sdu_buffer.hpp (C19).
//
// Object under test: the real ll_l2cap_sdu_buffer< Radio, Radio, MTU > over the real
// ll_data_pdu_buffer< TX, RX, Radio > (and its real pdu_ring_buffer), Radio = mock_radio below, which
// plays the scheduled radio *and* the central: it delivers received PDUs with correct SN / NESN bits
// through the protected radio interface ( allocate_receive_buffer() / received() ) and consumes
// transmitted PDUs through next_transmit() + an acknowledging empty PDU.
//
// build/<id>/<key>.d/sdubuf_configs.inc (written by props/C19.py) lists the configurations as
// CFG(<mtu>,<layout overhead>).
//
// Line protocol (same as ocaml/sdubuf_driver.ml):
//   CASE <name> <mtu> <oh>
//   rx <llid> <hex>        central sends a data channel PDU           -> ok | drop | toolong
//   next <g>               next_ll_l2cap_received()                   -> none | pdu <llid> <hex> | sdu <hex>
//   free                   free_ll_l2cap_received()                   -> ok | nop
//   l2tx <g> <hex>         allocate_l2cap_transmit_buffer + fill + commit_l2cap_transmit_buffer
//                          (<hex> = L2CAP header + payload)           -> ok | busy | pre
//   lltx <g> <a> <hex>     allocate_ll_transmit_buffer + fill + commit_ll_transmit_buffer (LL control PDU)
//                                                                     -> ok | full | pre
//   radio                  the central receives and acknowledges one PDU -> none | pdu <llid> <hex>
//   maxtx <n> / maxrx <n>  max_tx_size( n ) / max_rx_size( n )        -> ok | pre
// Every result is followed by " ; tx <llid>:<hex> ..." listing the PDUs that were committed to the
// ll_data_pdu_buffer during the operation (observed in the radio's commit_transmit_buffer()).
//
// <g> / <a> are the allocation oracle for the transmit ring: while the SDU buffer tries to send
// pending fragments the first <g> calls of allocate_transmit_buffer() are served by the real ring, the
// next one fails; <a> (0/1) answers the final allocation of allocate_ll_transmit_buffer(). The rings are
// large enough never to refuse on their own for the traces the generator produces (RINGFULL otherwise).
//
// Memory safety: the object is an exactly sized heap block (ASan sees everything beyond it). ASan is
// blind inside the object, so every std::copy of the headers is replaced (token substitution, as for
// `private`) by a checking copy: a source or destination range that touches the object under test must
// lie completely inside ONE of its arrays receive_buffer_, transmit_buffer_, or the two rings. After
// each operation receive_buffer_used_ + receive_size_ and transmit_buffer_used_ + transmit_size_ are
// checked against the array sizes as well.
#include "verif_common.hpp"
#include <type_traits>
#include <initializer_list>
#include <cassert>
#include <unistd.h>

namespace verif_guard {
    struct region { const std::uint8_t* lo; const std::uint8_t* hi; const char* name; };
    static region        arrays[ 8 ];
    static int           narrays = 0;
    static region        object  = { nullptr, nullptr, "object" };

    [[noreturn]] inline void fail( const char* what, const region& r, const std::uint8_t* p, std::size_t n )
    {
        std::fflush( stdout );
        std::fprintf( stderr, "VERIF-GUARD ERROR: %s of %zu bytes at offset %td of %s[%td]\n",
            what, n, p - r.lo, r.name, r.hi - r.lo );
        std::fflush( stderr );
        _exit( 78 );
    }

    inline void check( const void* ptr, std::size_t n, const char* what )
    {
        const std::uint8_t* p = static_cast< const std::uint8_t* >( ptr );
        if ( n == 0 || object.lo == nullptr || p + n <= object.lo || p >= object.hi )
            return;

        for ( int i = 0; i != narrays; ++i )
        {
            if ( p >= arrays[ i ].lo && p < arrays[ i ].hi )
            {
                if ( p + n > arrays[ i ].hi )
                    fail( what, arrays[ i ], p, n );
                return;
            }
        }

        fail( what, object, p, n );
    }
}

namespace std {
    template < class In, class Out >
    Out verif_checked_copy( In b, In e, Out o )
    {
        if ( b == e )
            return o;
        const std::size_t n = static_cast< std::size_t >( e - b );
        verif_guard::check( &*b, n * sizeof( *b ), "READ" );
        verif_guard::check( &*o, n * sizeof( *o ), "WRITE" );
        for ( ; b != e; ++b, ++o )
            *o = *b;
        return o;
    }
}

#define copy verif_checked_copy
#define private public
#define protected public
#include <bluetoe/ll_l2cap_sdu_buffer.hpp>
#include <bluetoe/ll_data_pdu_buffer.hpp>
#undef protected
#undef private
#undef copy

namespace {
    namespace ll = bluetoe::link_layer;

    // in memory layout with OH extra bytes between LL header and body (like the nrf52 encryption layout)
    template < std::size_t OH >
    struct gap_layout : ll::details::layout_base< gap_layout< OH > >
    {
        static constexpr std::size_t header_size = sizeof( std::uint16_t );
        using ll::details::layout_base< gap_layout< OH > >::header;

        static std::uint16_t header( const std::uint8_t* pdu ) { return ::bluetoe::details::read_16bit( pdu ); }
        static void header( std::uint8_t* pdu, std::uint16_t v ) { ::bluetoe::details::write_16bit( pdu, v ); }

        static std::pair< std::uint8_t*, std::uint8_t* > body( const ll::read_buffer& pdu )
        {
            assert( pdu.size >= header_size + OH );
            return { &pdu.buffer[ header_size + OH ], &pdu.buffer[ pdu.size ] };
        }

        static std::pair< const std::uint8_t*, const std::uint8_t* > body( const ll::write_buffer& pdu )
        {
            assert( pdu.size >= header_size + OH );
            return { &pdu.buffer[ header_size + OH ], &pdu.buffer[ pdu.size ] };
        }

        static constexpr std::size_t data_channel_pdu_memory_size( std::size_t payload_size )
        {
            return header_size + OH + payload_size;
        }
    };

    static constexpr std::size_t tx_ring = 4096;
    static constexpr std::size_t rx_ring = 16384;

    struct committed_pdu { unsigned llid; std::vector< std::uint8_t > body; };

    template < std::size_t OH >
    struct mock_radio : ll::ll_data_pdu_buffer< tx_ring, rx_ring, mock_radio< OH > >
    {
        using base   = ll::ll_data_pdu_buffer< tx_ring, rx_ring, mock_radio< OH > >;
        using layout = typename base::layout;

        struct lock_guard { lock_guard() {} ~lock_guard() {} };
        void increment_receive_packet_counter() {}
        void increment_transmit_packet_counter() {}

        // --- allocation oracle in front of the real transmit ring
        unsigned                grants          = 0;        // successful allocations left while fragments are pending
        bool                    final_answer    = false;    // answer for the allocation after the pending fragments
        bool                    always_final    = false;    // MTU 23: every allocation is the final one
        bool                    failed_once     = false;
        const std::uint16_t*    pending_size    = nullptr;  // &transmit_size_ of the SDU buffer
        bool                    ring_refused    = false;
        std::vector< committed_pdu > committed;

        void oracle( unsigned g, bool fin, bool always )
        {
            grants = g; final_answer = fin; always_final = always; failed_once = false;
        }

        ll::read_buffer allocate_transmit_buffer( std::size_t size )
        {
            bool yes;
            if ( always_final || failed_once || pending_size == nullptr || *pending_size == 0 )
                yes = final_answer;
            else if ( grants )
                yes = true;
            else
            {
                failed_once = true;
                yes = false;
            }

            if ( !yes )
                return ll::read_buffer{ nullptr, 0 };

            const ll::read_buffer r = base::allocate_transmit_buffer( size );
            if ( r.size == 0 )
                ring_refused = true;

            return r;
        }

        void commit_transmit_buffer( ll::read_buffer b )
        {
            if ( grants )
                --grants;

            const std::uint16_t header = layout::header( b );
            const std::size_t   len    = header >> 8;
            committed_pdu p{ header & 3u, {} };
            const std::uint8_t* body = b.buffer + 2 + OH;
            // the ring keeps 2 + OH + len bytes of this buffer; they have to be inside the allocation
            if ( 2 + OH + len > b.size )
            {
                std::fflush( stdout );
                std::fprintf( stderr, "VERIF-GUARD ERROR: committed PDU of length %zu in a buffer of %zu bytes\n", len, b.size );
                _exit( 78 );
            }
            p.body.assign( body, body + len );
            committed.push_back( p );

            base::commit_transmit_buffer( b );
        }

        unsigned callbacks = 0;
        void pdu_receive_data_callback( const ll::write_buffer& ) { ++callbacks; }

        // --- the central
        bool c_sn = false, c_nesn = false;
    };
}

namespace bluetoe { namespace link_layer {
    template <>
    struct pdu_layout_by_radio< mock_radio< 1 > > { using pdu_layout = gap_layout< 1 >; };
    template <>
    struct pdu_layout_by_radio< mock_radio< 2 > > { using pdu_layout = gap_layout< 2 >; };
} }

namespace {
    // access to the private members of the primary template; nothing for the MTU 23 specialisation
    template < class Sdu, std::size_t MTU >
    struct internals
    {
        static constexpr bool reassembles = true;
        static void attach( Sdu& s )
        {
            s.pending_size = &s.transmit_size_;
            verif_guard::arrays[ verif_guard::narrays++ ] = { s.receive_buffer_, s.receive_buffer_ + sizeof( s.receive_buffer_ ), "receive_buffer_" };
            verif_guard::arrays[ verif_guard::narrays++ ] = { s.transmit_buffer_, s.transmit_buffer_ + sizeof( s.transmit_buffer_ ), "transmit_buffer_" };
        }
        static bool is_sdu( const Sdu& s, const ll::write_buffer& b ) { return b.buffer == s.receive_buffer_; }
        static const char* invariant( const Sdu& s )
        {
            if ( s.receive_buffer_used_ + s.receive_size_ > sizeof( s.receive_buffer_ ) ) return "receive_buffer_used_ + receive_size_ > sizeof receive_buffer_";
            if ( s.transmit_buffer_used_ + s.transmit_size_ > sizeof( s.transmit_buffer_ ) ) return "transmit_buffer_used_ + transmit_size_ > sizeof transmit_buffer_";
            return nullptr;
        }
    };

    template < class Sdu >
    struct internals< Sdu, 23 >
    {
        static constexpr bool reassembles = false;
        static void attach( Sdu& ) {}
        static bool is_sdu( const Sdu&, const ll::write_buffer& ) { return false; }
        static const char* invariant( const Sdu& ) { return nullptr; }
    };

    template < std::size_t MTU, std::size_t OH >
    struct sdu_subject : verif::subject
    {
        using radio_t  = mock_radio< OH >;
        using sdu_t    = ll::ll_l2cap_sdu_buffer< radio_t, radio_t, MTU >;
        using layout   = typename radio_t::layout;
        using intern   = internals< sdu_t, MTU >;

        // exactly sized heap block
        void*  mem;
        sdu_t* s;
        bool   handed = false;

        sdu_subject()
        {
            mem = ::operator new( sizeof( sdu_t ) );
            verif_guard::narrays = 0;
            verif_guard::object  = { nullptr, nullptr, "object" };
            s = new ( mem ) sdu_t();
            std::uint8_t* o = static_cast< std::uint8_t* >( mem );
            verif_guard::object = { o, o + sizeof( sdu_t ), "ll_l2cap_sdu_buffer (outside its arrays)" };
            intern::attach( *s );
            verif_guard::arrays[ verif_guard::narrays++ ] = { s->transmit_buffer(), s->transmit_buffer() + tx_ring, "transmit ring" };
            verif_guard::arrays[ verif_guard::narrays++ ] = { s->receive_buffer(), s->receive_buffer() + rx_ring, "receive ring" };
        }

        ~sdu_subject()
        {
            // the main loop builds the next subject before it destroys this one
            if ( verif_guard::object.lo == static_cast< std::uint8_t* >( mem ) )
            {
                verif_guard::object = { nullptr, nullptr, "object" };
                verif_guard::narrays = 0;
            }
            s->~sdu_t();
            ::operator delete( mem );
        }

        std::string tx_suffix()
        {
            std::string r;
            if ( s->ring_refused ) r += " RINGFULL";
            if ( const char* broken = intern::invariant( *s ) )
            {
                std::fflush( stdout );
                std::fprintf( stderr, "VERIF-GUARD ERROR: %s\n", broken );
                _exit( 78 );
            }
            if ( !s->committed.empty() )
            {
                r += " ; tx";
                for ( const auto& p : s->committed )
                    r += " " + std::to_string( p.llid ) + ":" + verif::hex_of_bytes( p.body.data(), p.body.size() );
            }
            s->committed.clear();
            s->ring_refused = false;
            return r;
        }

        static std::string show( const char* kind, bool with_llid, unsigned llid, const std::uint8_t* b, const std::uint8_t* e )
        {
            std::string r = kind;
            if ( with_llid ) r += " " + std::to_string( llid );
            return r + " " + verif::hex_of_bytes( b, e - b );
        }

        // writes through the checking copy, like the upper layers would
        void fill( ll::read_buffer buf, unsigned llid, const std::vector< std::uint8_t >& body )
        {
            layout::header( buf, static_cast< std::uint16_t >( llid | ( ( body.size() & 0xff ) << 8 ) ) );
            std::verif_checked_copy( body.begin(), body.end(), layout::body( buf ).first );
        }

        std::string radio()
        {
            for ( int i = 0; i != 3; ++i )
            {
                const ll::write_buffer r = s->next_transmit();
                const std::uint16_t header = layout::header( r );
                const std::size_t   len    = header >> 8;
                if ( ( ( header >> 3 ) & 1 ) != ( s->c_nesn ? 1 : 0 ) )
                    return "SNERR";
                const std::vector< std::uint8_t > body( r.buffer + 2 + OH, r.buffer + 2 + OH + len );
                if ( 2 + OH + len > r.size )
                    return "SIZEERR";
                s->c_nesn = !s->c_nesn;

                // acknowledge with an empty PDU (a local buffer will do: empty PDUs are never stored)
                std::uint8_t ack[ 2 + OH + 1 ] = { 0 };
                layout::header( ack, static_cast< std::uint16_t >( 1u | ( s->c_nesn ? 4u : 0u ) | ( s->c_sn ? 8u : 0u ) ) );
                s->c_sn = !s->c_sn;
                s->received( ll::read_buffer{ ack, 2 + OH } );

                if ( len )
                    return show( "pdu", true, header & 3u, body.data(), body.data() + body.size() );
            }
            return "none";
        }

        std::string op( const std::vector< std::string >& w ) override
        {
            const std::string r = op_( w );
            return r + tx_suffix();
        }

        std::string op_( const std::vector< std::string >& w )
        {
            if ( w[ 0 ] == "rx" && w.size() == 3 )
            {
                const unsigned llid = std::stoul( w[ 1 ] ) & 3u;
                const auto body = verif::bytes_of_hex( w[ 2 ] );
                if ( body.size() + 2 > s->max_rx_size() ) return "toolong";
                const ll::read_buffer buf = s->allocate_receive_buffer();
                if ( buf.size == 0 ) return "RINGFULL";
                if ( buf.size < 2 + OH + body.size() ) return "SMALLBUF";
                std::memset( buf.buffer, 0, 2 + OH );
                layout::header( buf, static_cast< std::uint16_t >( llid | ( s->c_nesn ? 4u : 0u ) | ( s->c_sn ? 8u : 0u ) | ( body.size() << 8 ) ) );
                if ( !body.empty() ) std::memcpy( buf.buffer + 2 + OH, body.data(), body.size() );
                s->c_sn = !s->c_sn;
                s->received( buf );
                return ( llid != 0 && !body.empty() ) ? "ok" : "drop";
            }
            if ( w[ 0 ] == "next" && w.size() == 2 )
            {
                s->oracle( std::stoul( w[ 1 ] ), false, false );
                const ll::write_buffer b = s->next_ll_l2cap_received();
                s->oracle( 0, false, false );
                if ( b.size == 0 ) { handed = false; return "none"; }
                handed = true;
                if ( b.size < 2 + OH ) return "SIZEERR";
                const auto body = layout::body( b );
                if ( intern::is_sdu( *s, b ) )
                    return show( "sdu", false, 0, body.first, body.second );
                return show( "pdu", true, layout::header( b ) & 3u, body.first, body.second );
            }
            if ( w[ 0 ] == "free" )
            {
                if ( !handed ) return "nop";
                handed = false;
                s->free_ll_l2cap_received();
                return "ok";
            }
            if ( w[ 0 ] == "l2tx" && w.size() == 3 )
            {
                const unsigned g = std::stoul( w[ 1 ] );
                const auto body = verif::bytes_of_hex( w[ 2 ] );
                if ( body.size() < 4 || body.size() - 4 > MTU ) return "pre";
                if ( ( body[ 0 ] | ( body[ 1 ] << 8 ) ) + 4u != body.size() ) return "pre";
                s->oracle( g, g != 0, !intern::reassembles );
                const ll::read_buffer buf = s->allocate_l2cap_transmit_buffer( body.size() - 4 );
                std::string r = "busy";
                if ( buf.size != 0 )
                {
                    if ( buf.size != body.size() + 2 + OH ) return "BADSIZE";
                    fill( buf, 2, body );
                    s->commit_l2cap_transmit_buffer( buf );
                    r = "ok";
                }
                s->oracle( 0, false, false );
                return r;
            }
            if ( w[ 0 ] == "lltx" && w.size() == 4 )
            {
                const unsigned g = std::stoul( w[ 1 ] );
                const bool     a = std::stoul( w[ 2 ] ) != 0;
                const auto body = verif::bytes_of_hex( w[ 3 ] );
                if ( body.empty() || body.size() > 27 ) return "pre";
                s->oracle( g, a, !intern::reassembles );
                const ll::read_buffer buf = s->allocate_ll_transmit_buffer( body.size() );
                std::string r = "full";
                if ( buf.size != 0 )
                {
                    if ( buf.size != body.size() + 2 + OH ) return "BADSIZE";
                    fill( buf, 3, body );
                    s->commit_ll_transmit_buffer( buf );
                    r = "ok";
                }
                s->oracle( 0, false, false );
                return r;
            }
            if ( w[ 0 ] == "radio" ) return radio();
            if ( ( w[ 0 ] == "maxtx" || w[ 0 ] == "maxrx" ) && w.size() == 2 )
            {
                const std::size_t n = std::stoul( w[ 1 ] );
                if ( n < 29 || n > 251 ) return "pre";
                if ( w[ 0 ] == "maxtx" ) s->max_tx_size( n ); else s->max_rx_size( n );
                return "ok";
            }
            return "BADOP";
        }
    };

    std::map< std::string, verif::factory > registry;

    template < std::size_t MTU, std::size_t OH >
    void reg( const char* name )
    {
        registry[ name ] = []( const std::vector< std::string >& ) { return std::unique_ptr< verif::subject >( new sdu_subject< MTU, OH >() ); };
    }
}

int main()
{
#define CFG( mtu, oh ) reg< mtu, oh >( #mtu "," #oh );
#include "sdubuf_configs.inc"
    return verif::main_loop( []( const std::vector< std::string >& cfg ) -> std::unique_ptr< verif::subject > {
        if ( cfg.size() < 2 ) return nullptr;
        auto f = registry.find( cfg[ 0 ] + "," + cfg[ 1 ] );
        return f == registry.end() ? nullptr : f->second( cfg );
    } );
}
