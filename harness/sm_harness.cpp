// Correspondence harness for the security managers (C32..C35): the real
//   bluetoe::legacy_security_manager / lesc_security_manager / security_manager / no_security_manager
// implementations (bluetoe/sm/include/bluetoe/security_manager.hpp) with their real per-connection
// data, instantiated over the TOY tool box (toy_crypto.hpp) and driven the way l2cap.hpp /
// link_layer.hpp drive them: l2cap_input, l2cap_output polls, find_key, encryption changes, a new
// connection (connection_data_ = connection_data_t(); remote_connection_created()).
//
// build/<id>/<key>.d/sm_configs.inc (written by the runner) lists the compiled configurations:
//      CFG( variant, input, output, oob, bond )
//
//   CASE <name> <property> <variant> <input> <output> <oob0|oob1> <bond0|bond1> <sy|sn|as>
//   in <hex>          l2cap_input                      -> <hex|-> [disp=<n>] [yn] [bond=<key>:<rand>:<ediv>]
//   out               l2cap_output poll                -> same
//   yes | no          answer the stored yes/no object  -> - | nopending            (assert -> FAULT)
//   passkey <n>       the user types n                 -> -
//   enc <0|1>         encryption changed               -> -
//   key <ediv> <rand> find_key                         -> <hex> | none
//   status            local / link pairing status      -> <local> <link>   (none | unauth | auth | authsc)
//   reset <a>         new connection from peer a       -> -
//   bond <a> <ediv> <rand> <kb>  pre-load the bond data base (peer a, key kb x 16; ediv < 2^16) -> -
#include "verif_common.hpp"
#include <type_traits>
#include <utility>
#include <cassert>
#include <cstddef>
#include <initializer_list>
#include <limits>
#include <iosfwd>
#include <ostream>
#include <numeric>
#include <climits>
#include <bluetoe/link_state.hpp>
#include <bluetoe/address.hpp>
#include <bluetoe/security_manager.hpp>
#include <bluetoe/utility/address.cpp>      // the only non-header code needed (device_address)
#include "toy_crypto.hpp"

namespace {
    using bluetoe::details::uint128_t;

    std::vector< std::string > events;      // callbacks made during the current operation, in order

    // the application: IO handlers and OOB data
    struct app_t {
        bluetoe::pairing_yes_no_response* pending;
        int                               yn_mode;      // 0 answer yes at once, 1 answer no at once, 2 keep the response object
        std::uint32_t                     passkey;

        void sm_pairing_numeric_output( int v ) { events.push_back( "disp=" + std::to_string( static_cast< unsigned >( v ) ) ); }
        void sm_pairing_yes_no( bluetoe::pairing_yes_no_response& r )
        {
            events.push_back( "yn" );
            if ( yn_mode == 0 ) r.yes_no_response( true );
            else if ( yn_mode == 1 ) r.yes_no_response( false );
            else pending = &r;
        }
        int sm_pairing_passkey() { return static_cast< int >( passkey ); }
        std::pair< bool, bluetoe::oob_authentication_data_t > sm_oob_authentication_data( const bluetoe::link_layer::device_address& a )
        {
            // OOB data exists for peers with an even first address byte
            if ( ( *a.begin() & 1 ) == 0 ) return { true, toy::oob_data() };
            return { false, bluetoe::oob_authentication_data_t{{ 0 }} };
        }
    } app;

    // the small concrete bond data base: (address, key, rand, ediv), newest first
    struct db_t {
        struct entry { bluetoe::link_layer::device_address mac; bluetoe::details::longterm_key_t key; };
        std::vector< entry > entries;

        template < class Radio >
        bluetoe::details::longterm_key_t create_new_bond( Radio& radio, const bluetoe::link_layer::device_address& mac )
        {
            const toy::bytes c = toy::ctr_bytes( radio.next_ctr() );
            bluetoe::details::longterm_key_t k;
            k.longterm_key = toy::X( 20, toy::cat()( c )( mac ).b );
            k.rand = toy::h( 22, c );
            k.ediv = static_cast< std::uint16_t >( toy::h( 21, c ) % 65536u );
            return k;
        }
        template < class Connection >
        void store_bond( const bluetoe::details::longterm_key_t& key, const Connection& connection )
        {
            events.push_back( "bond=" + verif::hex_of_bytes( key.longterm_key.data(), 16 ) + ":" + std::to_string( key.rand ) + ":" + std::to_string( key.ediv ) );
            entries.insert( entries.begin(), entry{ connection.remote_address(), key } );
        }
        std::pair< bool, uint128_t > find_key( std::uint16_t ediv, std::uint64_t rand, const bluetoe::link_layer::device_address& mac ) const
        {
            for ( const auto& e : entries )
                if ( e.mac == mac && e.mac.is_random() == mac.is_random() && e.key.rand == rand && e.key.ediv == ediv )
                    return { true, e.key.longterm_key };
            return { false, uint128_t{{ 0 }} };
        }
        template < class Connection >
        void restore_cccds( Connection& ) {}
    } db;

    // option vocabulary of the CFG lines
    using legacy   = bluetoe::legacy_security_manager;
    using lesc     = bluetoe::lesc_security_manager;
    using both     = bluetoe::security_manager;
    using none     = bluetoe::no_security_manager;
    using in_none  = bluetoe::pairing_no_input;
    using in_yesno = bluetoe::pairing_yes_no< app_t, app >;
    using in_keyb  = bluetoe::pairing_keyboard< app_t, app >;
    using out_none = bluetoe::pairing_no_output;
    using out_num  = bluetoe::pairing_numeric_output< app_t, app >;
    struct oob0 { struct meta_type {}; };       // options nobody looks for
    struct bond0 { struct meta_type {}; };
    using oob1  = bluetoe::oob_authentication_callback< app_t, app >;
    using bond1 = bluetoe::bonding_data_base< db_t, db >;

    const char* status_name( bluetoe::device_pairing_status s )
    {
        switch ( s )
        {
            case bluetoe::device_pairing_status::no_key:                return "none";
            case bluetoe::device_pairing_status::unauthenticated_key:   return "unauth";
            case bluetoe::device_pairing_status::authenticated_key:     return "auth";
            case bluetoe::device_pairing_status::authenticated_key_with_secure_connection: return "authsc";
        }
        return "?";
    }

    bluetoe::link_layer::device_address peer_address( unsigned a )
    {
        return bluetoe::link_layer::random_device_address( { std::uint8_t( a & 0xff ), 161, 162, 163, 164, 165 } );
    }

    // no_security_manager's connection data has no find_key
    template < class Con >
    auto find_key_of( const Con& c, std::uint16_t ediv, std::uint64_t rand, int ) -> decltype( c.find_key( ediv, rand ) )
    {
        return c.find_key( ediv, rand );
    }
    template < class Con >
    std::pair< bool, uint128_t > find_key_of( const Con&, std::uint16_t, std::uint64_t, long )
    {
        return { false, uint128_t{{ 0 }} };
    }
    template < class Con >
    auto restore_of( Con& c, int ) -> decltype( c.restore_bonded_cccds( c ) ) { return c.restore_bonded_cccds( c ); }
    template < class Con >
    void restore_of( Con&, long ) {}

    template < class Manager, class In, class Out, class Oob, class Bond >
    struct sm_subject : verif::subject,
        Manager::template impl< sm_subject< Manager, In, Out, Oob, Bond >, In, Out, Oob, Bond >,
        toy::tool_box
    {
        using manager_t    = typename Manager::template impl< sm_subject< Manager, In, Out, Oob, Bond >, In, Out, Oob, Bond >;
        using connection_t = typename manager_t::template channel_data_t< bluetoe::details::link_state >;
        static constexpr std::size_t mtu = manager_t::maximum_channel_mtu_size == 0 ? 23 : manager_t::maximum_channel_mtu_size;

        connection_t* con;

        explicit sm_subject( int yn_mode ) : con( new connection_t() )
        {
            events.clear();
            app.pending = nullptr; app.yn_mode = yn_mode; app.passkey = 0;
            db.entries.clear();
            con->remote_connection_created( peer_address( 0 ) );
        }
        ~sm_subject() { delete con; }

        static std::string result( const std::uint8_t* p, std::size_t n )
        {
            std::string r = verif::hex_of_bytes( p, n );
            for ( const auto& e : events ) r += " " + e;
            return r;
        }

        std::string op( const std::vector< std::string >& w ) override
        {
            events.clear();
            if ( w[ 0 ] == "in" )
            {
                verif::heap_bytes in( verif::bytes_of_hex( w.at( 1 ) ) ); verif::heap_bytes out( mtu );
                std::size_t out_size = mtu;
                this->l2cap_input( in.p, in.size, out.p, out_size, *con );
                if ( out_size > mtu ) return "OVERFLOW " + std::to_string( out_size );
                return result( out.p, out_size );
            }
            if ( w[ 0 ] == "out" )
            {
                verif::heap_bytes out( mtu ); std::size_t out_size = mtu;
                this->l2cap_output( out.p, out_size, *con );
                if ( out_size > mtu ) return "OVERFLOW " + std::to_string( out_size );
                return result( out.p, out_size );
            }
            if ( w[ 0 ] == "yes" || w[ 0 ] == "no" )
            {
                if ( !app.pending ) return "nopending";
                bluetoe::pairing_yes_no_response* r = app.pending; app.pending = nullptr;
                r->yes_no_response( w[ 0 ] == "yes" );
                return "-";
            }
            if ( w[ 0 ] == "passkey" ) { app.passkey = static_cast< std::uint32_t >( std::stoull( w.at( 1 ) ) ); return "-"; }
            if ( w[ 0 ] == "enc" )
            {
                // link_layer.hpp handle_encryption_pdus
                const bool on = w.at( 1 ) == "1";
                const bool changed = con->is_encrypted( on );
                if ( changed && on ) restore_of( *con, 0 );
                if ( changed ) con->pairing_status( con->local_device_pairing_status() );
                return "-";
            }
            if ( w[ 0 ] == "key" )
            {
                const auto k = find_key_of( *con, static_cast< std::uint16_t >( std::stoul( w.at( 1 ) ) ), std::stoull( w.at( 2 ) ), 0 );
                return k.first ? verif::hex_of_bytes( k.second.data(), 16 ) : std::string( "none" );
            }
            if ( w[ 0 ] == "status" )
                return std::string( status_name( con->local_device_pairing_status() ) ) + " " + status_name( con->pairing_status() );
            if ( w[ 0 ] == "reset" )
            {
                // link_layer.hpp: connection_data_ = connection_data_t(); connection_data_.remote_connection_created( remote_address );
                *con = connection_t();
                con->remote_connection_created( peer_address( std::stoul( w.at( 1 ) ) ) );
                return "-";
            }
            if ( w[ 0 ] == "bond" )
            {
                // the application's bond data base already holds a bond: peer a, ( ediv, rand ), key kb x 16
                bluetoe::details::longterm_key_t k;
                k.longterm_key.fill( static_cast< std::uint8_t >( std::stoul( w.at( 4 ) ) & 0xff ) );
                k.ediv = static_cast< std::uint16_t >( std::stoul( w.at( 2 ) ) );
                k.rand = std::stoull( w.at( 3 ) );
                db.entries.insert( db.entries.begin(), db_t::entry{ peer_address( std::stoul( w.at( 1 ) ) ), k } );
                return "-";
            }
            return "BADOP";
        }
    };

    template < class T > struct tag { using type = T; };
    template < class T > const char* name_of();
    #define NAME( t, n ) template <> const char* name_of< t >() { return n; }
    NAME( legacy, "legacy" ) NAME( lesc, "lesc" ) NAME( both, "both" ) NAME( none, "none" )
    NAME( in_none, "none" ) NAME( in_yesno, "yesno" ) NAME( in_keyb, "keyboard" )
    NAME( out_none, "none" ) NAME( out_num, "display" )
    NAME( oob0, "oob0" ) NAME( oob1, "oob1" ) NAME( bond0, "bond0" ) NAME( bond1, "bond1" )
    #undef NAME

    struct entry { std::string key; std::function< std::unique_ptr< verif::subject >( int ) > make; };

    template < class M, class I, class O, class B, class D >
    entry make_entry()
    {
        return entry{
            std::string( name_of< M >() ) + " " + name_of< I >() + " " + name_of< O >() + " " + name_of< B >() + " " + name_of< D >(),
            []( int yn ) { return std::unique_ptr< verif::subject >( new sm_subject< M, I, O, B, D >( yn ) ); } };
    }

    const std::vector< entry >& registry()
    {
        static const std::vector< entry > r = {
            #define CFG( m, i, o, b, d ) make_entry< m, i, o, b, d >(),
            #include "sm_configs.inc"
            #undef CFG
        };
        return r;
    }
}

int main()
{
    return verif::main_loop( []( const std::vector< std::string >& cfg ) -> std::unique_ptr< verif::subject > {
        // cfg: <property> <variant> <input> <output> <oob> <bond> <yn>
        if ( cfg.size() < 7 ) return nullptr;
        const std::string key = cfg[ 1 ] + " " + cfg[ 2 ] + " " + cfg[ 3 ] + " " + cfg[ 4 ] + " " + cfg[ 5 ];
        const int yn = cfg[ 6 ] == "sy" ? 0 : cfg[ 6 ] == "sn" ? 1 : 2;
        for ( const auto& e : registry() )
            if ( e.key == key ) return e.make( yn );
        return nullptr;
    } );
}
