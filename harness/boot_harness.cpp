// Correspondence harness for the bootloader service (C39): the real
// bluetoe::server< bluetoe::bootloader_service< page_size<P>, handler<H>, white_list<...> > > driven
// through l2cap_input / l2cap_output with one connection (all three CCCDs subscribed), the
// notification callback queueing into the connection's real notification_queue.
// The user handler H logs every call the library makes (with address ranges, contents and
// results) into the result line of the operation; its memory is a sparse map over a fixed pattern.
//
//   cfg words: <page size, decimal> <regions: hexstart-hexend,... | none>      (registry: boot_configs.inc)
//   ops:  cp <hex> | cpc <hex>      Write Request / Write Command to the control point
//         data <hex> | datac <hex>  Write Request / Write Command to the data characteristic
//         endflash                  handler reports the end of a flash operation (bootloader::end_flash);
//                                   ignored unless a start_flash() call is still unanswered
//         run                       application main loop: performs the requested call backs
//                                   (bootloader_control_point_notification / bootloader_data_indication)
//         out                       link layer polls l2cap_output with a 23 byte buffer
//         hvc                       Handle Value Confirmation
//         err <0|1>                 public_read_mem reports success / not_authorized from now on
//         rd cp|data|prog           Read Request on a characteristic value
//   result: <status> <call>*   status: ok | err <n> | - | ntf cp <hex> | ind data <hex> | ntf prog <hex> | resp <hex>
//   calls:  cs:<addr>=<r>  ck:<hexbytes>:<old>=<r>  rm:<addr>:<hexbytes>  sf:<addr>:<hexbytes>
//           pr:<addr>:<size>:<0|1>  pc:<addr>:<size>=<r>  go:<addr>  reset  ver  cpcb  dicb
#include "verif_common.hpp"
#include <bluetoe/services/bootloader.hpp>
#include <bluetoe/server.hpp>
#include <new>

namespace {
    std::vector< std::string > g_log;

    std::string hexn( std::uint64_t v ) { char b[ 32 ]; std::snprintf( b, sizeof b, "%llx", static_cast< unsigned long long >( v ) ); return b; }

    // the toy check sum shared with coq/Boot/BootModel.v (toy_upd, toy_addr, toy_pub)
    inline std::uint32_t toy_upd( std::uint32_t crc, std::uint8_t b ) { return static_cast< std::uint32_t >( crc * 31u + b + 7u ); }
    inline std::uint8_t  mem0( std::uintptr_t a ) { return static_cast< std::uint8_t >( a * 7u + ( a >> 8 ) ); }

    class boot_handler
    {
    public:
        boot_handler() : read_error_( false ), cp_requested_( false ), data_requested_( false ), flashing_( 0 ) {}

        std::uint8_t peek( std::uintptr_t a ) const
        {
            const auto p = memory_.find( a );
            return p == memory_.end() ? mem0( a ) : p->second;
        }

        std::pair< const std::uint8_t*, std::size_t > get_version()
        {
            static const std::uint8_t version[] = { 0x47, 0x11 };
            g_log.push_back( "ver" );
            return std::pair< const std::uint8_t*, std::size_t >( version, sizeof( version ) );
        }

        void read_mem( std::uintptr_t address, std::size_t size, std::uint8_t* destination )
        {
            std::vector< std::uint8_t > v;
            for ( std::size_t i = 0; i != size; ++i ) { v.push_back( peek( address + i ) ); destination[ i ] = v.back(); }
            g_log.push_back( "rm:" + hexn( address ) + ":" + verif::hex_of_bytes( v.data(), v.size() ) );
        }

        std::uint32_t checksum32( std::uintptr_t start_addr, std::size_t size )
        {
            g_log.push_back( "cr:" + hexn( start_addr ) + ":" + hexn( size ) );
            return 0;
        }

        std::uint32_t checksum32( const std::uint8_t* start_addr, std::size_t size, std::uint32_t old_crc )
        {
            std::uint32_t r = old_crc;
            for ( std::size_t i = 0; i != size; ++i ) r = toy_upd( r, start_addr[ i ] );
            g_log.push_back( "ck:" + verif::hex_of_bytes( start_addr, size ) + ":" + hexn( old_crc ) + "=" + hexn( r ) );
            return r;
        }

        std::uint32_t checksum32( std::uintptr_t start_addr )
        {
            std::uint32_t r = 0xffff;
            std::uintptr_t a = start_addr;
            for ( std::size_t i = 0; i != sizeof( std::uint8_t* ); ++i, a >>= 8 ) r = toy_upd( r, a & 0xff );
            g_log.push_back( "cs:" + hexn( start_addr ) + "=" + hexn( r ) );
            return r;
        }

        bluetoe::bootloader::error_codes public_read_mem( std::uintptr_t address, std::size_t size, std::uint8_t* destination )
        {
            g_log.push_back( "pr:" + hexn( address ) + ":" + hexn( size ) + ":" + ( read_error_ ? "1" : "0" ) );
            if ( read_error_ )
                return bluetoe::bootloader::error_codes::not_authorized;
            for ( std::size_t i = 0; i != size; ++i ) destination[ i ] = peek( address + i );
            return bluetoe::bootloader::error_codes::success;
        }

        std::uint32_t public_checksum32( std::uintptr_t start_addr, std::size_t size )
        {
            std::uint32_t r = 0;
            // the same cap as the model's toy oracle: a request the white list check should have refused is not executed
            if ( size <= 0x10000 )
                for ( std::size_t i = 0; i != size; ++i ) r = toy_upd( r, peek( start_addr + i ) );
            g_log.push_back( "pc:" + hexn( start_addr ) + ":" + hexn( size ) + "=" + hexn( r ) );
            return r;
        }

        bluetoe::bootloader::error_codes start_flash( std::uintptr_t address, const std::uint8_t* values, std::size_t size )
        {
            g_log.push_back( "sf:" + hexn( address ) + ":" + verif::hex_of_bytes( values, size ) );
            for ( std::size_t i = 0; i != size; ++i ) memory_[ address + i ] = values[ i ];
            ++flashing_;
            return bluetoe::bootloader::error_codes::success;
        }

        bluetoe::bootloader::error_codes run( std::uintptr_t start_addr )
        {
            g_log.push_back( "go:" + hexn( start_addr ) );
            return bluetoe::bootloader::error_codes::success;
        }

        bluetoe::bootloader::error_codes reset()
        {
            g_log.push_back( "reset" );
            return bluetoe::bootloader::error_codes::success;
        }

        void control_point_notification_call_back() { g_log.push_back( "cpcb" ); cp_requested_ = true; }
        void data_indication_call_back()            { g_log.push_back( "dicb" ); data_requested_ = true; }

        std::map< std::uintptr_t, std::uint8_t > memory_;
        bool read_error_, cp_requested_, data_requested_;
        unsigned flashing_;     // start_flash() calls not yet answered by end_flash()
    };

    std::string with_log( std::string status )
    {
        for ( const auto& c : g_log ) status += " " + c;
        g_log.clear();
        return status;
    }

    template < std::size_t Page, class WhiteList >
    struct boot_subject : verif::subject
    {
        using Server = bluetoe::server<
            bluetoe::bootloader_service< bluetoe::bootloader::page_size< Page >, bluetoe::bootloader::handler< boot_handler >, WhiteList >,
            bluetoe::no_gap_service_for_gatt_servers >;
        using connection_t = typename Server::template channel_data_t< bluetoe::details::link_state >;

        static constexpr std::uint16_t cp_handle = 3, cp_cccd = 4, data_handle = 6, data_cccd = 7, prog_handle = 9, prog_cccd = 10;

        // zero-filled storage: flash_buffer::crc_ / consecutive_ / addr_ and controller::error are not
        // initialised by their constructors (a progress report before the first page would carry them)
        void*           mem;
        Server*         srv;
        connection_t*   con;

        boot_subject() : mem( std::calloc( 1, sizeof( Server ) ) ), srv( new ( mem ) Server() ), con( new connection_t() )
        {
            srv->notification_callback( &cb, this );
            // fixed handle layout of a server with this single service: checked by subscribing
            subscribe( cp_cccd, 1 ); subscribe( data_cccd, 2 ); subscribe( prog_cccd, 1 );
            g_log.clear();
        }
        ~boot_subject() { srv->~Server(); std::free( mem ); delete con; }

        void subscribe( std::uint16_t h, std::uint8_t v )
        {
            const auto r = request( { 0x12, std::uint8_t( h & 0xff ), std::uint8_t( h >> 8 ), v, 0 } );
            if ( r.size() != 1 || r[ 0 ] != 0x13 ) { verif::emit( "BADHANDLES" ); std::exit( 3 ); }
        }

        static bool cb( const bluetoe::details::notification_data& item, void* that, bluetoe::details::notification_type type )
        {
            auto& c = *static_cast< boot_subject* >( that )->con;
            switch ( type )
            {
                case bluetoe::details::notification_type::notification: return c.queue_notification( item.client_characteristic_configuration_index() );
                case bluetoe::details::notification_type::indication:   return c.queue_indication( item.client_characteristic_configuration_index() );
                case bluetoe::details::notification_type::confirmation: c.indication_confirmed(); return true;
            }
            return true;
        }

        std::vector< std::uint8_t > request( const std::vector< std::uint8_t >& pdu, std::size_t out_cap = 23 )
        {
            verif::heap_bytes in( pdu ); verif::heap_bytes out( out_cap );
            std::size_t out_size = out_cap;
            srv->l2cap_input( in.p, in.size, out.p, out_size, *con );
            return std::vector< std::uint8_t >( out.p, out.p + out_size );
        }

        static std::string status( const std::vector< std::uint8_t >& r, std::uint8_t ok_opcode )
        {
            if ( r.size() == 1 && r[ 0 ] == ok_opcode ) return "ok";
            if ( r.size() == 5 && r[ 0 ] == 0x01 ) return "err " + std::to_string( r[ 4 ] );
            if ( r.empty() ) return "-";
            return "resp " + verif::hex_of_bytes( r.data(), r.size() );
        }

        std::string op( const std::vector< std::string >& w ) override
        {
            g_log.clear();
            boot_handler& h = static_cast< boot_handler& >( *srv );
            if ( w[ 0 ] == "cp" || w[ 0 ] == "cpc" || w[ 0 ] == "data" || w[ 0 ] == "datac" )
            {
                const bool cmd = w[ 0 ].back() == 'c' && w[ 0 ] != "cp";
                const std::uint16_t handle = w[ 0 ][ 0 ] == 'c' ? cp_handle : data_handle;
                std::vector< std::uint8_t > pdu = { std::uint8_t( cmd ? 0x52 : 0x12 ), std::uint8_t( handle & 0xff ), std::uint8_t( handle >> 8 ) };
                const auto v = verif::bytes_of_hex( w.at( 1 ) );
                pdu.insert( pdu.end(), v.begin(), v.end() );
                return with_log( status( request( pdu ), 0x13 ) );
            }
            if ( w[ 0 ] == "rd" )
            {
                const std::uint16_t handle = w.at( 1 ) == "cp" ? cp_handle : w[ 1 ] == "data" ? data_handle : prog_handle;
                const auto r = request( { 0x0a, std::uint8_t( handle & 0xff ), std::uint8_t( handle >> 8 ) } );
                if ( r.size() >= 1 && r[ 0 ] == 0x0b ) return with_log( "val " + verif::hex_of_bytes( r.data() + 1, r.size() - 1 ) );
                return with_log( status( r, 0x0b ) );
            }
            if ( w[ 0 ] == "endflash" )
            {
                // the handler reports the end of a flash operation exactly once per start_flash()
                if ( h.flashing_ ) { --h.flashing_; bluetoe::bootloader::end_flash( *srv ); }
                return with_log( "-" );
            }
            if ( w[ 0 ] == "run" )
            {
                if ( h.cp_requested_ )   { h.cp_requested_ = false;   srv->bootloader_control_point_notification( *srv ); }
                if ( h.data_requested_ ) { h.data_requested_ = false; srv->bootloader_data_indication( *srv ); }
                return with_log( "-" );
            }
            if ( w[ 0 ] == "out" )
            {
                const std::size_t cap = 23;
                verif::heap_bytes out( cap ); std::size_t out_size = cap;
                srv->l2cap_output( out.p, out_size, *con );
                if ( out_size > cap ) return with_log( "OVERFLOW " + std::to_string( out_size ) );
                if ( out_size >= 3 )
                {
                    const std::uint16_t hd = out.p[ 1 ] | ( out.p[ 2 ] << 8 );
                    const char* name = hd == cp_handle ? "cp" : hd == data_handle ? "data" : hd == prog_handle ? "prog" : "other";
                    return with_log( std::string( out.p[ 0 ] == 0x1d ? "ind " : out.p[ 0 ] == 0x1b ? "ntf " : "pdu " ) + name + " " + verif::hex_of_bytes( out.p + 3, out_size - 3 ) );
                }
                return with_log( out_size == 0 ? "-" : "resp " + verif::hex_of_bytes( out.p, out_size ) );
            }
            if ( w[ 0 ] == "hvc" ) return with_log( status( request( { 0x1e } ), 0xff ) );
            if ( w[ 0 ] == "err" ) { h.read_error_ = w.at( 1 ) != "0"; return "-"; }
            return "BADOP";
        }
    };

    template < std::size_t Page, class WhiteList >
    std::unique_ptr< verif::subject > make() { return std::unique_ptr< verif::subject >( new boot_subject< Page, WhiteList >() ); }
}

#define R( a, b ) bluetoe::bootloader::memory_region< 0x##a##ul, 0x##b##ul >
#define CFG( KEY, PAGE, ... ) if ( key == KEY ) return make< PAGE, bluetoe::bootloader::white_list< __VA_ARGS__ > >();
#define CFG_NONE( KEY, PAGE ) if ( key == KEY ) return make< PAGE, bluetoe::bootloader::white_list<> >();

int main()
{
    return verif::main_loop( []( const std::vector< std::string >& cfg ) -> std::unique_ptr< verif::subject > {
        const std::string key = cfg.at( 0 ) + " " + cfg.at( 1 );
#include "boot_configs.inc"
        return nullptr;
    } );
}
