// C09 harness: harness/attsrv_harness.cpp (included unchanged) + the server wide subscription callback
// bluetoe::client_characteristic_configuration_update_callback< verif::cccd_cb_t, verif::cccd_cb >, which
// props/C09.py adds to every generated server<> declaration. One more operation:
//   cbs      number of invocations of client_characteristic_configuration_updated since the last `cbs`   -> decimal
#include "verif_common.hpp"

namespace verif {
    struct cccd_cb_t {
        unsigned count;

        template < class Server, class Config >
        void client_characteristic_configuration_updated( Server&, const Config& ) { ++count; }
    };

    cccd_cb_t cccd_cb = { 0 };
}

#define main verif_attsrv_shared_main
#include "attsrv_harness.cpp"
#undef main

namespace verif {
    struct cb_subject : subject
    {
        std::unique_ptr< subject > inner;

        explicit cb_subject( std::unique_ptr< subject > i ) : inner( std::move( i ) ) { cccd_cb.count = 0; }

        std::string op( const std::vector< std::string >& w ) override
        {
            if ( w[ 0 ] == "cbs" )
            {
                const unsigned n = cccd_cb.count;
                cccd_cb.count = 0;
                return std::to_string( n );
            }
            return inner->op( w );
        }
    };
}

int main()
{
    return verif::main_loop( []( const std::vector< std::string >& cfg ) -> std::unique_ptr< verif::subject > {
        auto f = verif::registry().find( cfg.at( 0 ) );
        if ( f == verif::registry().end() ) return nullptr;
        return std::unique_ptr< verif::subject >( new verif::cb_subject( f->second( cfg ) ) );
    } );
}
