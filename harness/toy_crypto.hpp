// The TOY security tool box: cheap deterministic mixing functions with exactly the member functions the
// security managers require from their SecurityFunctions template argument (compare
// /repo/tests/security_manager/test_sm.hpp and the nrf52 security_tool_box). Defined identically in
// coq/SM/ToyCrypto.v and props/sm_common.py. No cryptographic strength - the security manager is
// parametric in this class, which is what makes the substitution sound.
//
//   h(tag, bytes) = fold (acc * 257 + b + 1) mod 4294967291, starting at tag
//   x16(v)[i]     = (((v + 1) * (2654435761 + 81006 i)) >> 24) & 0xff
//   X(tag, bytes) = x16(h(tag, bytes))
#ifndef VERIF_TOY_CRYPTO_HPP
#define VERIF_TOY_CRYPTO_HPP
#include <vector>
#include <array>
#include <cstdint>
#include <utility>
#include <bluetoe/address.hpp>
#include <bluetoe/security_connection_data.hpp>

namespace toy {
    using bytes = std::vector< std::uint8_t >;
    using bluetoe::details::uint128_t;

    inline std::uint64_t h( std::uint64_t tag, const bytes& b )
    {
        std::uint64_t acc = tag;
        for ( std::uint8_t x : b ) acc = ( acc * 257u + x + 1u ) % 4294967291ull;
        return acc;
    }
    inline uint128_t x16( std::uint64_t v )
    {
        uint128_t r;
        for ( std::uint64_t i = 0; i != 16; ++i )
            r[ i ] = static_cast< std::uint8_t >( ( ( ( v + 1u ) * ( 2654435761ull + 81006ull * i ) ) >> 24 ) & 0xff );
        return r;
    }
    inline uint128_t X( std::uint64_t tag, const bytes& b ) { return x16( h( tag, b ) ); }

    struct cat {
        bytes b;
        cat& operator()( const std::uint8_t* p, std::size_t n ) { b.insert( b.end(), p, p + n ); return *this; }
        template < std::size_t N > cat& operator()( const std::array< std::uint8_t, N >& a ) { b.insert( b.end(), a.begin(), a.end() ); return *this; }
        cat& operator()( const bytes& a ) { b.insert( b.end(), a.begin(), a.end() ); return *this; }
        cat& operator()( std::uint8_t v ) { b.push_back( v ); return *this; }
        cat& operator()( const bluetoe::link_layer::device_address& a )
        {
            b.push_back( a.is_random() ? 1 : 0 );
            b.insert( b.end(), a.begin(), a.end() );
            return *this;
        }
    };
    inline bytes ctr_bytes( std::uint64_t n ) { return bytes{ std::uint8_t( n & 0xff ), std::uint8_t( ( n >> 8 ) & 0xff ) }; }
    inline std::uint8_t checksum( const std::uint8_t* p63 )
    {
        unsigned s = 0; for ( int i = 0; i != 63; ++i ) s += p63[ i ];
        return static_cast< std::uint8_t >( ( s & 0xff ) ^ 165 );
    }
    inline bluetoe::details::ecdh_shared_secret_t dh( const std::uint8_t* x1, const std::uint8_t* x2 )
    {
        bytes d( 32 ); for ( int i = 0; i != 32; ++i ) d[ i ] = x1[ i ] ^ x2[ i ];
        const auto a = X( 8, d ), b = X( 9, d );
        bluetoe::details::ecdh_shared_secret_t r;
        std::copy( a.begin(), a.end(), r.begin() ); std::copy( b.begin(), b.end(), r.begin() + 16 );
        return r;
    }
    inline uint128_t oob_data() { return X( 17, bytes{ 79, 79, 66 } ); }

    class tool_box
    {
    public:
        tool_box() : ctr_( 0 ) {}

        bluetoe::link_layer::device_address local_address() const
        {
            return bluetoe::link_layer::public_device_address( { 177, 178, 179, 180, 181, 182 } );
        }

        std::uint64_t next_ctr() { return ctr_++; }      // every random source advances the call counter

        // legacy
        uint128_t create_srand() { return X( 10, ctr_bytes( next_ctr() ) ); }
        uint128_t create_passkey()
        {
            const std::uint32_t v = static_cast< std::uint32_t >( h( 16, ctr_bytes( next_ctr() ) ) % 1000000u );
            uint128_t r = {{ 0 }};
            r[ 0 ] = v & 0xff; r[ 1 ] = ( v >> 8 ) & 0xff; r[ 2 ] = ( v >> 16 ) & 0xff; r[ 3 ] = ( v >> 24 ) & 0xff;
            return r;
        }
        uint128_t c1( const uint128_t& temp_key, const uint128_t& rand, const uint128_t& p1, const uint128_t& p2 ) const
        {
            return X( 1, cat()( temp_key )( rand )( p1 )( p2 ).b );
        }
        uint128_t s1( const uint128_t& temp_key, const uint128_t& srand, const uint128_t& mrand )
        {
            return X( 2, cat()( temp_key )( srand )( mrand ).b );
        }

        // LESC
        bool is_valid_public_key( const std::uint8_t* public_key ) const
        {
            return public_key[ 63 ] == checksum( public_key );
        }
        std::pair< bluetoe::details::ecdh_public_key_t, bluetoe::details::ecdh_private_key_t > generate_keys()
        {
            const bytes c = ctr_bytes( next_ctr() );
            bluetoe::details::ecdh_private_key_t sk;
            bluetoe::details::ecdh_public_key_t  pk;
            const auto s0 = X( 12, c ), s1_ = X( 13, c ), y0 = X( 14, c ), y1 = X( 15, c );
            std::copy( s0.begin(), s0.end(), sk.begin() ); std::copy( s1_.begin(), s1_.end(), sk.begin() + 16 );
            for ( int i = 0; i != 32; ++i ) pk[ i ] = sk[ i ] ^ 90;
            std::copy( y0.begin(), y0.end(), pk.begin() + 32 ); std::copy( y1.begin(), y1.begin() + 15, pk.begin() + 48 );
            pk[ 63 ] = checksum( pk.data() );
            return { pk, sk };
        }
        uint128_t select_random_nonce() { return X( 11, ctr_bytes( next_ctr() ) ); }
        bluetoe::details::ecdh_shared_secret_t p256( const std::uint8_t* private_key, const std::uint8_t* public_key )
        {
            std::uint8_t x[ 32 ]; for ( int i = 0; i != 32; ++i ) x[ i ] = private_key[ i ] ^ 90;
            return dh( x, public_key );
        }
        uint128_t f4( const std::uint8_t* u, const std::uint8_t* v, const uint128_t& x, std::uint8_t z )
        {
            return X( 3, cat()( u, 32 )( v, 32 )( x )( z ).b );
        }
        std::pair< uint128_t, uint128_t > f5( const bluetoe::details::ecdh_shared_secret_t dh_key, const uint128_t& n1, const uint128_t& n2,
            const bluetoe::link_layer::device_address& a1, const bluetoe::link_layer::device_address& a2 )
        {
            const bytes m = cat()( dh_key )( n1 )( n2 )( a1 )( a2 ).b;
            return { X( 4, m ), X( 5, m ) };
        }
        uint128_t f6( const uint128_t& w, const uint128_t& n1, const uint128_t& n2, const uint128_t& r,
            const bluetoe::details::io_capabilities_t& io, const bluetoe::link_layer::device_address& a1, const bluetoe::link_layer::device_address& a2 )
        {
            return X( 6, cat()( w )( n1 )( n2 )( r )( io )( a1 )( a2 ).b );
        }
        std::uint32_t g2( const std::uint8_t* u, const std::uint8_t* v, const uint128_t& x, const uint128_t& y )
        {
            return static_cast< std::uint32_t >( h( 7, cat()( u, 32 )( v, 32 )( x )( y ).b ) );
        }
    private:
        std::uint64_t ctr_;
    };
}
#endif
