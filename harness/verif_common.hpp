// Common plumbing for the correspondence harnesses: line protocol shared with ocaml/conv.ml.
//   CASE <name> <cfg words...>     -> echo "CASE <name>", select/reset the object under test
//   <op line>                      -> one result line
// Output is flushed per line so that a sanitizer / assert abort loses nothing; the runner
// records the operation at which the process died as FAULT.
#ifndef VERIF_COMMON_HPP
#define VERIF_COMMON_HPP
#include <vector>
#include <array>
#include <iterator>
#include <string>
#include <sstream>
#include <iostream>
#include <cstdio>
#include <cstdint>
#include <cstdlib>
#include <cstring>
#include <map>
#include <functional>
#include <memory>
#include <tuple>
#include <algorithm>

namespace verif {
    inline std::vector< std::string > words( const std::string& s )
    {
        std::istringstream in( s ); std::vector< std::string > r; std::string w;
        while ( in >> w ) r.push_back( w );
        return r;
    }
    inline std::vector< std::uint8_t > bytes_of_hex( const std::string& s )
    {
        std::vector< std::uint8_t > r;
        if ( s == "-" ) return r;
        for ( std::size_t i = 0; i + 1 < s.size(); i += 2 )
            r.push_back( static_cast< std::uint8_t >( std::stoi( s.substr( i, 2 ), nullptr, 16 ) ) );
        return r;
    }
    inline std::string hex_of_bytes( const std::uint8_t* b, std::size_t n )
    {
        if ( n == 0 ) return "-";
        static const char* d = "0123456789abcdef"; std::string r;
        for ( std::size_t i = 0; i != n; ++i ) { r += d[ b[ i ] >> 4 ]; r += d[ b[ i ] & 15 ]; }
        return r;
    }
    inline std::vector< long > ints_of_csv( const std::string& s )
    {
        std::vector< long > r; if ( s == "-" ) return r;
        std::istringstream in( s ); std::string w;
        while ( std::getline( in, w, ',' ) ) r.push_back( std::stol( w ) );
        return r;
    }
    inline void emit( const std::string& s ) { std::fputs( s.c_str(), stdout ); std::fputc( '\n', stdout ); std::fflush( stdout ); }

    // an exactly-sized heap copy, so that AddressSanitizer sees every over-read / over-write
    struct heap_bytes {
        explicit heap_bytes( std::size_t n ) : size( n ), p( new std::uint8_t[ n ? n : 1 ] ) { std::memset( p, 0xAA, n ? n : 1 ); if ( !n ) { delete[] p; p = new std::uint8_t[ 0 ]; } }
        explicit heap_bytes( const std::vector< std::uint8_t >& v ) : size( v.size() ), p( new std::uint8_t[ v.size() ] ) { if ( size ) std::memcpy( p, v.data(), size ); }
        ~heap_bytes() { delete[] p; }
        heap_bytes( const heap_bytes& ) = delete; heap_bytes& operator=( const heap_bytes& ) = delete;
        std::size_t size; std::uint8_t* p;
    };

    // a test object: reset by CASE, fed one op line at a time
    struct subject { virtual ~subject() {} virtual std::string op( const std::vector< std::string >& w ) = 0; };
    using factory = std::function< std::unique_ptr< subject >( const std::vector< std::string >& cfg ) >;

    // main loop; `make` builds the subject for a CASE line's configuration words
    inline int main_loop( const factory& make )
    {
        std::unique_ptr< subject > cur; std::string line;
        while ( std::getline( std::cin, line ) )
        {
            auto w = words( line );
            if ( w.empty() ) continue;
            if ( w[ 0 ] == "CASE" )
            {
                emit( "CASE " + w[ 1 ] );
                cur = make( std::vector< std::string >( w.begin() + 2, w.end() ) );
                if ( !cur ) { emit( "NOCONFIG" ); }
            }
            else if ( cur ) emit( cur->op( w ) );
            else emit( "NOCONFIG" );
        }
        return 0;
    }
}
#endif
