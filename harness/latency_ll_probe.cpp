// Probe (not part of bin/check): how link_layer<> uses peripheral_latency_state<> when the planned skip
// lands on a pending instant and the event is then pulled back because data became pending.
// Uses the repository's own test fixture and test radio (tests/link_layer/connected.hpp), i.e. needs
// the repository's test build (/repo/_build, NDEBUG):
//   g++ -std=c++11 -O1 -g -w -I/repo -I/repo/bluetoe -I/repo/bluetoe/sm/include -I/repo/bluetoe/utility/include \
//       -I/repo/tests/test_tools -I/repo/tests/link_layer -I/repo/bluetoe/link_layer/include -I/repo/bluetoe/link_layer \
//       harness/latency_ll_probe.cpp /repo/_build/bluetoe/utility/libbluetoe_utility.a /repo/_build/tests/test_tools/libtest_tools.a \
//       /repo/_build/bluetoe/link_layer/libbluetoe_linklayer.a /repo/_build/bluetoe/utility/libbluetoe_utility.a -o /tmp/latency_ll_probe
// Observed on 6f71f7c (see docs/C23.md, "Observation for C21"):
//   channel_map: after event 8 the event with counter 10 (= instant of an LL_CHANNEL_MAP_IND) is planned with skip 2 and
//   the new map is installed; try_event_cancelation() then pulls the plan back to counter 9, which is scheduled on
//   channel 3 (new map) instead of channel 13 (old map, valid until event 10).
//   connection update: state_ == connection_changed disables try_event_cancelation(), nothing is pulled back.
#define BOOST_TEST_MODULE
#include <boost/test/included/unit_test.hpp>
#define private public
#define protected public
#include "connected.hpp"
#undef private
#undef protected
#include <iostream>

std::uint16_t temperature_value = 0;
static const std::initializer_list< std::uint8_t > five_hop_connection_request_pdu =
{
    0xc5, 0x22, 0x3c, 0x1c, 0x62, 0x92, 0xf0, 0x48, 0x47, 0x11, 0x08, 0x15, 0x0f, 0xc0,
    0x5a, 0xb3, 0x9a, 0xaf, 0x08, 0x81, 0xf6,
    0x03,               // transmit window size
    0x0b, 0x00,         // window offset
    0x18, 0x00,         // interval (30ms)
    0x03, 0x00,         // peripheral latency
    0x48, 0x00,         // connection timeout (720ms)
    0xff, 0xff, 0xff, 0xff, 0x1f, 0xa5
};
using server_t = bluetoe::server<
    bluetoe::service<
        bluetoe::service_uuid< 0x8C8B4094, 0x0DE2, 0x499F, 0xA28A, 0x4EED5BC73CA9 >,
        bluetoe::characteristic<
            bluetoe::characteristic_uuid< 0x8C8B4094, 0x0DE2, 0x499F, 0xA28A, 0x4EED5BC73CAA >,
            bluetoe::bind_characteristic_value< decltype( temperature_value ), &temperature_value >,
            bluetoe::no_write_access, bluetoe::notify > >,
    bluetoe::no_gap_service_for_gatt_servers >;

struct fixture : unconnected_base_t< server_t, test::radio,
    bluetoe::link_layer::peripheral_latency_configuration<
        bluetoe::link_layer::peripheral_latency::listen_if_pending_transmit_data,
        bluetoe::link_layer::peripheral_latency::listen_if_unacknowledged_data > > {};

template < class F > void dump( F& f, const char* what )
{
    std::cout << what << ": counter=" << f.connection_event_counter() << " channel_index=" << f.current_channel_index()
              << " time_since_last_event=" << f.time_since_last_event().usec() << "us interval=" << f.connection_interval_.usec()
              << "us events_scheduled=" << f.connection_events().size();
    if ( !f.connection_events().empty() )
    {
        const auto& e = f.connection_events().back();
        std::cout << " last: channel=" << e.channel << " start=" << e.start_receive.usec() << " end=" << e.end_receive.usec();
    }
    std::cout << std::endl;
}

static void scenario( fixture& f, unsigned new_interval, unsigned new_timeout )
{
    f.respond_to( 37, five_hop_connection_request_pdu );
    f.ll_empty_pdu();                                                         // event 0 -> plans 4
    f.add_connection_update_request( 6, 3, new_interval, 3, new_timeout, 10 );    // event 4 -> plans 8
    f.ll_empty_pdu();                                                         // event 8 -> plans 10 (the instant, skip 2): update applied
    f.end_of_simulation( bluetoe::link_layer::delta_time::msec( 8 * 30 - 20 ) );
    f.run();
    dump( f, "after event 8 (event 10 = instant planned, update already applied)" );
    f.try_event_cancelation();                                                // pending data -> pull back
    dump( f, "after try_event_cancelation" );
}

static void scenario_map( fixture& f )
{
    f.respond_to( 37, five_hop_connection_request_pdu );
    f.ll_empty_pdu();                                                         // event 0 -> plans 4
    f.ll_control_pdu( { 0x01, 0xff, 0x03, 0x00, 0x00, 0x00, 0x0a, 0x00 } );   // event 4: LL_CHANNEL_MAP_IND, channels 0..9, instant 10 -> plans 8
    f.ll_empty_pdu();                                                         // event 8 -> plans 10 (the instant, skip 2): new map applied
    f.end_of_simulation( bluetoe::link_layer::delta_time::msec( 8 * 30 - 20 ) );
    f.run();
    dump( f, "after event 8 (event 10 = instant planned, new channel map already applied)" );
    f.try_event_cancelation();                                                // pending data -> pull back to event 9
    dump( f, "after try_event_cancelation" );
}
BOOST_FIXTURE_TEST_CASE( channel_map, fixture ) { scenario_map( *this ); }
BOOST_FIXTURE_TEST_CASE( shorter_interval, fixture ) { scenario( *this, 6, 198 ); }
BOOST_FIXTURE_TEST_CASE( longer_interval, fixture ) { scenario( *this, 80, 198 ); }
