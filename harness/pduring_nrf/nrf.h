// Stand-in for the vendor header <nrf.h>, private to harness/pduring_harness.cpp.
// bluetoe/bindings/nordic/include/bluetoe/nrf.hpp (which defines nrf_details::encrypted_pdu_layout,
// the only thing the PduRing harness needs from it) includes <nrf.h> for the peripheral register
// blocks. Only the names nrf.hpp mentions are declared; nothing here is executed by the harness.
#ifndef VERIF_PDURING_NRF_H
#define VERIF_PDURING_NRF_H
#include <stdint.h>
#define __NVIC_PRIO_BITS 3
struct NRF_RADIO_Type { volatile uint32_t dummy; };
struct NRF_TIMER_Type { volatile uint32_t dummy; };
struct NRF_CLOCK_Type { volatile uint32_t TASKS_HFCLKSTART, TASKS_HFCLKSTOP, TASKS_LFCLKSTART, EVENTS_HFCLKSTARTED, EVENTS_LFCLKSTARTED, LFCLKSRC; };
struct NRF_TEMP_Type { volatile uint32_t dummy; };
struct NRF_RTC_Type { volatile uint32_t TASKS_START, TASKS_STOP, EVTEN; };
struct NRF_CCM_Type { volatile uint32_t dummy; };
struct NRF_AAR_Type { volatile uint32_t dummy; };
struct NRF_PPI_Type { volatile uint32_t dummy; };
struct NRF_RNG_Type { volatile uint32_t dummy; };
struct NRF_ECB_Type { volatile uint32_t dummy; };
struct NRF_GPIOTE_Type { volatile uint32_t dummy; };
struct NVIC_Type { volatile uint32_t dummy; };
template < class T > inline T* verif_peripheral() { static T instance; return &instance; }
#define NRF_RADIO  verif_peripheral< NRF_RADIO_Type >()
#define NRF_TIMER0 verif_peripheral< NRF_TIMER_Type >()
#define NRF_TIMER1 verif_peripheral< NRF_TIMER_Type >()
#define NRF_CLOCK  verif_peripheral< NRF_CLOCK_Type >()
#define NRF_TEMP   verif_peripheral< NRF_TEMP_Type >()
#define NRF_RTC0   verif_peripheral< NRF_RTC_Type >()
#define NRF_CCM    verif_peripheral< NRF_CCM_Type >()
#define NRF_AAR    verif_peripheral< NRF_AAR_Type >()
#define NRF_PPI    verif_peripheral< NRF_PPI_Type >()
#define NRF_RNG    verif_peripheral< NRF_RNG_Type >()
#define NRF_ECB    verif_peripheral< NRF_ECB_Type >()
#define NRF_GPIOTE verif_peripheral< NRF_GPIOTE_Type >()
#define NVIC       verif_peripheral< NVIC_Type >()
#define RTC_EVTEN_COMPARE0_Enabled 1u
#define RTC_EVTEN_COMPARE0_Pos 16u
#define RTC_EVTEN_COMPARE1_Enabled 1u
#define RTC_EVTEN_COMPARE1_Pos 17u
#define RTC_EVTEN_OVRFLW_Enabled 1u
#define RTC_EVTEN_OVRFLW_Pos 1u
#define CLOCK_LFCLKSRCCOPY_SRC_Synth 2u
#define CLOCK_LFCLKSRCCOPY_SRC_Xtal 1u
#define CLOCK_LFCLKSRCCOPY_SRC_RC 0u
#define CLOCK_LFCLKSRCCOPY_SRC_Pos 0u
#endif
