// Correspondence harness for bluetoe/link_layer/channel_map.cpp (C20).
// The implementation file itself is compiled into this translation unit (found through the
// include path <repo>/bluetoe/link_layer), so the tie follows VERIF_REPO.
//   reset <10 hex digits map> <hop>  -> 0/1      channel_map::reset( map, hop )
//   remap <10 hex digits map>        -> 0/1      channel_map::reset( map )
//   chan <index>                     -> channel  channel_map::data_channel( index )  (assert => FAULT)
//   dump                             -> 37 bytes hex, data_channel( 0 ) .. data_channel( 36 )
// The map argument is an exactly sized heap copy (5 bytes), so a read past the ChM field is an
// AddressSanitizer fault. map_ is not initialised by the constructor; it is poisoned with 0xff
// (the model's init) so that "table unchanged" can be observed before the first accepted reset.
#include "verif_common.hpp"
#define private public
#include <bluetoe/channel_map.hpp>
#undef private
#include "channel_map.cpp"

namespace {
    struct chanmap_subject : verif::subject
    {
        std::unique_ptr< bluetoe::link_layer::channel_map > cm;

        chanmap_subject() : cm( new bluetoe::link_layer::channel_map() )
        {
            std::memset( cm->map_, 0xff, sizeof( cm->map_ ) );
        }

        std::string op( const std::vector< std::string >& w ) override
        {
            using bluetoe::link_layer::channel_map;

            if ( w[ 0 ] == "reset" )
            {
                verif::heap_bytes map( verif::bytes_of_hex( w.at( 1 ) ) );
                return cm->reset( map.p, static_cast< unsigned >( std::stoul( w.at( 2 ) ) ) ) ? "1" : "0";
            }
            if ( w[ 0 ] == "remap" )
            {
                verif::heap_bytes map( verif::bytes_of_hex( w.at( 1 ) ) );
                return cm->reset( map.p ) ? "1" : "0";
            }
            if ( w[ 0 ] == "chan" )
                return std::to_string( cm->data_channel( static_cast< unsigned >( std::stoul( w.at( 1 ) ) ) ) );
            if ( w[ 0 ] == "dump" )
            {
                std::uint8_t t[ channel_map::max_number_of_data_channels ];
                for ( unsigned i = 0; i != channel_map::max_number_of_data_channels; ++i )
                {
                    const unsigned c = cm->data_channel( i );
                    if ( c > 255 ) return "BADCHANNEL";
                    t[ i ] = static_cast< std::uint8_t >( c );
                }
                return verif::hex_of_bytes( t, sizeof( t ) );
            }
            return "BADOP";
        }
    };
}

int main()
{
    return verif::main_loop( []( const std::vector< std::string >& ) -> std::unique_ptr< verif::subject > {
        return std::unique_ptr< verif::subject >( new chanmap_subject() );
    } );
}
