// Correspondence harness for the nRF52 security tool box (C37, C38): the real
// bluetoe/bindings/nordic/nrf52/security_tool_box.cpp compiled for the host against the emulated
// register header harness/verif_nrf/nrf.h (scripted RNG, ECB peripheral = tests/test_tools/aes.c)
// and linked with the real uECC.c.  The .cpp is #included so that its static helpers
// (left_shift, sub-key generation) can be tied too.
// Build (props/C37.py, props/C38.py): -fpermissive -no-pie, include paths of the binding, and the
// objects uECC.o / aes.o / address.cpp.
//   no cfg words.  All hex arguments are in the byte order the C++ API takes (little endian).
//   ops:  passkey <rng stream>                  -> <tk 16 bytes> <bytes drawn>
//         aes <k16> <d16> | shl <x16> | k1 <k16> | k2 <k16>
//         c1 <k> <r> <p1> <p2> | s1 <k> <srand> <mrand> | sk <ltk16> <skdm8> <skds8>
//         f4 <u32> <v32> <k16> <z1> | g2 <u32> <v32> <x16> <y16>           (g2: 4 bytes, LSB first)
//         f5 <dh32> <n1> <n2> <t1> <a1-6> <t2> <a2-6>                       -> <mackey> <ltk>
//         f6 <key> <n1> <n2> <r> <io3> <t1> <a1-6> <t2> <a2-6>
//         valid <pk64>                                                      -> true | false
//   wrong argument count / length -> badarg
#include "verif_common.hpp"
#include <security_tool_box.cpp>
#include <bluetoe/bits.hpp>
extern "C" {
#include <aes.h>
}

void verif_nrf::ecb_encrypt( const uint8_t* key, const uint8_t* cleartext, uint8_t* ciphertext )
{
    struct AES_ctx ctx;
    AES_init_ctx( &ctx, key );
    std::memcpy( ciphertext, cleartext, 16 );
    AES_ECB_encrypt( &ctx, ciphertext );
}

namespace {
    using bluetoe::details::uint128_t;
    typedef std::vector< std::uint8_t > bytes;

    template < std::size_t N >
    std::array< std::uint8_t, N > arr( const bytes& b ) { std::array< std::uint8_t, N > r; std::copy( b.begin(), b.end(), r.begin() ); return r; }
    template < class A > std::string hex( const A& a ) { return verif::hex_of_bytes( a.data(), a.size() ); }

    struct toolbox_subject : verif::subject
    {
        bluetoe::nrf52_details::security_tool_box box;

        std::string op( const std::vector< std::string >& w ) override
        {
            using namespace bluetoe::nrf52_details;
            const std::string& o = w[ 0 ];
            std::vector< bytes > a;
            for ( std::size_t i = 1; i < w.size(); ++i ) a.push_back( verif::bytes_of_hex( w[ i ] ) );
            auto shape = [&]( std::initializer_list< std::size_t > lens ) {
                if ( a.size() != lens.size() ) return false;
                std::size_t i = 0;
                for ( std::size_t l : lens ) if ( a[ i++ ].size() != l ) return false;
                return true;
            };

            if ( o == "passkey" && a.size() == 1 )
            {
                verif_nrf::reset_rng( a[ 0 ] );
                const uint128_t tk = box.create_passkey();
                return hex( tk ) + " " + std::to_string( verif_nrf::state().rng_pos );
            }
            if ( o == "aes" && shape( { 16, 16 } ) ) return hex( aes_le( arr< 16 >( a[ 0 ] ), arr< 16 >( a[ 1 ] ) ) );
            if ( o == "shl" && shape( { 16 } ) )     return hex( left_shift( arr< 16 >( a[ 0 ] ) ) );
            if ( o == "k1" && shape( { 16 } ) )      return hex( aes_cmac_k1_subkey_generation( arr< 16 >( a[ 0 ] ) ) );
            if ( o == "k2" && shape( { 16 } ) )      return hex( aes_cmac_k2_subkey_generation( arr< 16 >( a[ 0 ] ) ) );
            if ( o == "c1" && shape( { 16, 16, 16, 16 } ) )
                return hex( box.c1( arr< 16 >( a[ 0 ] ), arr< 16 >( a[ 1 ] ), arr< 16 >( a[ 2 ] ), arr< 16 >( a[ 3 ] ) ) );
            if ( o == "s1" && shape( { 16, 16, 16 } ) )
                return hex( box.s1( arr< 16 >( a[ 0 ] ), arr< 16 >( a[ 1 ] ), arr< 16 >( a[ 2 ] ) ) );
            if ( o == "sk" && shape( { 16, 8, 8 } ) )
            {
                // bluetoe/bindings/nordic/nrf52/nrf52.cpp radio_hardware_with_crypto_support::setup_encryption
                // (not compilable on the host: whole radio) builds the session key diversifier like this and
                // hands aes_le( key, session_descriminator ) to the CCM; gen/consts/toolbox.py checks on every
                // run that the source still has these two lines.
                const std::uint64_t skdm = bluetoe::details::read_64bit( a[ 1 ].data() );
                const std::uint64_t skds = bluetoe::details::read_64bit( a[ 2 ].data() );
                uint128_t session_descriminator;
                bluetoe::details::write_64bit( &session_descriminator[ 0 ], skdm );
                bluetoe::details::write_64bit( &session_descriminator[ 8 ], skds );
                return hex( aes_le( arr< 16 >( a[ 0 ] ), session_descriminator ) );
            }
            if ( o == "f4" && shape( { 32, 32, 16, 1 } ) )
            {
                verif::heap_bytes u( a[ 0 ] ), v( a[ 1 ] );
                return hex( box.f4( u.p, v.p, arr< 16 >( a[ 2 ] ), a[ 3 ][ 0 ] ) );
            }
            if ( o == "g2" && shape( { 32, 32, 16, 16 } ) )
            {
                verif::heap_bytes u( a[ 0 ] ), v( a[ 1 ] );
                const std::uint32_t r = box.g2( u.p, v.p, arr< 16 >( a[ 2 ] ), arr< 16 >( a[ 3 ] ) );
                std::uint8_t b[ 4 ];
                bluetoe::details::write_32bit( b, r );
                return verif::hex_of_bytes( b, 4 );
            }
            if ( o == "f5" && shape( { 32, 16, 16, 1, 6, 1, 6 } ) )
            {
                const bluetoe::link_layer::device_address a1( a[ 4 ].data(), a[ 3 ][ 0 ] != 0 ), a2( a[ 6 ].data(), a[ 5 ][ 0 ] != 0 );
                const auto r = box.f5( arr< 32 >( a[ 0 ] ), arr< 16 >( a[ 1 ] ), arr< 16 >( a[ 2 ] ), a1, a2 );
                return hex( r.first ) + " " + hex( r.second );
            }
            if ( o == "f6" && shape( { 16, 16, 16, 16, 3, 1, 6, 1, 6 } ) )
            {
                const bluetoe::link_layer::device_address a1( a[ 6 ].data(), a[ 5 ][ 0 ] != 0 ), a2( a[ 8 ].data(), a[ 7 ][ 0 ] != 0 );
                return hex( box.f6( arr< 16 >( a[ 0 ] ), arr< 16 >( a[ 1 ] ), arr< 16 >( a[ 2 ] ), arr< 16 >( a[ 3 ] ), arr< 3 >( a[ 4 ] ), a1, a2 ) );
            }
            if ( o == "valid" && shape( { 64 } ) )
            {
                verif::heap_bytes pk( a[ 0 ] );
                return box.is_valid_public_key( pk.p ) ? "true" : "false";
            }
            return "badarg";
        }
    };
}

int main()
{
    // the 32 bit ECBDATAPTR register must be able to hold the address of aes_le()'s static job structure
    static int probe;
    if ( reinterpret_cast< std::uintptr_t >( &probe ) >> 32 )
    {
        std::fputs( "static storage is not below 4 GB: link with -no-pie\n", stderr );
        return 3;
    }
    return verif::main_loop( []( const std::vector< std::string >& ) { return std::unique_ptr< verif::subject >( new toolbox_subject ); } );
}
