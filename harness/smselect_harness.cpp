// Correspondence harness for the pairing method selection (C36):
//   bluetoe/sm/include/bluetoe/io_capabilities.hpp, oob_authentication.hpp and the pairing request
//   handlers of security_manager.hpp (legacy, LESC-only and combined security manager).
//
// A real security manager is instantiated per configuration (variant x input x output x MITM option),
// always with an oob_authentication_callback whose answer is the `loc` argument of the operation.
// Every cell is evaluated by sending a Pairing Request (key size 16, key distribution 0) on a fresh
// connection - through l2cap_input() wherever that compiles, see entry_t below - and reading the
// Pairing Failed reason, or the Pairing Response bytes 1..3 plus the pairing algorithm and pairing
// state stored in the connection data. The manager object lives as long as the CASE.
//
// build/<id>/<key>.d/smselect_configs.inc (written by the runner) lists CFG(variant,input,output,mitm)
//
//   CASE <name> <variant> <input> <output> <mitm0|mitm1>
//   req <io> <oob> <auth> <loc>                   hex bytes, loc = 0|1 (local OOB data present)
//   sweep <io|hi> <oob|hi> <loc> <mitm> <sc>      all cells with io (hi = 05..ff), oob flag (hi = 02..ff),
//                                                 and the 64 AuthReq bytes with the given MITM / SC bits
// result of a cell:  F.<code>  |  L.<alg>.<io><oob><auth>  |  S.<alg>.<io><oob><auth>
// result of a sweep: run-length encoded cell results "<n>*<cell> <n>*<cell> ..." in the order
//                    io ascending, oob ascending, AuthReq ascending
#include "verif_common.hpp"
#include <type_traits>
#include <utility>
#include <cassert>
#include <cstddef>
#include <initializer_list>
#include <limits>
#include <iosfwd>
#include <ostream>
#include <numeric>
#include <climits>
// the pairing request handlers are protected / private members of the security managers
#define private public
#define protected public
#include <bluetoe/link_state.hpp>
#include <bluetoe/address.hpp>
#include <bluetoe/security_manager.hpp>
#include <bluetoe/utility/address.cpp>      // the only non-header code needed (device_address)

namespace {
    using bluetoe::details::uint128_t;

    // user side of the options
    struct io_user_t {
        void sm_pairing_numeric_output( int ) {}
        void sm_pairing_yes_no( bluetoe::pairing_yes_no_response& ) {}
        int  sm_pairing_passkey() { return 0; }
    } io_user;

    struct oob_user_t {
        bool present;
        unsigned calls;
        std::pair< bool, bluetoe::oob_authentication_data_t > sm_oob_authentication_data( const bluetoe::link_layer::device_address& )
        {
            ++calls;
            return { present, bluetoe::oob_authentication_data_t{{ 0x42 }} };
        }
    } oob_user = { false, 0 };

    // security tool box: only create_srand() and local_address() are reached by a pairing request;
    // the rest has to exist for the other handlers to compile
    struct toy_functions
    {
        bluetoe::link_layer::device_address local_address() const { return bluetoe::link_layer::public_device_address( { 0xb6, 0xb5, 0xb4, 0xb3, 0xb2, 0xb1 } ); }
        uint128_t create_srand() { return uint128_t{{ 1 }}; }
        uint128_t create_passkey() { return uint128_t{{ 2 }}; }
        bluetoe::details::longterm_key_t create_long_term_key() { return bluetoe::details::longterm_key_t{ {{ 3 }}, 0, 0 }; }
        uint128_t s1( const uint128_t&, const uint128_t&, const uint128_t& ) { return uint128_t{{ 4 }}; }
        uint128_t c1( const uint128_t&, const uint128_t&, const uint128_t&, const uint128_t& ) const { return uint128_t{{ 5 }}; }
        bool is_valid_public_key( const std::uint8_t* ) const { return true; }
        std::pair< bluetoe::details::ecdh_public_key_t, bluetoe::details::ecdh_private_key_t > generate_keys() { return {}; }
        uint128_t select_random_nonce() { return uint128_t{{ 6 }}; }
        bluetoe::details::ecdh_shared_secret_t p256( const std::uint8_t*, const std::uint8_t* ) { return {}; }
        uint128_t f4( const std::uint8_t*, const std::uint8_t*, const uint128_t&, std::uint8_t ) { return uint128_t{{ 7 }}; }
        std::pair< uint128_t, uint128_t > f5( const bluetoe::details::ecdh_shared_secret_t, const uint128_t&, const uint128_t&,
            const bluetoe::link_layer::device_address&, const bluetoe::link_layer::device_address& ) { return {}; }
        uint128_t f6( const uint128_t&, const uint128_t&, const uint128_t&, const uint128_t&, const bluetoe::details::io_capabilities_t&,
            const bluetoe::link_layer::device_address&, const bluetoe::link_layer::device_address& ) { return uint128_t{{ 8 }}; }
        std::uint32_t g2( const std::uint8_t*, const std::uint8_t*, const uint128_t&, const uint128_t& ) { return 0; }
    };

    // option vocabulary of the CFG( variant, input, output, mitm ) lines
    using legacy   = bluetoe::legacy_security_manager;
    using lesc     = bluetoe::lesc_security_manager;
    using combined = bluetoe::security_manager;
    using in_none  = bluetoe::pairing_no_input;
    using in_yesno = bluetoe::pairing_yes_no< io_user_t, io_user >;
    using in_keyb  = bluetoe::pairing_keyboard< io_user_t, io_user >;
    using out_none = bluetoe::pairing_no_output;
    using out_num  = bluetoe::pairing_numeric_output< io_user_t, io_user >;
    struct mitm0 { struct meta_type {}; };      // an option nobody looks for
    using mitm1    = bluetoe::require_man_in_the_middle_protection;
    using oob_cb   = bluetoe::oob_authentication_callback< oob_user_t, oob_user >;

    const char* legacy_name( bluetoe::details::legacy_pairing_algorithm a )
    {
        using alg = bluetoe::details::legacy_pairing_algorithm;
        switch ( a )
        {
            case alg::just_works:             return "jw";
            case alg::oob_authentication:     return "oob";
            case alg::passkey_entry_display:  return "disp";
            case alg::passkey_entry_input:    return "inp";
        }
        return "?";
    }

    const char* lesc_name( bluetoe::details::lesc_pairing_algorithm a )
    {
        using alg = bluetoe::details::lesc_pairing_algorithm;
        switch ( a )
        {
            case alg::just_works:             return "jw";
            case alg::oob_authentication:     return "oob";
            case alg::passkey_entry_display:  return "disp";
            case alg::passkey_entry_input:    return "inp";
            case alg::numeric_comparison:     return "num";
        }
        return "?";
    }

    template < class Manager, class In, class Out, class Mitm >
    struct sm_subject : verif::subject,
        Manager::template impl< sm_subject< Manager, In, Out, Mitm >, In, Out, Mitm, oob_cb >,
        toy_functions
    {
        using manager_t    = typename Manager::template impl< sm_subject< Manager, In, Out, Mitm >, In, Out, Mitm, oob_cb >;
        using connection_t = typename manager_t::template channel_data_t< bluetoe::details::link_state >;

        // The public entry point l2cap_input() is used wherever it compiles. pairing_keyboard<> has no
        // sm_pairing_request_yes_no(), so a LESC-only or combined manager with a keyboard cannot
        // instantiate l2cap_input() on this tree (lesc_handle_pairing_random does not compile); for these
        // configurations the pairing request handler l2cap_input() dispatches to is called directly.
        struct via_l2cap {}; struct direct_lesc {}; struct direct_combined {};
        static constexpr bool keyboard = std::is_same< In, in_keyb >::value;
        using entry_t = typename std::conditional< !keyboard || std::is_same< Manager, legacy >::value, via_l2cap,
                        typename std::conditional< std::is_same< Manager, lesc >::value, direct_lesc, direct_combined >::type >::type;

        void request( const std::uint8_t* in, std::size_t in_size, std::uint8_t* out, std::size_t& out_size, connection_t& con, via_l2cap )
        {
            this->l2cap_input( in, in_size, out, out_size, con );
        }

        void request( const std::uint8_t* in, std::size_t in_size, std::uint8_t* out, std::size_t& out_size, connection_t& con, direct_lesc )
        {
            this->lesc_handle_pairing_request( in, in_size, out, out_size, con );
        }

        void request( const std::uint8_t* in, std::size_t in_size, std::uint8_t* out, std::size_t& out_size, connection_t& con, direct_combined )
        {
            this->handle_pairing_request( in, in_size, out, out_size, con );
        }

        // result of one cell, kept as numbers so that a sweep compares and prints only at run boundaries
        struct raw_cell {
            char kind;                  // 'F' failed, 'L' legacy, 'S' LESC, 'X' anything else
            int  alg;                   // enumerator of the stored pairing algorithm / Pairing Failed reason / state
            std::uint8_t rsp[ 3 ];      // Pairing Response bytes 1..3
            std::string  junk;          // 'X' only
            bool operator==( const raw_cell& o ) const
            {
                return kind == o.kind && alg == o.alg && std::equal( rsp, rsp + 3, o.rsp ) && junk == o.junk;
            }
        };

        // exactly sized heap blocks (AddressSanitizer sees any over-read / over-write), reused between cells
        verif::heap_bytes in_{ std::vector< std::uint8_t >{ 0x01, 0, 0, 0, 0x10, 0x00, 0x00 } };
        verif::heap_bytes out_{ manager_t::maximum_channel_mtu_size };

        static int legacy_value( ... ) { return -1; }
        template < class C > static int legacy_value( const C& c, decltype( std::declval< const C& >().legacy_pairing_algorithm() )* = nullptr ) { return static_cast< int >( c.legacy_pairing_algorithm() ); }
        static int lesc_value( ... ) { return -1; }
        template < class C > static int lesc_value( const C& c, decltype( std::declval< const C& >().lesc_pairing_algorithm() )* = nullptr ) { return static_cast< int >( c.lesc_pairing_algorithm() ); }

        // one Pairing Request on a fresh connection
        raw_cell cell( unsigned io, unsigned oob, unsigned auth, bool loc )
        {
            oob_user.present = loc;

            connection_t con;
            con.remote_connection_created( bluetoe::link_layer::random_device_address( { 0xa6, 0xa5, 0xa4, 0xa3, 0xa2, 0xa1 } ) );

            in_.p[ 1 ] = std::uint8_t( io ); in_.p[ 2 ] = std::uint8_t( oob ); in_.p[ 3 ] = std::uint8_t( auth );
            std::memset( out_.p, 0xAA, out_.size );
            std::size_t out_size = out_.size;

            request( in_.p, in_.size, out_.p, out_size, con, entry_t() );

            raw_cell r = { 'X', 0, { 0, 0, 0 }, std::string() };

            if ( out_size == 2 && out_.p[ 0 ] == 0x05 )
            {
                r.kind = 'F'; r.alg = out_.p[ 1 ];
            }
            else if ( out_size != 7 || out_.p[ 0 ] != 0x02 )
            {
                r.junk = verif::hex_of_bytes( out_.p, out_size <= out_.size ? out_size : out_.size );
            }
            else
            {
                std::copy( out_.p + 1, out_.p + 4, r.rsp );

                switch ( con.state() )
                {
                    case bluetoe::details::sm_pairing_state::legacy_pairing_requested:
                        r.kind = 'L'; r.alg = legacy_value( con );
                        break;
                    case bluetoe::details::sm_pairing_state::lesc_pairing_requested:
                        r.kind = 'S'; r.alg = lesc_value( con );
                        break;
                    default:
                        r.junk = "state" + std::to_string( static_cast< int >( con.state() ) );
                }
            }
            return r;
        }

        static std::string show( const raw_cell& r )
        {
            switch ( r.kind )
            {
                case 'F': { const std::uint8_t c = std::uint8_t( r.alg ); return "F." + verif::hex_of_bytes( &c, 1 ); }
                case 'L': return std::string( "L." ) + ( r.alg < 0 ? "none" : legacy_name( static_cast< bluetoe::details::legacy_pairing_algorithm >( r.alg ) ) ) + "." + verif::hex_of_bytes( r.rsp, 3 );
                case 'S': return std::string( "S." ) + ( r.alg < 0 ? "none" : lesc_name( static_cast< bluetoe::details::lesc_pairing_algorithm >( r.alg ) ) ) + "." + verif::hex_of_bytes( r.rsp, 3 );
            }
            return "X." + r.junk;
        }

        static void range( const std::string& w, unsigned first_hi, unsigned& lo, unsigned& hi )
        {
            if ( w == "hi" ) { lo = first_hi; hi = 255; }
            else { lo = hi = static_cast< unsigned >( std::stoul( w, nullptr, 16 ) ); }
        }

        std::string op( const std::vector< std::string >& w ) override
        {
            if ( w[ 0 ] == "req" && w.size() == 5 )
                return show( cell( std::stoul( w[ 1 ], nullptr, 16 ), std::stoul( w[ 2 ], nullptr, 16 ), std::stoul( w[ 3 ], nullptr, 16 ), w[ 4 ] == "1" ) );

            if ( w[ 0 ] == "sweep" && w.size() == 6 )
            {
                unsigned io_lo, io_hi, oob_lo, oob_hi;
                range( w[ 1 ], 5, io_lo, io_hi );
                range( w[ 2 ], 2, oob_lo, oob_hi );
                const bool     loc  = w[ 3 ] == "1";
                const unsigned bits = ( w[ 4 ] == "1" ? 0x04u : 0u ) | ( w[ 5 ] == "1" ? 0x08u : 0u );

                std::string result;
                raw_cell last;
                unsigned long count = 0;
                auto flush = [&]() { if ( count ) { if ( !result.empty() ) result += ' '; result += std::to_string( count ) + "*" + show( last ); } };

                for ( unsigned io = io_lo; io <= io_hi; ++io )
                    for ( unsigned oob = oob_lo; oob <= oob_hi; ++oob )
                        for ( unsigned auth = 0; auth != 256; ++auth )
                        {
                            if ( ( auth & 0x0cu ) != bits )
                                continue;

                            const raw_cell c = cell( io, oob, auth, loc );
                            if ( count && c == last ) { ++count; }
                            else { flush(); last = c; count = 1; }
                        }
                flush();
                return result;
            }

            return "BADOP";
        }
    };

    std::map< std::string, verif::factory > registry;

    template < class Manager, class In, class Out, class Mitm >
    void reg( const char* name )
    {
        registry[ name ] = []( const std::vector< std::string >& ) { return std::unique_ptr< verif::subject >( new sm_subject< Manager, In, Out, Mitm >() ); };
    }
}

int main()
{
#define CFG( V, I, O, M ) reg< V, I, O, M >( #V " " #I " " #O " " #M );
#include "smselect_configs.inc"
    return verif::main_loop( []( const std::vector< std::string >& cfg ) -> std::unique_ptr< verif::subject > {
        if ( cfg.size() != 4 ) return nullptr;
        auto f = registry.find( cfg[ 0 ] + " " + cfg[ 1 ] + " " + cfg[ 2 ] + " " + cfg[ 3 ] );
        return f == registry.end() ? nullptr : f->second( cfg );
    } );
}
