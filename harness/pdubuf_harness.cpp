// Correspondence harness for bluetoe/link_layer/include/bluetoe/ll_data_pdu_buffer.hpp (C15, C16, C17).
//
// build/<id>/<key>.d/pdubuf_configs.inc  (written by the runner)  CFG( overhead, TransmitSize, ReceiveSize )
// build/<id>/<key>.d/pdubuf_extracted.inc (written by the runner) defines PDUBUF_HAVE_LAYOUT / PDUBUF_HAVE_COUNTER
// when the runner could cut these texts out of the CURRENT sources:
//     pdubuf_layout.inc        struct encrypted_pdu_layout   (bindings/nordic/include/bluetoe/nrf.hpp)
//     pdubuf_counter_decl.inc  struct counter                (bindings/nordic/nrf52/include/bluetoe/nrf52.hpp)
//     pdubuf_counter_impl.inc  counter::counter/increment/copy_to (bindings/nordic/nrf52/nrf52.cpp)
// Both are compiled here unchanged; nrf.hpp / nrf52.cpp themselves need the device header <nrf.h>.
//
// CASE <name> <property> <overhead> <TransmitSize> <ReceiveSize>
// link layer side:  maxrx n | maxtx n | reset | stop | tx n hl body | pend | nr | fr
// radio side (the nRF52 interrupt handler's decision for a PDU with a good CRC):
//     rx hl body   allocate_receive_buffer(); none -> next_transmit() else received( pdu )
//     mic hl body  allocate_receive_buffer(); none -> next_transmit() else acknowledge( pdu )
//     nt           next_transmit()
// counter tie:      ctr low high n      (counter::increment n times, then copy_to)
// outputs:  - | pre | 0/1 | ok/full | E | D size hdr body | R/A/N size hdr body rc tc | 5 bytes
#include "verif_common.hpp"
#include <cassert>
#include <bluetoe/ll_data_pdu_buffer.hpp>
#include <bluetoe/bits.hpp>

#include "pdubuf_extracted.inc"

#ifdef PDUBUF_HAVE_LAYOUT
namespace bluetoe { namespace nrf_details {
#include "pdubuf_layout.inc"
} }
#endif

#ifdef PDUBUF_HAVE_COUNTER
namespace bluetoe { namespace nrf52_details {
#include "pdubuf_counter_decl.inc"
#include "pdubuf_counter_impl.inc"
} }
#endif

namespace {
    bool radio_locked = false;

    template < std::size_t T, std::size_t R, int O >
    struct mock_radio : bluetoe::link_layer::ll_data_pdu_buffer< T, R, mock_radio< T, R, O > >
    {
        struct lock_guard {
            lock_guard() { assert( !radio_locked ); radio_locked = true; }
            ~lock_guard() { radio_locked = false; }
        };

        void increment_receive_packet_counter() { ++rc; }
        void increment_transmit_packet_counter() { ++tc; }

        int rc = 0;
        int tc = 0;

        // the protected radio interface
        using base = bluetoe::link_layer::ll_data_pdu_buffer< T, R, mock_radio< T, R, O > >;
        bluetoe::link_layer::read_buffer  r_allocate() { return this->allocate_receive_buffer(); }
        bluetoe::link_layer::write_buffer r_received( bluetoe::link_layer::read_buffer b ) { return this->received( b ); }
        bluetoe::link_layer::write_buffer r_acknowledge( bluetoe::link_layer::read_buffer b ) { return this->acknowledge( b ); }
        bluetoe::link_layer::write_buffer r_next_transmit() { return this->next_transmit(); }
    };
}

#ifdef PDUBUF_HAVE_LAYOUT
namespace bluetoe { namespace link_layer {
    template < std::size_t T, std::size_t R >
    struct pdu_layout_by_radio< mock_radio< T, R, 1 > > {
        using pdu_layout = bluetoe::nrf_details::encrypted_pdu_layout;
    };
} }
#endif

namespace {
    template < std::size_t T, std::size_t R, int O >
    struct buffer_subject : verif::subject
    {
        using radio  = mock_radio< T, R, O >;
        using layout = typename radio::layout;
        static_assert( radio::layout_overhead == O, "layout overhead" );

        std::unique_ptr< radio > r;
        buffer_subject() : r( new radio ) { radio_locked = false; }

        static std::string pdu_text( const std::uint8_t* buffer, std::size_t size )
        {
            const bluetoe::link_layer::write_buffer wb( buffer, size );
            const auto body = layout::body( wb );
            return std::to_string( size ) + " " + verif::hex_of_bytes( buffer, 2 ) + " "
                 + verif::hex_of_bytes( body.first, body.second > body.first ? body.second - body.first : 0 );
        }

        std::string response( char kind, const bluetoe::link_layer::write_buffer& wb )
        {
            if ( wb.size < 2 + O || wb.buffer == nullptr ) return std::string( 1, kind ) + " BADBUFFER";
            return std::string( 1, kind ) + " " + pdu_text( wb.buffer, wb.size ) + " " + std::to_string( r->rc ) + " " + std::to_string( r->tc );
        }

        static bool size_ok( std::size_t lim, std::size_t n )
        {
            return n >= 29 && n <= 251 && n + O <= lim;
        }

        void fill( const bluetoe::link_layer::read_buffer& b, unsigned hl, const std::vector< std::uint8_t >& body )
        {
            if ( O ) b.buffer[ 2 ] = 0;
            layout::header( b, static_cast< std::uint16_t >( hl | ( body.size() << 8 ) ) );
            std::copy( body.begin(), body.end(), layout::body( b ).first );
        }

        std::string op( const std::vector< std::string >& w ) override
        {
            r->rc = 0; r->tc = 0;
            const std::string& o = w[ 0 ];
            if ( o == "maxrx" || o == "maxtx" )
            {
                const std::size_t n = std::stoul( w.at( 1 ) );
                if ( !size_ok( o == "maxrx" ? R : T, n ) ) return "pre";
                if ( o == "maxrx" ) r->max_rx_size( n ); else r->max_tx_size( n );
                return ( o == "maxrx" ? r->max_rx_size() : r->max_tx_size() ) == n ? "-" : "BADSIZE";
            }
            if ( o == "reset" ) { r->reset_pdu_buffer(); return "-"; }
            if ( o == "stop" ) { r->stop_ll_pdu_buffer(); return "-"; }
            if ( o == "pend" ) return r->pending_outgoing_data_available() ? "1" : "0";
            if ( o == "tx" )
            {
                const std::size_t n  = std::stoul( w.at( 1 ) );
                const unsigned    hl = std::stoul( w.at( 2 ), nullptr, 16 );
                const auto        body = verif::bytes_of_hex( w.at( 3 ) );
                if ( hl >= 256 || ( hl & 0xe0 ) != 0 || body.empty() || n < body.size() + 2 + O || n > r->max_tx_size() + O ) return "pre";
                const auto b = r->allocate_transmit_buffer( n );
                if ( b.size == 0 ) return "full";
                if ( b.size != n || b.buffer == nullptr ) return "BADALLOC";
                fill( b, hl, body );
                r->commit_transmit_buffer( b );
                return "ok";
            }
            if ( o == "nr" )
            {
                const auto wb = r->next_received();
                if ( wb.size == 0 ) return "E";
                return "D " + pdu_text( wb.buffer, wb.size );
            }
            if ( o == "fr" )
            {
                if ( r->next_received().size == 0 ) return "pre";
                r->free_received();
                return "-";
            }
            if ( o == "rx" || o == "mic" )
            {
                const unsigned hl   = std::stoul( w.at( 1 ), nullptr, 16 );
                const auto     body = verif::bytes_of_hex( w.at( 2 ) );
                if ( hl >= 256 || body.size() + 2 > r->max_rx_size() ) return "pre";
                const auto b = r->r_allocate();
                // nrf52.hpp radio_interrupt_handler(): no receive buffer -> next_transmit()
                if ( b.empty() ) return response( 'N', r->r_next_transmit() );
                if ( b.size != r->max_rx_size() + O ) return "BADALLOC";
                fill( b, hl, body );
                return o == "rx" ? response( 'R', r->r_received( b ) ) : response( 'A', r->r_acknowledge( b ) );
            }
            if ( o == "nt" ) return response( 'N', r->r_next_transmit() );
            if ( o == "ctr" )
            {
#ifdef PDUBUF_HAVE_COUNTER
                bluetoe::nrf52_details::counter c;
                if ( c.low != 0 || c.high != 0 ) return "BADCTOR";
                c.low  = static_cast< std::uint32_t >( std::stoul( w.at( 1 ) ) );
                c.high = static_cast< std::uint8_t >( std::stoul( w.at( 2 ) ) );
                for ( unsigned long n = std::stoul( w.at( 3 ) ); n; --n ) c.increment();
                verif::heap_bytes target( 5 );
                c.copy_to( target.p );
                return verif::hex_of_bytes( target.p, 5 );
#else
                return "NOCOUNTER";
#endif
            }
            return "BADOP";
        }
    };

    std::map< std::string, verif::factory > registry;

    template < int O, std::size_t T, std::size_t R >
    void reg( const std::string& name )
    {
        registry[ name ] = []( const std::vector< std::string >& ) { return std::unique_ptr< verif::subject >( new buffer_subject< T, R, O >() ); };
    }
}

int main()
{
#define CFG( O, T, R ) reg< O, T, R >( #O "," #T "," #R );
#include "pdubuf_configs.inc"
    return verif::main_loop( []( const std::vector< std::string >& cfg ) -> std::unique_ptr< verif::subject > {
        if ( cfg.size() < 4 ) return nullptr;
        auto f = registry.find( cfg[ 1 ] + "," + cfg[ 2 ] + "," + cfg[ 3 ] );
        return f == registry.end() ? nullptr : f->second( cfg );
    } );
}
