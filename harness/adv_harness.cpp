// Correspondence harness for bluetoe/link_layer/include/bluetoe/advertising.hpp (C24, advertising part of C25).
//
// The advertiser classes are CRTP mixins of link_layer<>. They are instantiated here for real
// (details::select_advertiser_implementation< LinkLayer, Options... >, exactly the base class that
// link_layer<> derives from) over a small stub LinkLayer that provides what the mixins call:
// radio_t, local_address(), fill_l2cap_*(), l2cap_adverting_data_or_scan_response_data_changed(),
// raw_pdu_buffer(), set_access_address_and_crc_init(), schedule_advertisment() (recorded) and
// is_connection_request_in_filter() (an oracle given by the configuration).
//
//   CASE <name> <prop> <types> <startup> <chmap> <ival> <layout> <addr13> <filter>
//     types   u | d | s | n | comma list (multi type advertiser), e.g. u,d | - (no advertising type option)
//     startup auto | manual | dflt            chmap  all | var | dflt
//     ival    fix<ms> | var | dflt            layout def | nrf
//     addr13  12 hex digits (byte 0 first) + r|p          filter all | none | wl:<addr13>,<addr13>...
//   ops:  lstart | lstop | to | rx <hex> | start | startn <k> | stop | addch <c> | rmch <c>
//         ival <ms> | ivalus <us> | daddr <addr13> | chg <k> | dchg | connreq <hex> | scanreq <hex>
//   out:  -  |  s <channel> <delay us> <pdu type>  |  acc <addr13>  |  rej -  |  rej s ...  |  0 | 1
//
// build/<id>/<key>.d/adv_configs.inc lists the template configurations as
//   CFG( "u,d/manual/var/var/def", radio_def, T( cu, cd ), ll::no_auto_start_advertising, ... )   (CFG0 without options)
#include "verif_common.hpp"
#include <cassert>
#include <bluetoe/advertising.hpp>
#ifdef ADV_WITH_NRF_LAYOUT
// the text of nrf_details::encrypted_pdu_layout, cut out of bindings/nordic/include/bluetoe/nrf.hpp by
// props/adv_common.py on every run (nrf.hpp itself needs the vendor's register header nrf.h)
namespace bluetoe { namespace nrf_details {
#include "nrf_layout.inc"
} }
#endif
#include <link_layer/delta_time.cpp>
#include <utility/address.cpp>

namespace ll = bluetoe::link_layer;

namespace {
    struct radio_def {};
    struct radio_nrf {};
}

#ifdef ADV_WITH_NRF_LAYOUT
namespace bluetoe { namespace link_layer {
    template <> struct pdu_layout_by_radio< radio_nrf > { using pdu_layout = bluetoe::nrf_details::encrypted_pdu_layout; };
} }
#endif

namespace {
    using cu = ll::connectable_undirected_advertising;
    using cd = ll::connectable_directed_advertising;
    using cs = ll::scannable_undirected_advertising;
    using cn = ll::non_connectable_undirected_advertising;

    ll::device_address parse_addr( const std::string& s )
    {
        const auto b = verif::bytes_of_hex( s.substr( 0, 12 ) );
        return ll::device_address( b.data(), s.at( 12 ) == 'r' );
    }

    std::string show_addr( const ll::device_address& a )
    {
        return verif::hex_of_bytes( a.begin(), 6 ) + ( a.is_random() ? "r" : "p" );
    }

    struct sched_record { bool any; unsigned channel; std::uint32_t when; unsigned type; unsigned count; };

    template < class Radio, class ... Options >
    struct stub_ll : ll::details::select_advertiser_implementation< stub_ll< Radio, Options... >, Options... >
    {
        using radio_t  = Radio;
        using layout_t = typename ll::pdu_layout_by_radio< Radio >::pdu_layout;
        using adv_t    = ll::details::select_advertiser_implementation< stub_ll< Radio, Options... >, Options... >;

        stub_ll() : raw( adv_t::maximum_required_advertising_buffer() ), changed( false ), filter_all( true )
        {
            rec.any = false; rec.count = 0;
            std::memset( raw.p, 0, raw.size );   // the model's advertising buffer starts with PDU type 0
        }

        // ---- what the mixins call on the link layer
        const ll::device_address& local_address() const { return own; }
        std::size_t fill_l2cap_advertising_data( std::uint8_t* b, std::size_t n ) const
        {
            assert( n >= 3 ); b[ 0 ] = 2; b[ 1 ] = 1; b[ 2 ] = 6; return 3;
        }
        std::size_t fill_l2cap_scan_response_data( std::uint8_t*, std::size_t ) const { return 0; }
        bool l2cap_adverting_data_or_scan_response_data_changed() { const bool r = changed; changed = false; return r; }
        std::uint8_t* raw_pdu_buffer() { return raw.p; }
        void set_access_address_and_crc_init( std::uint32_t, std::uint32_t ) {}
        void schedule_advertisment( unsigned channel, const ll::write_buffer& adv, const ll::write_buffer&, ll::delta_time when, const ll::read_buffer& )
        {
            rec.any = true; rec.channel = channel; rec.when = when.usec(); ++rec.count;
            rec.type = layout_t::header( adv ) & 0x0f;
        }
        bool is_connection_request_in_filter( const ll::device_address& a ) const
        {
            if ( filter_all ) return true;
            for ( const auto& x : white ) if ( x == a ) return true;
            return false;
        }

        verif::heap_bytes                   raw;
        ll::device_address                  own;
        bool                                changed;
        bool                                filter_all;
        std::vector< ll::device_address >   white;
        sched_record                        rec;
    };

    std::string show_sched( const sched_record& r )
    {
        if ( r.count > 1 ) return "MULTI";
        if ( !r.any ) return "-";
        return "s " + std::to_string( r.channel ) + " " + std::to_string( r.when ) + " " + std::to_string( r.type );
    }

    // operations that exist only for some option sets are dispatched through these tags
    template < bool > struct when {};

    template < class Types > struct type_list;
    template < class ... Ts > struct type_list< std::tuple< Ts... > >
    {
        static constexpr std::size_t size = sizeof...( Ts );
        template < class L > static bool change( L& l, unsigned k ) { return change_impl< L, Ts... >( l, k ); }
    private:
        template < class L > static bool change_impl( L&, unsigned ) { return false; }
        template < class L, class T, class ... R > static bool change_impl( L& l, unsigned k )
        {
            if ( k == 0 ) { l.template change_advertising< T >(); return true; }
            return change_impl< L, R... >( l, k - 1 );
        }
    };

    template < class T, class ... Ts > struct contains : std::false_type {};
    template < class T, class H, class ... Ts > struct contains< T, H, Ts... > : std::integral_constant< bool, std::is_same< T, H >::value || contains< T, Ts... >::value > {};

    template < class Radio, class Types, class ... Options > struct adv_subject;

    template < class Radio, class ... Ts, class ... Options >
    struct adv_subject< Radio, std::tuple< Ts... >, Options... > : verif::subject
    {
        using link = stub_ll< Radio, Ts..., Options... >;
        using layout_t = typename link::layout_t;
        static constexpr bool manual   = contains< ll::no_auto_start_advertising, Options... >::value;
        static constexpr bool var_map  = contains< ll::variable_advertising_channel_map, Options... >::value;
        static constexpr bool var_ival = contains< ll::variable_advertising_interval, Options... >::value;
        static constexpr bool directed = contains< cd, Ts... >::value;
        static constexpr bool multi    = sizeof...( Ts ) >= 2;

        link l;

        explicit adv_subject( const std::vector< std::string >& cfg )
        {
            l.own = parse_addr( cfg.at( 6 ) );
            const std::string f = cfg.at( 7 );
            l.filter_all = f == "all";
            if ( f.compare( 0, 3, "wl:" ) == 0 )
            {
                std::istringstream in( f.substr( 3 ) ); std::string w;
                while ( std::getline( in, w, ',' ) ) l.white.push_back( parse_addr( w ) );
            }
        }

        void start( when< true > ) { l.start_advertising(); }
        void start( when< true >, unsigned k ) { l.start_advertising( k ); }
        void stop( when< true > ) { l.stop_advertising(); }
        void start( when< false > ) {}
        void start( when< false >, unsigned ) {}
        void stop( when< false > ) {}
        void addch( when< true >, unsigned c ) { l.add_channel_to_advertising_channel_map( c ); }
        void rmch( when< true >, unsigned c ) { l.remove_channel_from_advertsing_channel_map( c ); }
        void addch( when< false >, unsigned ) {}
        void rmch( when< false >, unsigned ) {}
        void ival( when< true >, unsigned ms ) { l.advertising_interval_ms( ms ); }
        void ivalus( when< true >, std::uint32_t us ) { l.advertising_interval( ll::delta_time( us ) ); }
        void ival( when< false >, unsigned ) {}
        void ivalus( when< false >, std::uint32_t ) {}
        void daddr( when< true >, const ll::device_address& a ) { l.directed_advertising_address( a ); }
        void daddr( when< false >, const ll::device_address& ) {}
        bool chg( when< true >, unsigned k ) { return type_list< std::tuple< Ts... > >::change( l, k ); }
        bool chg( when< false >, unsigned ) { return false; }

        std::string op( const std::vector< std::string >& w ) override
        {
            l.rec.any = false; l.rec.count = 0;
            const std::string& o = w[ 0 ];
            if ( o == "lstart" ) { l.handle_start_advertising(); return show_sched( l.rec ); }
            if ( o == "lstop" )  { l.handle_stop_advertising(); return show_sched( l.rec ); }
            if ( o == "to" )     { l.handle_adv_timeout(); return show_sched( l.rec ); }
            if ( o == "dchg" )   { l.changed = true; return "-"; }
            if ( o == "rx" )
            {
                verif::heap_bytes in( verif::bytes_of_hex( w.at( 1 ) ) );
                ll::device_address remote;
                const bool acc = l.handle_adv_receive( ll::read_buffer{ in.p, in.size }, remote );
                if ( acc ) return l.rec.any ? std::string( "ACC+SCHED" ) : "acc " + show_addr( remote );
                return "rej " + show_sched( l.rec );
            }
            if ( o == "connreq" )
            {
                verif::heap_bytes in( verif::bytes_of_hex( w.at( 1 ) ) );
                return ll::details::advertising_type_base::is_valid_connect_request< layout_t >( ll::read_buffer{ in.p, in.size }, l.own ) ? "1" : "0";
            }
#ifdef ADV_HAS_SCAN_PREDICATE
            if ( o == "scanreq" )
            {
                verif::heap_bytes in( verif::bytes_of_hex( w.at( 1 ) ) );
                return ll::details::advertising_type_base::is_valid_scan_request< layout_t >( ll::read_buffer{ in.p, in.size }, l.own ) ? "1" : "0";
            }
#endif
            if ( o == "start" && manual )  { start( when< manual >() ); return show_sched( l.rec ); }
            if ( o == "startn" && manual ) { start( when< manual >(), static_cast< unsigned >( std::stoul( w.at( 1 ) ) ) ); return show_sched( l.rec ); }
            if ( o == "stop" && manual )   { stop( when< manual >() ); return show_sched( l.rec ); }
            if ( o == "addch" && var_map ) { addch( when< var_map >(), std::stoul( w.at( 1 ) ) ); return show_sched( l.rec ); }
            if ( o == "rmch" && var_map )  { rmch( when< var_map >(), std::stoul( w.at( 1 ) ) ); return show_sched( l.rec ); }
            if ( o == "ival" && var_ival )   { ival( when< var_ival >(), static_cast< unsigned >( std::stoul( w.at( 1 ) ) ) ); return show_sched( l.rec ); }
            if ( o == "ivalus" && var_ival ) { ivalus( when< var_ival >(), static_cast< std::uint32_t >( std::stoul( w.at( 1 ) ) ) ); return show_sched( l.rec ); }
            if ( o == "daddr" && directed )  { daddr( when< directed >(), parse_addr( w.at( 1 ) ) ); return show_sched( l.rec ); }
            if ( o == "chg" && multi )       { return chg( when< multi >(), std::stoul( w.at( 1 ) ) ) ? show_sched( l.rec ) : "BADOP"; }
            return "BADOP";
        }
    };

    std::map< std::string, verif::factory > registry;

    template < class Radio, class Types, class ... Options >
    void reg( const char* name )
    {
        registry[ name ] = []( const std::vector< std::string >& cfg ) {
            return std::unique_ptr< verif::subject >( new adv_subject< Radio, Types, Options... >( cfg ) ); };
    }
}

int main()
{
#define T( ... ) std::tuple< __VA_ARGS__ >
#define CFG0( name, radio, types ) reg< radio, types >( name );
#define CFG( name, radio, types, ... ) reg< radio, types, __VA_ARGS__ >( name );
#include "adv_configs.inc"
    return verif::main_loop( []( const std::vector< std::string >& cfg ) -> std::unique_ptr< verif::subject > {
        if ( cfg.size() < 8 ) return nullptr;
        const std::string key = cfg[ 1 ] + "/" + cfg[ 2 ] + "/" + cfg[ 3 ] + "/" + cfg[ 4 ] + "/" + cfg[ 5 ];
        auto f = registry.find( key );
        return f == registry.end() ? nullptr : f->second( cfg );
    } );
}
