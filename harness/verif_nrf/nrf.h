// Emulated vendor header <nrf.h> for the host build of
//   bluetoe/bindings/nordic/nrf52/security_tool_box.cpp      (properties C37, C38).
// Only what that file and bluetoe/bindings/nordic/include/bluetoe/nrf.hpp mention is declared.
//
//  * NRF_RNG: TASKS_START = 1 takes the next byte of a scripted byte stream (verif_nrf::state().rng_script;
//    past its end the stream continues with zeros), puts it into VALUE and raises EVENTS_VALRDY.
//  * NRF_ECB: TASKS_STARTECB = 1 runs AES-128 on the 48 byte job structure ECBDATAPTR points to
//    (key[16] | cleartext[16] | ciphertext[16], as in the nRF52 product specification) by calling
//    verif_nrf::ecb_encrypt(), which the harness implements with tests/test_tools/aes.c, and raises
//    EVENTS_ENDECB. ECBDATAPTR is a 32 bit register: the harness is linked -no-pie so that the
//    static job structure of aes_le() lives below 4 GB (checked at run time).
//  * every other peripheral is a plain struct of words; nothing of it is executed.
#ifndef VERIF_NRF_H
#define VERIF_NRF_H
#include <stdint.h>
#include <stddef.h>
#include <vector>
#include <cstdlib>
#include <cstdio>

namespace verif_nrf {
    struct state_t {
        std::vector< uint8_t > rng_script;
        size_t   rng_pos;       // bytes drawn so far
        uint32_t rng_value, rng_valrdy;
        uint32_t ecb_ptr, ecb_end, ecb_err;
        size_t   ecb_calls;
        state_t() : rng_pos( 0 ), rng_value( 0 ), rng_valrdy( 0 ), ecb_ptr( 0 ), ecb_end( 0 ), ecb_err( 0 ), ecb_calls( 0 ) {}
    };
    inline state_t& state() { static state_t s; return s; }
    inline void reset_rng( const std::vector< uint8_t >& script ) { state().rng_script = script; state().rng_pos = 0; state().rng_valrdy = 0; }
    // provided by the harness: ciphertext = AES-128( key, cleartext ), all three in FIPS-197 byte order
    void ecb_encrypt( const uint8_t* key, const uint8_t* cleartext, uint8_t* ciphertext );

    struct rng_start_t {
        void operator=( uint32_t v ) {
            if ( !v ) return;
            state_t& s = state();
            s.rng_value = s.rng_pos < s.rng_script.size() ? s.rng_script[ s.rng_pos ] : 0;
            ++s.rng_pos;
            s.rng_valrdy = 1;
        }
    };
    struct rng_valrdy_t { operator uint32_t() const { return state().rng_valrdy; } void operator=( uint32_t v ) { state().rng_valrdy = v; } };
    struct rng_value_t  { operator uint32_t() const { return state().rng_value; } };

    struct ecb_ptr_t { operator uint32_t() const { return state().ecb_ptr; } void operator=( uint32_t v ) { state().ecb_ptr = v; } };
    struct ecb_start_t {
        void operator=( uint32_t v ) {
            if ( !v ) return;
            state_t& s = state();
            uint8_t* job = reinterpret_cast< uint8_t* >( static_cast< uintptr_t >( s.ecb_ptr ) );
            ecb_encrypt( job, job + 16, job + 32 );
            ++s.ecb_calls;
            s.ecb_end = 1;
        }
    };
    struct ecb_end_t { operator uint32_t() const { return state().ecb_end; } void operator=( uint32_t v ) { state().ecb_end = v; } };
    struct ecb_err_t { operator uint32_t() const { return state().ecb_err; } void operator=( uint32_t v ) { state().ecb_err = v; } };
}

#define __NVIC_PRIO_BITS 3
struct NRF_RADIO_Type  { volatile uint32_t BCC; };
struct NRF_TIMER_Type  { volatile uint32_t dummy; };
struct NRF_CLOCK_Type  { volatile uint32_t TASKS_HFCLKSTART, TASKS_HFCLKSTOP, TASKS_LFCLKSTART, EVENTS_HFCLKSTARTED, EVENTS_LFCLKSTARTED, LFCLKSRC; };
struct NRF_TEMP_Type   { volatile uint32_t dummy; };
struct NRF_RTC_Type    { volatile uint32_t TASKS_START, TASKS_STOP, EVTEN; };
struct NRF_CCM_Type    { volatile uint32_t ENABLE, INTENCLR; };
struct NRF_AAR_Type    { volatile uint32_t dummy; };
struct NRF_PPI_Type    { volatile uint32_t CHENSET, CHENCLR; };
struct NRF_GPIOTE_Type { volatile uint32_t dummy; };
struct NVIC_Type       { volatile uint32_t dummy; };
struct NRF_RNG_Type {
    verif_nrf::rng_start_t  TASKS_START;
    verif_nrf::rng_valrdy_t EVENTS_VALRDY;
    verif_nrf::rng_value_t  VALUE;
};
struct NRF_ECB_Type {
    verif_nrf::ecb_ptr_t    ECBDATAPTR;
    verif_nrf::ecb_start_t  TASKS_STARTECB;
    verif_nrf::ecb_end_t    EVENTS_ENDECB;
    verif_nrf::ecb_err_t    EVENTS_ERRORECB;
};
template < class T > inline T* verif_peripheral() { static T instance; return &instance; }
template < class T, int N > inline T* verif_peripheral_n() { static T instance; return &instance; }
#define NRF_RADIO  verif_peripheral< NRF_RADIO_Type >()
#define NRF_TIMER0 verif_peripheral_n< NRF_TIMER_Type, 0 >()
#define NRF_TIMER1 verif_peripheral_n< NRF_TIMER_Type, 1 >()
#define NRF_CLOCK  verif_peripheral< NRF_CLOCK_Type >()
#define NRF_TEMP   verif_peripheral< NRF_TEMP_Type >()
#define NRF_RTC0   verif_peripheral< NRF_RTC_Type >()
#define NRF_CCM    verif_peripheral< NRF_CCM_Type >()
#define NRF_AAR    verif_peripheral< NRF_AAR_Type >()
#define NRF_PPI    verif_peripheral< NRF_PPI_Type >()
#define NRF_RNG    verif_peripheral< NRF_RNG_Type >()
#define NRF_ECB    verif_peripheral< NRF_ECB_Type >()
#define NRF_GPIOTE verif_peripheral< NRF_GPIOTE_Type >()
#define NVIC       verif_peripheral< NVIC_Type >()
#define RTC_EVTEN_COMPARE0_Enabled 1u
#define RTC_EVTEN_COMPARE0_Pos 16u
#define RTC_EVTEN_COMPARE1_Enabled 1u
#define RTC_EVTEN_COMPARE1_Pos 17u
#define RTC_EVTEN_OVRFLW_Enabled 1u
#define RTC_EVTEN_OVRFLW_Pos 1u
#define CLOCK_LFCLKSRCCOPY_SRC_Pos 0u
#define CLOCK_LFCLKSRCCOPY_SRC_RC 0u
#define CLOCK_LFCLKSRCCOPY_SRC_Xtal 1u
#define CLOCK_LFCLKSRCCOPY_SRC_Synth 2u
#endif
