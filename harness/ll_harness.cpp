// Correspondence harness for component LL: the REAL bluetoe::link_layer::link_layer<> on a scripted radio.
//
//   CASE <name> <property> <variant>      property: C22 | C27 | ... (ignored here, selects the monitor on the model side)
//                                         variant: one of the LLCFG( ... ) entries of ll_configs.inc
// operations (one result line each; "pre" = not applicable in the current state, nothing is executed):
//   run                                   link_layer::run()  (first call starts advertising)
//   adv_timeout                           adv_timeout()
//   adv <hdr0 hex2> <body hex>            adv_received() with a PDU: header byte 0, length byte = body size
//   ev <evts> [<llid>:<body hex> ...]     one connection event: the PDUs are exchanged by a well behaved
//                                         central (scripted_radio.hpp), then end_event( evts );
//                                         evts = decimal bit set: 1 unacknowledged_data, 2 last_received_not_empty,
//                                         4 last_transmitted_not_empty, 8 last_received_had_more_data,
//                                         16 pending_outgoing_data, 32 error_occured
//   timeout                               timeout()
//   disconnect [<reason hex2>]            disconnect() / disconnect( reason )
//   cpu <min> <max> <latency> <timeout>   connection_parameter_update_request()
//   cpr <min> <max> <latency> <timeout>   initiating_connection_parameter_request()
//   phyreq <transmit> <receive>           phy_update_request()
//   verreq                                remote_versions_request()
//   txavail <0|1>                         make allocate_transmit_buffer() fail / work
//   cancel <0|1> <us>                     try_event_cancelation() with disarm_connection_event() -> { b, us }
//   cprreply <min> <max> <latency> <timeout> | cprneg <reason hex2>      (variant async only)
//   key <0|1>                             (variant enc only) what the toy key store answers to find_key()
//   st                                    private state: st:<state>:<event counter>:<channel index>:<time since
//                                         last event>:<procedure timeout>:<used features hex4>:<deferred opcode or ->:
//                                         <instant>:<pending flags cpr,running,sig,phy,ver,verrcv>
// result line: output items of scripted_radio.hpp plus
//   cb:<name>[:<args>]   connection callbacks, in the order they were delivered
//   ret:<0|1>            result of an API call
#include "verif_common.hpp"
#include <cassert>
#define private public
#define protected public
#include <bluetoe/link_layer.hpp>
#include <bluetoe/server.hpp>
#include <bluetoe/service.hpp>
#include <bluetoe/characteristic.hpp>
#undef private
#undef protected
#include "scripted_radio.hpp"

#include <link_layer/delta_time.cpp>
#include <link_layer/channel_map.cpp>
#include <link_layer/connection_details.cpp>
#include <utility/address.cpp>

namespace {
    using namespace verif_ll;
    namespace ll = bluetoe::link_layer;

    std::uint8_t plain_value = 0x42;
    std::uint8_t secret_value = 0x17;

    using plain_server = bluetoe::server<
        bluetoe::no_gap_service_for_gatt_servers,
        bluetoe::service<
            bluetoe::service_uuid16< 0x1234 >,
            bluetoe::characteristic<
                bluetoe::characteristic_uuid16< 0x5678 >,
                bluetoe::bind_characteristic_value< std::uint8_t, &plain_value > > > >;

    using secret_server = bluetoe::server<
        bluetoe::no_gap_service_for_gatt_servers,
        bluetoe::service<
            bluetoe::service_uuid16< 0x1234 >,
            bluetoe::characteristic<
                bluetoe::characteristic_uuid16< 0x5678 >,
                bluetoe::bind_characteristic_value< std::uint8_t, &secret_value >,
                bluetoe::no_write_access >,
            bluetoe::requires_encryption > >;

    // ---------------------------------------------------------------------------------------- callbacks
    std::string details_text( const ll::connection_details& d )
    {
        return num( d.interval() ) + "," + num( d.latency() ) + "," + num( d.timeout() ) + "," + num( d.cumulated_sleep_clock_accuracy_ppm() );
    }

    struct callbacks_t
    {
        template < class C > void ll_connection_requested( const ll::connection_details& d, const ll::connection_addresses&, C& ) { item( "cb:requested:" + details_text( d ) ); }
        template < class C > void ll_connection_attempt_timeout( C& ) { item( "cb:attempt_timeout" ); }
        template < class C > void ll_connection_established( const ll::connection_details& d, const ll::connection_addresses&, C& ) { item( "cb:established:" + details_text( d ) ); }
        template < class C > void ll_connection_changed( const ll::connection_details& d, C& ) { item( "cb:changed:" + details_text( d ) ); }
        template < class C > void ll_connection_closed( std::uint8_t reason, C& ) { item( "cb:closed:" + hexn( reason, 2 ) ); }
        template < class C > void ll_version( std::uint8_t v, std::uint16_t company, std::uint16_t sub, C& ) { item( "cb:version:" + hexn( v, 2 ) + "," + hexn( company, 4 ) + "," + hexn( sub, 4 ) ); }
        template < class C > void ll_rejected( std::uint8_t e, C& ) { item( "cb:rejected:" + hexn( e, 2 ) ); }
        template < class C > void ll_unknown( std::uint8_t o, C& ) { item( "cb:unknown:" + hexn( o, 2 ) ); }
        template < class C > void ll_remote_features( std::uint8_t f[ 8 ], C& ) { item( "cb:features:" + verif::hex_of_bytes( f, 8 ) ); }
        template < class C > void ll_phy_updated( ll::phy_ll_encoding::phy_ll_encoding_t t, ll::phy_ll_encoding::phy_ll_encoding_t r, C& ) { item( "cb:phy:" + num( t ) + "," + num( r ) ); }
    } callbacks;

    struct cpr_callback_t
    {
        void ll_remote_connection_parameter_request( std::uint16_t mi, std::uint16_t ma, std::uint16_t la, std::uint16_t to )
        {
            item( "cb:cpr:" + num( mi ) + "," + num( ma ) + "," + num( la ) + "," + num( to ) );
        }
    } cpr_callback;

    // ---------------------------------------------------------------------------------------- toy security manager
    // (as the mock in tests/link_layer/ll_encryption_tests.cpp): the key store is one scripted answer
    bool key_known = false;
    const bluetoe::details::uint128_t toy_key = { { 0x01, 0x80, 0x02, 0x70, 0x03, 0x60, 0x04, 0x50, 0x05, 0x40, 0x06, 0x30, 0x07, 0x20, 0x08, 0x10 } };

    struct toy_security_manager
    {
        template < typename ... >
        class impl
        {
        public:
            template < class OtherConnectionData >
            class channel_data_t : public OtherConnectionData
            {
            public:
                std::pair< bool, bluetoe::details::uint128_t > find_key( std::uint16_t ediv, std::uint64_t rand ) const
                {
                    item( "findkey:" + hexn( ediv, 4 ) + ":" + hexn( rand >> 32, 8 ) + hexn( rand & 0xffffffffu, 8 ) );
                    return { key_known, key_known ? toy_key : bluetoe::details::uint128_t{ { 0 } } };
                }
                void remote_connection_created( const ll::device_address& ) {}
                bluetoe::device_pairing_status local_device_pairing_status() const { return bluetoe::device_pairing_status::no_key; }
                template < typename Connection > void restore_bonded_cccds( Connection& ) {}
            };
            template < class Connection > void l2cap_input( const std::uint8_t*, std::size_t, std::uint8_t*, std::size_t& out, Connection& ) { out = 0; }
            template < class Connection > bool security_manager_output_available( Connection& ) const { return false; }
            template < class Connection > void l2cap_output( std::uint8_t*, std::size_t& out, Connection& ) { out = 0; }
            static constexpr std::uint16_t channel_id               = bluetoe::l2cap_channel_ids::sm;
            static constexpr std::size_t   minimum_channel_mtu_size = bluetoe::details::default_att_mtu_size;
            static constexpr std::size_t   maximum_channel_mtu_size = bluetoe::details::default_att_mtu_size;
        };
        struct meta_type : bluetoe::details::security_manager_meta_type, ll::details::valid_link_layer_option_meta_type {};
    };

    // ---------------------------------------------------------------------------------------- variants
    using addr_opt  = ll::static_address< 0xc0, 0x0f, 0x15, 0x08, 0x11, 0x47 >;   // AdvA 47:11:08:15:0f:c0 in air order
    using sizes_opt = ll::buffer_sizes< 1000, 2000 >;
    using cb_opt    = ll::connection_callbacks< callbacks_t, callbacks >;

    using ll_base    = ll::link_layer< plain_server, radio_2m, addr_opt, sizes_opt, cb_opt, ll::sleep_clock_accuracy_ppm< 100 > >;
    using ll_nophy   = ll::link_layer< plain_server, radio_1m, addr_opt, sizes_opt, cb_opt >;
    using ll_desired = ll::link_layer< plain_server, radio_1m, addr_opt, sizes_opt, cb_opt,
                           ll::desired_connection_parameters< 10, 40, 1, 5, 100, 300 > >;
    using ll_async   = ll::link_layer< plain_server, radio_1m, addr_opt, sizes_opt, cb_opt,
                           ll::asynchronous_connection_parameter_request< cpr_callback_t, cpr_callback > >;
    using ll_enc     = ll::link_layer< secret_server, radio_2m_enc, addr_opt, sizes_opt, cb_opt, toy_security_manager >;
    using ll_nocb    = ll::link_layer< plain_server, radio_2m, addr_opt, sizes_opt, ll::peripheral_latency_ignored >;

    template < class L > struct is_async : std::false_type {};
    template <> struct is_async< ll_async > : std::true_type {};

    template < class L >
    struct ll_subject : verif::subject
    {
        std::unique_ptr< L > l;
        using state_t = typename L::state;

        ll_subject() : l( new L ) { key_known = false; log().clear(); }

        bool advertising() const { return l->state_ == state_t::advertising; }
        bool in_connection() const
        {
            return l->state_ == state_t::connecting || l->state_ == state_t::connected
                || l->state_ == state_t::disconnecting || l->state_ == state_t::connection_changed;
        }

        static const char* state_name( state_t s )
        {
            switch ( s ) {
                case state_t::initial: return "initial"; case state_t::advertising: return "advertising";
                case state_t::connecting: return "connecting"; case state_t::connected: return "connected";
                case state_t::disconnecting: return "disconnecting"; case state_t::connection_changed: return "connection_changed";
            }
            return "?";
        }

        void cpr_reply( const std::vector< std::string >& w, std::true_type )
        {
            if ( w[ 0 ] == "cprreply" ) l->connection_parameters_request_reply( std::stoul( w.at( 1 ) ), std::stoul( w.at( 2 ) ), std::stoul( w.at( 3 ) ), std::stoul( w.at( 4 ) ) );
            else l->connection_parameters_request_negative_reply( std::stoul( w.at( 1 ), nullptr, 16 ) );
        }
        void cpr_reply( const std::vector< std::string >&, std::false_type ) { item( "BADOP" ); }

        std::string op( const std::vector< std::string >& w ) override
        {
            const std::string& o = w[ 0 ];
            if ( o == "run" )
            {
                l->run();
            }
            else if ( o == "adv_timeout" )
            {
                if ( !advertising() ) return "pre";
                l->adv_timeout();
            }
            else if ( o == "adv" )
            {
                if ( !advertising() ) return "pre";
                const auto body = verif::bytes_of_hex( w.at( 2 ) );
                if ( body.size() > 255 ) return "BADOP";
                // an exactly sized heap copy in the radio's memory layout (default layout: 2 byte header + body)
                std::vector< std::uint8_t > mem = { std::uint8_t( std::stoul( w.at( 1 ), nullptr, 16 ) ), std::uint8_t( body.size() ) };
                mem.insert( mem.end(), body.begin(), body.end() );
                verif::heap_bytes copy( mem );
                l->adv_received( ll::read_buffer{ copy.p, copy.size } );
                if ( l->state_ == state_t::connecting ) l->new_connection();
            }
            else if ( o == "ev" )
            {
                if ( !in_connection() ) return "pre";
                const unsigned e = std::stoul( w.at( 1 ) );
                std::vector< air_pdu > pdus;
                for ( std::size_t i = 2; i < w.size(); ++i )
                {
                    const auto colon = w[ i ].find( ':' );
                    if ( colon == std::string::npos ) return "BADOP";
                    air_pdu p{ unsigned( std::stoul( w[ i ].substr( 0, colon ) ) ), verif::bytes_of_hex( w[ i ].substr( colon + 1 ) ) };
                    if ( p.body.size() > 27 ) return "BADOP";
                    pdus.push_back( p );
                }
                l->connection_event( pdus );
                l->end_event( ll::connection_event_events( e & 1, e & 2, e & 4, e & 8, e & 16, e & 32 ) );
            }
            else if ( o == "timeout" )
            {
                if ( !in_connection() ) return "pre";
                l->timeout();
            }
            else if ( o == "disconnect" )
            {
                if ( !in_connection() ) return "pre";
                if ( w.size() > 1 ) l->disconnect( std::stoul( w[ 1 ], nullptr, 16 ) ); else l->disconnect();
            }
            else if ( o == "cpu" || o == "cpr" )
            {
                if ( !in_connection() ) return "pre";
                const bool r = o == "cpu"
                    ? l->connection_parameter_update_request( std::stoul( w.at( 1 ) ), std::stoul( w.at( 2 ) ), std::stoul( w.at( 3 ) ), std::stoul( w.at( 4 ) ) )
                    : l->initiating_connection_parameter_request( std::stoul( w.at( 1 ) ), std::stoul( w.at( 2 ) ), std::stoul( w.at( 3 ) ), std::stoul( w.at( 4 ) ) );
                item( std::string( "ret:" ) + ( r ? "1" : "0" ) );
            }
            else if ( o == "phyreq" )
            {
                if ( !in_connection() ) return "pre";
                item( std::string( "ret:" ) + ( l->phy_update_request( std::stoul( w.at( 1 ) ), std::stoul( w.at( 2 ) ) ) ? "1" : "0" ) );
            }
            else if ( o == "verreq" )
            {
                if ( !in_connection() ) return "pre";
                item( std::string( "ret:" ) + ( l->remote_versions_request() ? "1" : "0" ) );
            }
            else if ( o == "txavail" )
            {
                l->script.tx_available = w.at( 1 ) != "0";
            }
            else if ( o == "cancel" )
            {
                l->script.disarm_result = w.at( 1 ) != "0";
                l->script.disarm_time   = std::stoul( w.at( 2 ) );
                l->try_event_cancelation();
            }
            else if ( o == "cprreply" || o == "cprneg" )
            {
                cpr_reply( w, is_async< L >() );
            }
            else if ( o == "key" )
            {
                key_known = w.at( 1 ) != "0";
            }
            else if ( o == "st" )
            {
                std::string d = "-";
                if ( !l->defered_ll_control_pdu_.empty() )
                    d = hexn( L::layout_t::body( l->defered_ll_control_pdu_ ).first[ 0 ], 2 );
                const bool conn = in_connection();
                item( std::string( "st:" ) + state_name( l->state_ )
                    + ":" + num( conn ? l->connection_event_counter() : 0 )
                    + ":" + num( conn ? l->current_channel_index() : 0 )
                    + ":" + num( conn ? l->time_since_last_event().usec() : 0 )
                    + ":" + num( conn ? l->procedure_timeout_.usec() : 0 )
                    + ":" + hexn( conn ? l->used_features_ : 0, 4 )
                    + ":" + d
                    + ":" + num( d == "-" ? 0 : l->defered_conn_event_counter_ )
                    + ":" + ( conn ? num( l->connection_parameters_request_pending_ ) + num( l->connection_parameters_request_running_ )
                                   + num( l->connection_parameters_request_use_signaling_channel_ ) + num( l->phy_update_request_pending_ )
                                   + num( l->remote_versions_request_pending_ ) + num( l->version_indication_received_ )
                                   : std::string( "000000" ) ) );
            }
            else
                return "BADOP";
            return take_line();
        }
    };
}

#define LLCFG( name ) if ( cfg.size() > 1 && cfg[ 1 ] == #name ) return std::unique_ptr< verif::subject >( new ll_subject< ll_##name >() );

int main()
{
    return verif::main_loop( []( const std::vector< std::string >& cfg ) -> std::unique_ptr< verif::subject > {
#include "ll_configs.inc"
        return nullptr;
    } );
}
