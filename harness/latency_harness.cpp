// Correspondence harness for bluetoe/link_layer/include/bluetoe/peripheral_latency.hpp (C23).
// build/C23/<key>.d/latency_configs.inc (written by props/C23.py) registers one subject per
// configuration:   reg< peripheral_latency_configuration< o0, o4 > >( "c:04" );
//                  reg_set< conf< o0 >, conf<> >( "s:0/-" );
// ops:     reset | plan <lat> <flags> <iv> <pend> <instant> | tmo <iv> | resched <ok> <t> <iv>
//          | move <count> <iv> | change <k>
// result:  <ret> <connection_event_counter()> <current_channel_index()> <time_since_last_event().usec()> <last_latency_ or ->
#include "verif_common.hpp"
#include <cassert>
#include <utility>
#include <type_traits>
#define private public
#include <bluetoe/meta_tools.hpp>
#include <bluetoe/delta_time.hpp>
#include <bluetoe/channel_map.hpp>
#include <bluetoe/peripheral_latency.hpp>
#undef private
#include <link_layer/delta_time.cpp>

namespace {
    namespace ll = bluetoe::link_layer;
    using PL = ll::peripheral_latency;
    constexpr PL o0 = PL::listen_if_pending_transmit_data;
    constexpr PL o1 = PL::listen_if_unacknowledged_data;
    constexpr PL o2 = PL::listen_if_last_received_not_empty;
    constexpr PL o3 = PL::listen_if_last_transmitted_not_empty;
    constexpr PL o4 = PL::listen_if_last_received_had_more_data;
    constexpr PL o5 = PL::listen_always;
    template < PL ... O > using conf = ll::peripheral_latency_configuration< O... >;

    // the scheduled radio as far as reschedule_on_pending_data() needs it
    struct scripted_radio
    {
        std::pair< bool, ll::delta_time > result;
        std::pair< bool, ll::delta_time > disarm_connection_event() { return result; }
    };

    template < class S >
    std::string recorded_skip( const ll::details::disarmable_connection_state< std::true_type, S >& b ) { return std::to_string( b.last_latency_ ); }
    template < class S >
    std::string recorded_skip( const ll::details::disarmable_connection_state< std::false_type, S >& ) { return "-"; }

    // change_peripheral_latency< k-th configuration >()
    template < class State, class ... Cs > struct changer { static void go( State&, long ) {} };
    template < class State, class C, class ... Cs >
    struct changer< State, C, Cs... >
    {
        static void go( State& s, long k )
        {
            if ( k == 0 ) s.template change_peripheral_latency< C >(); else changer< State, Cs... >::go( s, k - 1 );
        }
    };

    template < class Config > struct change_op { template < class State > static void go( State&, long ) {} };
    template < class ... Cs >
    struct change_op< ll::peripheral_latency_configuration_set< Cs... > >
    {
        template < class State > static void go( State& s, long k ) { if ( k >= 0 ) changer< State, Cs... >::go( s, k ); }
    };

    std::uint32_t u32( const std::string& s ) { return static_cast< std::uint32_t >( std::stoull( s ) ); }
    std::uint16_t u16( const std::string& s ) { return static_cast< std::uint16_t >( std::stoull( s ) ); }

    // an operation line, parsed once outside the per-configuration template code
    struct parsed_op
    {
        enum { reset, plan, tmo, resched, move, change, bad } kind;
        std::uint16_t lat, instant; std::uint32_t iv, t; bool flag, ev[ 6 ]; long n;
    };

    parsed_op parse( const std::vector< std::string >& w )
    {
        parsed_op p = parsed_op();
        p.kind = parsed_op::bad;
        if ( w[ 0 ] == "reset" ) p.kind = parsed_op::reset;
        else if ( w[ 0 ] == "plan" )
        {
            p.kind = parsed_op::plan; p.lat = u16( w.at( 1 ) ); p.iv = u32( w.at( 3 ) ); p.flag = w.at( 4 ) == "1"; p.instant = u16( w.at( 5 ) );
            for ( int i = 0; i != 6; ++i ) p.ev[ i ] = w.at( 2 ).at( i ) == '1';
        }
        else if ( w[ 0 ] == "tmo" ) { p.kind = parsed_op::tmo; p.iv = u32( w.at( 1 ) ); }
        else if ( w[ 0 ] == "resched" ) { p.kind = parsed_op::resched; p.flag = w.at( 1 ) == "1"; p.t = u32( w.at( 2 ) ); p.iv = u32( w.at( 3 ) ); }
        else if ( w[ 0 ] == "move" ) { p.kind = parsed_op::move; p.n = std::stol( w.at( 1 ) ); p.iv = u32( w.at( 2 ) ); }
        else if ( w[ 0 ] == "change" ) { p.kind = parsed_op::change; p.n = std::stol( w.at( 1 ) ); }
        return p;
    }

    struct snapshot { int ret; unsigned counter, channel; std::uint32_t time; std::string skip; };

    struct latency_subject_base : verif::subject
    {
        virtual snapshot exec( const parsed_op& ) = 0;
        std::string op( const std::vector< std::string >& w ) override
        {
            const parsed_op p = parse( w );
            if ( p.kind == parsed_op::bad ) return "BADOP";
            const snapshot s = exec( p );
            return std::string( s.ret < 0 ? "-" : s.ret ? "1" : "0" ) + " " + std::to_string( s.counter ) + " " + std::to_string( s.channel )
                 + " " + std::to_string( s.time ) + " " + s.skip;
        }
    };

    template < class Config >
    struct latency_subject : latency_subject_base
    {
        using state_t = ll::details::peripheral_latency_state< Config >;
        state_t st;
        latency_subject() { st.reset_connection_state(); }

        snapshot exec( const parsed_op& p ) override
        {
            int ret = -1;
            switch ( p.kind )
            {
            case parsed_op::reset: st.reset_connection_state(); break;
            case parsed_op::plan:
                {
                    ll::connection_event_events ev;
                    ev.unacknowledged_data         = p.ev[ 0 ];
                    ev.last_received_not_empty     = p.ev[ 1 ];
                    ev.last_transmitted_not_empty  = p.ev[ 2 ];
                    ev.last_received_had_more_data = p.ev[ 3 ];
                    ev.pending_outgoing_data       = p.ev[ 4 ];
                    ev.error_occured               = p.ev[ 5 ];
                    st.plan_next_connection_event( p.lat, ev, ll::delta_time( p.iv ), std::pair< bool, std::uint16_t >( p.flag, p.instant ) );
                }
                break;
            case parsed_op::tmo: st.plan_next_connection_event_after_timeout( ll::delta_time( p.iv ) ); break;
            case parsed_op::resched:
                {
                    scripted_radio radio{ { p.flag, ll::delta_time( p.t ) } };
                    ret = st.reschedule_on_pending_data( radio, ll::delta_time( p.iv ) ) ? 1 : 0;
                }
                break;
            case parsed_op::move: st.peripheral_latency_move_connection_event( static_cast< int >( p.n ), ll::delta_time( p.iv ) ); break;
            case parsed_op::change: change_op< Config >::go( st, p.n ); break;
            default: break;
            }
            return snapshot{ ret, st.connection_event_counter(), st.current_channel_index(), st.time_since_last_event().usec(), recorded_skip< state_t >( st ) };
        }
    };

    std::map< std::string, verif::factory > registry;

    template < class Config >
    void reg( const char* name )
    {
        registry[ name ] = []( const std::vector< std::string >& ) { return std::unique_ptr< verif::subject >( new latency_subject< Config >() ); };
    }

    template < class ... Cs >
    void reg_set( const char* name ) { reg< ll::peripheral_latency_configuration_set< Cs... > >( name ); }
}

int main()
{
#include "latency_configs.inc"
    return verif::main_loop( []( const std::vector< std::string >& cfg ) -> std::unique_ptr< verif::subject > {
        auto f = registry.find( cfg.at( 0 ) );
        return f == registry.end() ? nullptr : f->second( cfg );
    } );
}
