// Correspondence harness for the cycling speed and cadence control point (C40):
// the real bluetoe::server< cycling_speed_and_cadence< ... > > driven through l2cap_input /
// l2cap_output with one connection, the notification callback queueing into the connection's
// real notification_queue (as the link layer does).
//   cfg word: A (3 sensor locations, wheel+crank)  B (1 location, wheel)  C (2 locations, crank only)
//   ops: cccd <v> | w <hex> | wc <hex> | confirm | out <n> | hvc | hvcbad | disc | rd
#include "verif_common.hpp"
#include <bluetoe/services/csc.hpp>
#include <bluetoe/server.hpp>
#include <new>

namespace {
    class data_handler
    {
    public:
        data_handler() : time_( 0 ), wheel_( 0 ), crank_( 0 ) {}
        std::pair< std::uint32_t, std::uint16_t > cumulative_wheel_revolutions_and_time() { return { wheel_, time_ }; }
        std::pair< std::uint16_t, std::uint16_t > cumulative_crank_revolutions_and_time() { return { crank_, time_ }; }
        void set_cumulative_wheel_revolutions( std::uint32_t v ) { wheel_ = v; }
        std::uint32_t wheel() const { return wheel_; }
    private:
        std::uint16_t time_; std::uint32_t wheel_; std::uint16_t crank_;
    };

    using server_a = bluetoe::server< bluetoe::cycling_speed_and_cadence<
        bluetoe::sensor_location::top_of_shoe, bluetoe::sensor_location::in_shoe, bluetoe::sensor_location::hip,
        bluetoe::csc::wheel_revolution_data_supported, bluetoe::csc::crank_revolution_data_supported,
        bluetoe::csc::handler< data_handler > >, bluetoe::no_gap_service_for_gatt_servers >;
    using server_b = bluetoe::server< bluetoe::cycling_speed_and_cadence<
        bluetoe::sensor_location::top_of_shoe,
        bluetoe::csc::wheel_revolution_data_supported,
        bluetoe::csc::handler< data_handler > >, bluetoe::no_gap_service_for_gatt_servers >;
    using server_c = bluetoe::server< bluetoe::cycling_speed_and_cadence<
        bluetoe::sensor_location::top_of_shoe, bluetoe::sensor_location::left_crank,
        bluetoe::csc::crank_revolution_data_supported,
        bluetoe::csc::handler< data_handler > >, bluetoe::no_gap_service_for_gatt_servers >;

    template < class Server >
    struct csc_subject : verif::subject
    {
        using connection_t = typename Server::template channel_data_t< bluetoe::details::link_state >;

        // zero-filled storage: control_point_handler::current_opcode_ is not initialised by its constructor
        void*           mem;
        Server*         srv;
        connection_t*   con;
        std::uint16_t   cp_handle, cccd_handle;

        csc_subject() : mem( std::calloc( 1, sizeof( Server ) ) ), srv( new ( mem ) Server() ), con( new connection_t() )
        {
            srv->notification_callback( &cb, this );
            discover();
        }
        ~csc_subject() { srv->~Server(); std::free( mem ); delete con; }

        static bool cb( const bluetoe::details::notification_data& item, void* that, bluetoe::details::notification_type type )
        {
            auto& c = *static_cast< csc_subject* >( that )->con;
            switch ( type )
            {
                case bluetoe::details::notification_type::notification: return c.queue_notification( item.client_characteristic_configuration_index() );
                case bluetoe::details::notification_type::indication:   return c.queue_indication( item.client_characteristic_configuration_index() );
                case bluetoe::details::notification_type::confirmation: c.indication_confirmed(); return true;
            }
            return true;
        }

        std::vector< std::uint8_t > request( const std::vector< std::uint8_t >& pdu, std::size_t out_cap = 23 )
        {
            verif::heap_bytes in( pdu ); verif::heap_bytes out( out_cap );
            std::size_t out_size = out_cap;
            srv->l2cap_input( in.p, in.size, out.p, out_size, *con );
            return std::vector< std::uint8_t >( out.p, out.p + out_size );
        }

        void discover()
        {
            cp_handle = cccd_handle = 0;
            std::uint16_t start = 1;
            for ( int guard = 0; guard != 64 && start != 0; ++guard )
            {
                const auto r = request( { 0x04, std::uint8_t( start & 0xff ), std::uint8_t( start >> 8 ), 0xff, 0xff } );
                if ( r.size() < 6 || r[ 0 ] != 0x05 || r[ 1 ] != 1 ) break;
                for ( std::size_t i = 2; i + 3 < r.size() + 0 && i + 4 <= r.size(); i += 4 )
                {
                    const std::uint16_t h = r[ i ] | ( r[ i + 1 ] << 8 ), u = r[ i + 2 ] | ( r[ i + 3 ] << 8 );
                    if ( u == 0x2A55 ) cp_handle = h;
                    if ( u == 0x2902 && cp_handle && h > cp_handle && !cccd_handle ) cccd_handle = h;
                    start = h + 1;
                }
            }
        }

        static std::string status( const std::vector< std::uint8_t >& r, std::uint8_t ok_opcode )
        {
            if ( r.size() >= 1 && r[ 0 ] == ok_opcode ) return "ok";
            if ( r.size() == 5 && r[ 0 ] == 0x01 ) return "err " + std::to_string( r[ 4 ] );
            return "resp " + verif::hex_of_bytes( r.data(), r.size() );
        }

        std::string op( const std::vector< std::string >& w ) override
        {
            if ( w[ 0 ] == "handles" ) return std::to_string( cp_handle ) + " " + std::to_string( cccd_handle );
            if ( w[ 0 ] == "cccd" )
            {
                const unsigned v = std::stoul( w[ 1 ] );
                return status( request( { 0x12, std::uint8_t( cccd_handle & 0xff ), std::uint8_t( cccd_handle >> 8 ), std::uint8_t( v & 0xff ), std::uint8_t( v >> 8 ) } ), 0x13 );
            }
            if ( w[ 0 ] == "w" || w[ 0 ] == "wc" )
            {
                std::vector< std::uint8_t > pdu = { std::uint8_t( w[ 0 ] == "w" ? 0x12 : 0x52 ), std::uint8_t( cp_handle & 0xff ), std::uint8_t( cp_handle >> 8 ) };
                const auto v = verif::bytes_of_hex( w[ 1 ] );
                pdu.insert( pdu.end(), v.begin(), v.end() );
                const auto r = request( pdu );
                if ( w[ 0 ] == "wc" ) return r.empty() ? "-" : "resp " + verif::hex_of_bytes( r.data(), r.size() );
                return status( r, 0x13 );
            }
            if ( w[ 0 ] == "rd" )
            {
                const auto r = request( { 0x0a, std::uint8_t( cp_handle & 0xff ), std::uint8_t( cp_handle >> 8 ) } );
                return status( r, 0x0b );
            }
            if ( w[ 0 ] == "confirm" ) { srv->confirm_cumulative_wheel_revolutions( *srv ); return "-"; }
            if ( w[ 0 ] == "out" )
            {
                const std::size_t cap = std::stoul( w[ 1 ] );
                verif::heap_bytes out( cap ); std::size_t out_size = cap;
                srv->l2cap_output( out.p, out_size, *con );
                if ( out_size > cap ) return "OVERFLOW " + std::to_string( out_size );
                // the control point's handle is replaced by the symbol cp so that traces do not depend on handle numbering
                if ( out_size >= 3 && ( out.p[ 1 ] | ( out.p[ 2 ] << 8 ) ) == cp_handle )
                    return std::string( out.p[ 0 ] == 0x1d ? "ind " : "ntf " ) + verif::hex_of_bytes( out.p + 3, out_size - 3 );
                return verif::hex_of_bytes( out.p, out_size );
            }
            if ( w[ 0 ] == "hvc" ) { const auto r = request( { 0x1e } ); return r.empty() ? "-" : "resp " + verif::hex_of_bytes( r.data(), r.size() ); }
            if ( w[ 0 ] == "hvcbad" ) { const auto r = request( { 0x1e, 0x00 } ); return r.empty() ? "-" : "resp " + verif::hex_of_bytes( r.data(), r.size() ); }
            if ( w[ 0 ] == "disc" )
            {
                srv->client_disconnected( *con );
                delete con; con = new connection_t();
                return "-";
            }
            if ( w[ 0 ] == "wheel" ) return std::to_string( static_cast< data_handler& >( *srv ).wheel() );
            return "BADOP";
        }
    };
}

int main()
{
    return verif::main_loop( []( const std::vector< std::string >& cfg ) -> std::unique_ptr< verif::subject > {
        if ( cfg.at( 0 ) == "A" ) return std::unique_ptr< verif::subject >( new csc_subject< server_a >() );
        if ( cfg.at( 0 ) == "B" ) return std::unique_ptr< verif::subject >( new csc_subject< server_b >() );
        if ( cfg.at( 0 ) == "C" ) return std::unique_ptr< verif::subject >( new csc_subject< server_c >() );
        return nullptr;
    } );
}
