// Correspondence harness for property C13: producer (queue_notification / queue_indication) and
// consumer (dequeue_indication_or_confirmation / indication_confirmed) of one
// bluetoe::notification_queue run as two coroutines; every access to a queue byte (queue_[] of a
// packed level, state_ of a level of size 1) is one scheduling point, so that the runner can
// replay the model's schedules micro-step by micro-step on the real code.
//
// nqueuesched_subject.hpp (written by props/C13.py on every run, from the current source tree)
// is bluetoe/notification_queue.hpp with the element type of the two storage declarations
// replaced by BLUETOE_VERIF_QUEUE_BYTE - or simply an #include of the real header once that
// carries the hook of docs/C13-hook.patch.
// nqueuesched_configs.inc lists the size tuples as CFG(3,1,2).
#include "verif_common.hpp"
#include <ucontext.h>
#include <utility>
#include <cassert>
#include <cstddef>
#if defined(__has_include)
#  if __has_include(<sanitizer/common_interface_defs.h>)
#    include <sanitizer/common_interface_defs.h>
#    define VERIF_FIBER_API 1
#  endif
#endif

namespace verif {
    // ---- scheduling points -------------------------------------------------------------------
    struct access_rec { char kind; const void* where; unsigned value; };

    struct fiber
    {
        ucontext_t              ctx;
        std::vector< char >     stack;
        bool                    alive;      // an operation is in progress
        bool                    finished;   // the operation returned during the last resume
        std::function< void() > body;
        fiber() : alive( false ), finished( false ) {}
    };

    static ucontext_t   main_ctx;
    static fiber*       current = nullptr;          // fiber that is executing (nullptr: main context)
    static std::vector< access_rec > accesses;      // accesses performed during the last resume

    static void switch_to( ucontext_t* from, ucontext_t* to, const void* to_stack, std::size_t to_size )
    {
#ifdef VERIF_FIBER_API
        void* fake = nullptr;
        __sanitizer_start_switch_fiber( &fake, to_stack, to_size );
#endif
        swapcontext( from, to );
#ifdef VERIF_FIBER_API
        __sanitizer_finish_switch_fiber( fake, nullptr, nullptr );
#endif
    }

    static const void*  main_stack_bottom = nullptr;
    static std::size_t  main_stack_size = 0;

    // called by the byte type before every access: give the control back to the scheduler
    static void scheduling_point()
    {
        if ( !current ) return;         // construction / clear / inspection from the main context
        fiber* self = current;
        current = nullptr;
        switch_to( &self->ctx, &main_ctx, main_stack_bottom, main_stack_size );
        current = self;
    }

    static void fiber_entry()
    {
#ifdef VERIF_FIBER_API
        __sanitizer_finish_switch_fiber( nullptr, &main_stack_bottom, &main_stack_size );
#endif
        fiber* self = current;
        self->body();
        self->finished = true;
        current = nullptr;
#ifdef VERIF_FIBER_API
        __sanitizer_start_switch_fiber( nullptr, main_stack_bottom, main_stack_size );  // fiber dies
#endif
        setcontext( &main_ctx );
    }

    static void resume( fiber& f )
    {
        current = &f;
        switch_to( &main_ctx, &f.ctx, f.stack.data(), f.stack.size() );
        current = nullptr;
    }

    static void start( fiber& f, std::function< void() > body )
    {
        f.body = std::move( body );
        if ( f.stack.empty() ) f.stack.assign( 128 * 1024, 0 );
        f.alive = true; f.finished = false;
        getcontext( &f.ctx );
        f.ctx.uc_stack.ss_sp = f.stack.data();
        f.ctx.uc_stack.ss_size = f.stack.size();
        f.ctx.uc_link = nullptr;
        makecontext( &f.ctx, fiber_entry, 0 );
        resume( f );        // thread-local prefix of the operation, up to its first byte access
    }

    // ---- the byte type substituted for std::uint8_t in the queue storage -----------------------
    class ybyte
    {
    public:
        ybyte() : v_( 0 ) {}
        ybyte( int v ) : v_( static_cast< std::uint8_t >( v ) ) {}
        operator std::uint8_t() const { return load(); }
        ybyte& operator=( int v ) { store( v ); return *this; }
        ybyte& operator|=( int v ) { const int t = load(); store( t | v ); return *this; }
        ybyte& operator&=( int v ) { const int t = load(); store( t & v ); return *this; }
        std::uint8_t peek() const { return v_; }
    private:
        std::uint8_t load() const
        {
            scheduling_point();
            const std::uint8_t v = v_;
            if ( current ) accesses.push_back( access_rec{ 'L', this, v } );
            return v;
        }
        void store( int v )
        {
            scheduling_point();
            v_ = static_cast< std::uint8_t >( v );
            if ( current ) accesses.push_back( access_rec{ 'S', this, v_ } );
        }
        volatile std::uint8_t v_;
    };
    static_assert( sizeof( ybyte ) == 1, "one byte of storage" );
}

#define BLUETOE_VERIF_QUEUE_BYTE ::verif::ybyte
#define private public
#include "nqueuesched_subject.hpp"
#undef private

namespace {
    namespace bd = bluetoe::details;
    struct mixin {};

    struct level_info { const verif::ybyte* bytes; std::size_t size; const std::size_t* next; };

    template < int S, int C >
    level_info info( bd::notification_queue_impl< S, C >& l )
    {
        return level_info{ &l.queue_[ 0 ], sizeof( l.queue_ ) / sizeof( l.queue_[ 0 ] ), &l.next_ };
    }
    template < int C >
    level_info info( bd::notification_queue_impl< 1, C >& l )
    {
        return level_info{ &l.state_, 1, nullptr };
    }

    template < class Sizes, int C > struct walker;
    template < int C > struct walker< std::tuple<>, C >
    {
        static void run( bd::notification_queue_impl_base< std::tuple<>, C >&, std::vector< level_info >& ) {}
    };
    template < int S, class ... Ts, int C >
    struct walker< std::tuple< std::integral_constant< int, S >, Ts... >, C >
    {
        using base_t = bd::notification_queue_impl_base< std::tuple< std::integral_constant< int, S >, Ts... >, C >;
        static void run( base_t& b, std::vector< level_info >& out )
        {
            // C style casts: the bases are (were) private
            out.push_back( info( ( bd::notification_queue_impl< S, C >& )b ) );
            walker< std::tuple< Ts... >, C + 1 >::run( ( bd::notification_queue_impl_base< std::tuple< Ts... >, C + 1 >& )b, out );
        }
    };

    template < int ... S >
    struct sched_subject : verif::subject
    {
        using sizes = std::tuple< std::integral_constant< int, S >... >;
        using queue_t = bluetoe::notification_queue< sizes, mixin >;
        queue_t q;
        std::vector< level_info > levels;

        struct thread
        {
            std::vector< std::vector< std::string > > prog;     // operations not yet completed
            verif::fiber    f;
            std::string     result;
        } prod, cons;

        sched_subject()
        {
            walker< sizes, 0 >::run( ( bd::notification_queue_impl_base< sizes, 0 >& )q, levels );
        }

        ~sched_subject() override {}

        std::string where( const void* p ) const
        {
            for ( std::size_t l = 0; l != levels.size(); ++l )
            {
                const verif::ybyte* b = static_cast< const verif::ybyte* >( p );
                if ( b >= levels[ l ].bytes && b < levels[ l ].bytes + levels[ l ].size )
                    return std::to_string( l ) + " " + std::to_string( b - levels[ l ].bytes );
            }
            return "? ?";
        }

        void execute( thread& t, const std::vector< std::string >& o )
        {
            if ( o[ 0 ] == "qn" ) t.result = q.queue_notification( std::stoul( o[ 1 ] ) ) ? "r1" : "r0";
            else if ( o[ 0 ] == "qi" ) t.result = q.queue_indication( std::stoul( o[ 1 ] ) ) ? "r1" : "r0";
            else if ( o[ 0 ] == "conf" ) { q.indication_confirmed(); t.result = "r-"; }
            else if ( o[ 0 ] == "deq" )
            {
                const auto r = q.dequeue_indication_or_confirmation();
                switch ( r.first )
                {
                    case bd::notification_queue_entry_type::empty:        t.result = "re"; break;
                    case bd::notification_queue_entry_type::notification: t.result = "rn " + std::to_string( r.second ); break;
                    case bd::notification_queue_entry_type::indication:   t.result = "ri " + std::to_string( r.second ); break;
                }
            }
            else t.result = "BADOP";
        }

        // one micro-step: the pending byte access, then everything up to the next byte access
        std::string step( thread& t )
        {
            if ( !t.f.alive )
            {
                if ( t.prog.empty() ) return "idle";
                const std::vector< std::string > o = t.prog.front();
                verif::accesses.clear();
                verif::start( t.f, [ this, &t, o ]() { execute( t, o ); } );
                assert( verif::accesses.empty() );
            }
            if ( !t.f.finished )
            {
                verif::accesses.clear();
                verif::resume( t.f );
            }
            std::string r;
            if ( verif::accesses.empty() ) r = "X";
            for ( const auto& a : verif::accesses )     // exactly one, unless the operation has no access
            {
                char hex[ 8 ]; std::snprintf( hex, sizeof hex, "%02x", a.value );
                if ( !r.empty() ) r += " ";
                r += std::string( 1, a.kind ) + " " + where( a.where ) + " " + hex;
            }
            if ( t.f.finished )
            {
                t.f.alive = false;
                t.prog.erase( t.prog.begin() );
                return r + " " + t.result;
            }
            return r + " .";
        }

        std::string final_state() const
        {
            std::string r = "q ", n;
            for ( std::size_t l = 0; l != levels.size(); ++l )
            {
                if ( l ) { r += "/"; n += ","; }
                static const char* d = "0123456789abcdef";
                for ( std::size_t b = 0; b != levels[ l ].size; ++b )
                {
                    const std::uint8_t v = levels[ l ].bytes[ b ].peek();
                    r += d[ v >> 4 ]; r += d[ v & 15 ];
                }
                n += std::to_string( levels[ l ].next ? *levels[ l ].next : 0 );
            }
            const std::size_t o = q.outstanding_confirmation_index_;
            return r + " n " + n + " o " + ( o == bd::no_outstanding_indicaton ? std::string( "-" ) : std::to_string( o ) );
        }

        std::string op( const std::vector< std::string >& w ) override
        {
            if ( w[ 0 ] == "P" && w.size() >= 2 ) { prod.prog.push_back( std::vector< std::string >( w.begin() + 1, w.end() ) ); return "-"; }
            if ( w[ 0 ] == "C" && w.size() >= 2 ) { cons.prog.push_back( std::vector< std::string >( w.begin() + 1, w.end() ) ); return "-"; }
            if ( w[ 0 ] == "p" ) return step( prod );
            if ( w[ 0 ] == "c" ) return step( cons );
            if ( w[ 0 ] == "fin" ) return final_state();
            return "BADOP";
        }
    };

    std::map< std::string, verif::factory > registry;

    template < int ... S >
    void reg( const char* name )
    {
        registry[ name ] = []( const std::vector< std::string >& ) { return std::unique_ptr< verif::subject >( new sched_subject< S... >() ); };
    }
}

int main()
{
#define CFG( ... ) reg< __VA_ARGS__ >( #__VA_ARGS__ );
#include "nqueuesched_configs.inc"
    return verif::main_loop( []( const std::vector< std::string >& cfg ) -> std::unique_ptr< verif::subject > {
        auto f = registry.find( cfg.at( 0 ) );
        return f == registry.end() ? nullptr : f->second( cfg );
    } );
}
