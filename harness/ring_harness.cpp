// Correspondence harness for bluetoe/utility/include/bluetoe/ring.hpp (C30).
//
// The real header is compiled unchanged. Its atomic type is substituted from here by token
// replacement (`std::atomic_int` -> `std::verif_atomic_int`, an alias of verif_ring::yield_atomic_int
// below), the element type T is an instrumented struct whose copy assignment is the non-atomic
// data_ access. Producer (try_push) and consumer (try_pop) run as two coroutines (ucontext) on the
// same ring object; every instrumented access is a scheduling point:
//
//   CASE <name> <S>     ring< S, elem >, both sides idle, data_ all zero
//   p <value>           the producer performs its next memory access (starting try_push( value ) when
//                       it is idle; the value is ignored while a try_push is in flight)
//   c                   the consumer performs its next memory access (starting try_pop when idle)
//
// One step = "perform exactly one instrumented access, then run on until the next access is about
// to happen or the call returns". Result line = the access performed + the return value if the call
// returned in this step:
//   ld_r <x> | ld_w <x> | wr_d <slot> <value> | st_w <x> | rd_d <slot> <value> | st_r <x>
//   followed by  " ret 0" | " ret 1" (try_push) | " ret 1 <value>" (try_pop)
// An access with an explicit std::memory_order argument is printed with the suffix "!mo" (the model
// assumes the default seq_cst; gen/consts/ring.py lints the same thing on the source).
//
// build/<id>/…/ring_configs.inc (written by the runner) lists the capacities as CFG(3)
#include "verif_common.hpp"
#include <atomic>
#include <ucontext.h>
#if defined(__SANITIZE_ADDRESS__)
#include <sanitizer/common_interface_defs.h>
#define VERIF_FIBER_START( save, bottom, size ) __sanitizer_start_switch_fiber( save, bottom, size )
#define VERIF_FIBER_FINISH( save, bottom, size ) __sanitizer_finish_switch_fiber( save, bottom, size )
#else
#define VERIF_FIBER_START( save, bottom, size ) ((void)0)
#define VERIF_FIBER_FINISH( save, bottom, size ) ((void)0)
#endif

namespace verif_ring {

    // ---- the scheduler shared by the instrumented types -------------------------------------
    struct coroutine
    {
        ucontext_t              ctx;
        char*                   stack = nullptr;        // one of the two static stacks below
        std::size_t             stack_size = 0;
        void*                   fake_stack = nullptr;
    };

    struct scheduler
    {
        ucontext_t      main_ctx;
        void*           main_fake_stack = nullptr;
        const void*     main_bottom = nullptr;
        std::size_t     main_size = 0;
        coroutine*      running = nullptr;      // coroutine currently executing, nullptr = main
        int             budget = 0;             // accesses the running coroutine may still perform
        std::string     events;                 // what happened in the current step
        // layout of the ring under test, to classify addresses
        const void*     read_ptr_addr = nullptr;
        const void*     write_ptr_addr = nullptr;
        const char*     data_begin = nullptr;
        std::size_t     elem_size = 1;
        const char*     object_begin = nullptr;
        const char*     object_end = nullptr;
    };

    scheduler sched;

    // give control back to the main context (called on a coroutine)
    void yield_to_main()
    {
        coroutine* self = sched.running;
        sched.running = nullptr;
        VERIF_FIBER_START( &self->fake_stack, sched.main_bottom, sched.main_size );
        swapcontext( &self->ctx, &sched.main_ctx );
        VERIF_FIBER_FINISH( self->fake_stack, &sched.main_bottom, &sched.main_size );
    }

    // run coroutine c until it yields
    void resume( coroutine& c )
    {
        sched.running = &c;
        VERIF_FIBER_START( &sched.main_fake_stack, c.stack, c.stack_size );
        swapcontext( &sched.main_ctx, &c.ctx );
        VERIF_FIBER_FINISH( sched.main_fake_stack, nullptr, nullptr );
    }

    // called immediately before every instrumented memory access
    void before_access()
    {
        if ( !sched.running )
            return;                 // construction / inspection from the main context
        if ( sched.budget == 0 )
            yield_to_main();        // the step is over; the access belongs to the next step
        --sched.budget;
    }

    void note( const std::string& s )
    {
        if ( !sched.running )
            return;
        if ( !sched.events.empty() ) sched.events += ' ';
        sched.events += s;
    }

    // ---- replacement for std::atomic_int ----------------------------------------------------
    class yield_atomic_int
    {
    public:
        yield_atomic_int( int v ) : v_( v ) {}
        yield_atomic_int() : v_( 0 ) {}
        yield_atomic_int( const yield_atomic_int& ) = delete;
        yield_atomic_int& operator=( const yield_atomic_int& ) = delete;

        int load() const { return do_load( "" ); }
        int load( std::memory_order ) const { return do_load( "!mo" ); }
        void store( int x ) { do_store( x, "" ); }
        void store( int x, std::memory_order ) { do_store( x, "!mo" ); }
        operator int() const { return do_load( "!conv" ); }
        int operator=( int x ) { do_store( x, "!assign" ); return x; }

        int peek() const { return v_.load(); }
    private:
        const char* name() const
        {
            return this == sched.read_ptr_addr ? "r" : this == sched.write_ptr_addr ? "w" : "?";
        }
        int do_load( const char* suffix ) const
        {
            before_access();
            const int x = v_.load();
            note( std::string( "ld_" ) + name() + suffix + " " + std::to_string( x ) );
            return x;
        }
        void do_store( int x, const char* suffix )
        {
            before_access();
            v_.store( x );
            note( std::string( "st_" ) + name() + suffix + " " + std::to_string( x ) );
        }
        std::atomic< int > v_;
    };

    // ---- element type: copy assignment is the non-atomic access to data_[ i ] -----------------
    struct elem
    {
        std::uint32_t v;
        elem() : v( 0 ) {}
        explicit elem( std::uint32_t x ) : v( x ) {}
        elem( const elem& o ) : v( o.v ) {}

        static bool in_ring( const void* p )
        {
            const char* c = static_cast< const char* >( p );
            // one element of slack on both sides so that an off-by-one index is reported as such
            // (AddressSanitizer then stops at the access itself)
            return sched.object_begin && c + sched.elem_size >= sched.object_begin && c < sched.object_end + sched.elem_size;
        }
        static long slot( const void* p )
        {
            return ( static_cast< const char* >( p ) - sched.data_begin ) / static_cast< long >( sched.elem_size );
        }
        elem& operator=( const elem& o )
        {
            if ( sched.running && in_ring( this ) )
            {
                before_access();
                v = o.v;
                note( "wr_d " + std::to_string( slot( this ) ) + " " + std::to_string( o.v ) );
            }
            else if ( sched.running && in_ring( &o ) )
            {
                before_access();
                const std::uint32_t x = o.v;
                v = x;
                note( "rd_d " + std::to_string( slot( &o ) ) + " " + std::to_string( x ) );
            }
            else
                v = o.v;
            return *this;
        }
    };
}

namespace std { typedef ::verif_ring::yield_atomic_int verif_atomic_int; }

#define atomic_int verif_atomic_int
#define private public
#include <bluetoe/ring.hpp>
#undef private
#undef atomic_int

namespace {
    using verif_ring::sched;
    using verif_ring::elem;

    struct ring_subject_base : verif::subject
    {
        verif_ring::coroutine   prod, cons;
        bool                    prod_busy = false, cons_busy = false;
        std::uint32_t           push_arg = 0;
        bool                    stop = false;

        virtual bool do_push( const elem& ) = 0;
        virtual bool do_pop( elem& ) = 0;

        static ring_subject_base* current;

        static void prod_main()
        {
            VERIF_FIBER_FINISH( nullptr, &sched.main_bottom, &sched.main_size );
            ring_subject_base* self = current;
            for ( ;; )
            {
                // one call per activation; the argument lives on this coroutine's stack like the
                // caller's variable would
                const elem in( self->push_arg );
                const bool r = self->do_push( in );
                verif_ring::note( r ? "ret 1" : "ret 0" );
                self->prod_busy = false;
                verif_ring::yield_to_main();
            }
        }

        static void cons_main()
        {
            VERIF_FIBER_FINISH( nullptr, &sched.main_bottom, &sched.main_size );
            ring_subject_base* self = current;
            for ( ;; )
            {
                elem out( 0xdeadbeefu );
                const bool r = self->do_pop( out );
                verif_ring::note( r ? "ret 1 " + std::to_string( out.v ) : std::string( "ret 0" ) );
                self->cons_busy = false;
                verif_ring::yield_to_main();
            }
        }

        // The two coroutine stacks are allocated once and reused by every case: only the newest
        // subject's coroutines are ever resumed, the frames of an abandoned call are simply dropped
        // (AddressSanitizer clears the shadow of a context's stack when it is switched to).
        static const std::size_t stack_size = 128 * 1024;

        void make( verif_ring::coroutine& c, void (*fn)(), int which )
        {
            static char* stacks[ 2 ] = { nullptr, nullptr };
            if ( !stacks[ which ] )
                stacks[ which ] = static_cast< char* >( std::malloc( stack_size ) );
            c.stack = stacks[ which ];
            c.stack_size = stack_size;
            getcontext( &c.ctx );
            c.ctx.uc_stack.ss_sp = c.stack;
            c.ctx.uc_stack.ss_size = c.stack_size;
            c.ctx.uc_link = nullptr;
            makecontext( &c.ctx, fn, 0 );
        }

        void start()
        {
            make( prod, &prod_main, 0 );
            make( cons, &cons_main, 1 );
        }

        std::string op( const std::vector< std::string >& w ) override
        {
            current = this;
            sched.events.clear();
            sched.budget = 1;
            if ( w[ 0 ] == "p" && w.size() == 2 )
            {
                if ( !prod_busy ) { push_arg = static_cast< std::uint32_t >( std::stoul( w[ 1 ] ) ); prod_busy = true; }
                verif_ring::resume( prod );
            }
            else if ( w[ 0 ] == "c" && w.size() == 1 )
            {
                cons_busy = true;
                verif_ring::resume( cons );
            }
            else
                return "BADOP";
            return sched.events.empty() ? "NOACCESS" : sched.events;
        }
    };

    ring_subject_base* ring_subject_base::current = nullptr;

    template < std::size_t S >
    struct ring_subject : ring_subject_base
    {
        using ring_t = bluetoe::details::ring< S, elem >;
        // heap object of exactly sizeof( ring_t ): data_ is the last member, so an access past
        // data_[ S ] is a heap-buffer-overflow for AddressSanitizer
        std::unique_ptr< ring_t > r;

        ring_subject() : r( new ring_t )
        {
            sched.read_ptr_addr  = &r->read_ptr_;
            sched.write_ptr_addr = &r->write_ptr_;
            sched.data_begin     = reinterpret_cast< const char* >( &r->data_[ 0 ] );
            sched.elem_size      = sizeof( elem );
            sched.object_begin   = reinterpret_cast< const char* >( r.get() );
            sched.object_end     = sched.object_begin + sizeof( ring_t );
            sched.running        = nullptr;
            start();
        }

        bool do_push( const elem& e ) override { return r->try_push( e ); }
        bool do_pop( elem& e ) override { return r->try_pop( e ); }
    };

    std::map< std::string, verif::factory > registry;

    template < std::size_t S >
    void reg( const char* name )
    {
        registry[ name ] = []( const std::vector< std::string >& ) { return std::unique_ptr< verif::subject >( new ring_subject< S >() ); };
    }
}

int main()
{
#define CFG( S ) reg< S >( #S );
#include "ring_configs.inc"
    return verif::main_loop( []( const std::vector< std::string >& cfg ) -> std::unique_ptr< verif::subject > {
        if ( cfg.empty() ) return nullptr;
        auto f = registry.find( cfg.at( 0 ) );
        return f == registry.end() ? nullptr : f->second( cfg );
    } );
}
