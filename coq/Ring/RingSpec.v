(* Abstract specification and executable monitor for the interrupt-safe ring (property C30).

   Specification object: a FIFO of at most S elements. The monitor looks only at the observed trace:
   the operation lines (which side made a step, and the value handed to try_push) and the output
   lines (the memory access performed in that step and, if the call returned in that step, its
   result). It never looks at model state, so it judges the implementation's traces too, also those
   of a changed implementation whose accesses come in another order.

   Linearisation: a try_push takes effect at its store to write_ptr_, a try_pop at its store to
   read_ptr_. A failing try_push must have seen a full FIFO, a failing try_pop an empty one, at some
   moment of the call; because only the other side changes the fill level during the call and only in
   the helpful direction, that is equivalent to "at the first step of the call", which is what the
   monitor records (for the model the sharper statements with the exact linearisation points are
   theorems in RingProofs.v).

   Data race detection is by happens-before (vector clocks of the two sides, release at every store
   to read_ptr_/write_ptr_, acquire at every load): a data_ access races if the last conflicting
   access to the same slot by the other side is not ordered before it.

   Clauses (tags are the violation tags the runner reports):
     fault                the step ended in a memory fault
     shape                output impossible for the side that made the step (the producer never
                          reads data_ or stores read_ptr_, the consumer never writes data_ or stores
                          write_ptr_; a result of the other call's type; a second store in one call)
     slot_range           data_ access outside 0 .. S
     data_race            non-atomic data_ access not ordered after the last conflicting access
     push_overflow        write_ptr_ published an element while the FIFO already held S elements
     push_result          try_push returned true without publishing / false after publishing
     push_fail_not_full   try_push returned false although the FIFO was not full during the call
     pop_empty            read_ptr_ consumed an element while the FIFO was empty
     pop_result           try_pop returned true without consuming / false after consuming
     pop_value            try_pop returned a value that is not the oldest pending element
     pop_fail_not_empty   try_pop returned false although an element was pending during the call *)
From BT Require Import Base.ListX Ring.RingModel.

Inductive verdict := Ok | Bad (tag : nat).
Definition t_fault := 1.
Definition t_shape := 2.
Definition t_slot_range := 3.
Definition t_data_race := 4.
Definition t_push_overflow := 5.
Definition t_push_result := 6.
Definition t_push_fail_not_full := 7.
Definition t_pop_empty := 8.
Definition t_pop_result := 9.
Definition t_pop_value := 10.
Definition t_pop_fail_not_empty := 11.

(* the try_push in flight *)
Record pside := mkp {
  pin : option N;       (* its argument; None = producer idle *)
  pfull : bool;         (* the FIFO held S elements at the first step of the call *)
  pdone : bool }.       (* the call has stored write_ptr_ *)

(* the try_pop in flight *)
Record cside := mkc {
  cin : bool;           (* a call is in flight *)
  cempty : bool;        (* the FIFO was empty at the first step of the call *)
  chead : option N }.   (* the element consumed by the call's store to read_ptr_ *)

(* happens-before bookkeeping. Clocks of the two sides start at 1 and are incremented by every
   release (store); epoch 0 = never accessed. *)
Record clocks := mkk {
  pown : nat;           (* producer's clock *)
  pknow : nat;          (* what the producer knows of the consumer's clock *)
  cown : nat;           (* consumer's clock *)
  cknow : nat;          (* what the consumer knows of the producer's clock *)
  relr : nat;           (* consumer's clock released by the last store to read_ptr_ *)
  relw : nat;           (* producer's clock released by the last store to write_ptr_ *)
  lastw : list nat;     (* per slot: producer's clock at the last write *)
  lastr : list nat }.   (* per slot: consumer's clock at the last read *)

Record mon := mkm { mS : nat; mq : list N; mp : pside; mc : cside; mclk : clocks }.

Definition minit (S : nat) : mon :=
  mkm S [] (mkp None false false) (mkc false false None)
      (mkk 1 0 1 0 0 0 (repeat 0 (S + 1)) (repeat 0 (S + 1))).

(* ---- producer step ---- *)
Definition p_start (m : mon) (v : N) : mon :=
  match pin (mp m) with
  | Some _ => m
  | None => mkm (mS m) (mq m) (mkp (Some v) (Nat.eqb (length (mq m)) (mS m)) false) (mc m) (mclk m)
  end.

Definition p_value (m : mon) : N := match pin (mp m) with Some x => x | None => 0%N end.

Definition p_acc (m : mon) (a : acc) : verdict * mon :=
  let k := mclk m in
  match a with
  | LdR _ =>
      (Ok, mkm (mS m) (mq m) (mp m) (mc m)
               (mkk (pown k) (Nat.max (pknow k) (relr k)) (cown k) (cknow k) (relr k) (relw k) (lastw k) (lastr k)))
  | LdW _ => (Ok, m)
  | WrD i _ =>
      if negb (Nat.ltb i (mS m + 1)) then (Bad t_slot_range, m)
      else if negb (Nat.leb (nth i (lastr k) 0) (pknow k)) then (Bad t_data_race, m)
      else (Ok, mkm (mS m) (mq m) (mp m) (mc m)
                    (mkk (pown k) (pknow k) (cown k) (cknow k) (relr k) (relw k) (upd (lastw k) i (pown k)) (lastr k)))
  | StW _ =>
      if pdone (mp m) then (Bad t_shape, m)
      else if negb (Nat.ltb (length (mq m)) (mS m)) then (Bad t_push_overflow, m)
      else (Ok, mkm (mS m) (mq m ++ [p_value m]) (mkp (pin (mp m)) (pfull (mp m)) true) (mc m)
                    (mkk (pown k + 1) (pknow k) (cown k) (cknow k) (relr k) (pown k) (lastw k) (lastr k)))
  | RdD _ _ | StR _ => (Bad t_shape, m)
  end.

Definition p_idle_mon (m : mon) : mon := mkm (mS m) (mq m) (mkp None false false) (mc m) (mclk m).

Definition p_ret (m : mon) (r : ret) : verdict * mon :=
  match r with
  | RNone => (Ok, m)
  | RFail =>
      if pdone (mp m) then (Bad t_push_result, m)
      else if negb (pfull (mp m)) then (Bad t_push_fail_not_full, m)
      else (Ok, p_idle_mon m)
  | RPushOk => if pdone (mp m) then (Ok, p_idle_mon m) else (Bad t_push_result, m)
  | RPopOk _ => (Bad t_shape, m)
  end.

(* ---- consumer step ---- *)
Definition c_start (m : mon) : mon :=
  if cin (mc m) then m
  else mkm (mS m) (mq m) (mp m) (mkc true (Nat.eqb (length (mq m)) 0) None) (mclk m).

Definition c_acc (m : mon) (a : acc) : verdict * mon :=
  let k := mclk m in
  match a with
  | LdR _ => (Ok, m)
  | LdW _ =>
      (Ok, mkm (mS m) (mq m) (mp m) (mc m)
               (mkk (pown k) (pknow k) (cown k) (Nat.max (cknow k) (relw k)) (relr k) (relw k) (lastw k) (lastr k)))
  | RdD i _ =>
      if negb (Nat.ltb i (mS m + 1)) then (Bad t_slot_range, m)
      else if negb (Nat.leb (nth i (lastw k) 0) (cknow k)) then (Bad t_data_race, m)
      else (Ok, mkm (mS m) (mq m) (mp m) (mc m)
                    (mkk (pown k) (pknow k) (cown k) (cknow k) (relr k) (relw k) (lastw k) (upd (lastr k) i (cown k))))
  | StR _ =>
      match chead (mc m), mq m with
      | Some _, _ => (Bad t_shape, m)
      | None, [] => (Bad t_pop_empty, m)
      | None, h :: t =>
          (Ok, mkm (mS m) t (mp m) (mkc (cin (mc m)) (cempty (mc m)) (Some h))
                   (mkk (pown k) (pknow k) (cown k + 1) (cknow k) (cown k) (relw k) (lastw k) (lastr k)))
      end
  | WrD _ _ | StW _ => (Bad t_shape, m)
  end.

Definition c_idle_mon (m : mon) : mon := mkm (mS m) (mq m) (mp m) (mkc false false None) (mclk m).

Definition c_ret (m : mon) (r : ret) : verdict * mon :=
  match r with
  | RNone => (Ok, m)
  | RFail =>
      match chead (mc m) with
      | Some _ => (Bad t_pop_result, m)
      | None => if cempty (mc m) then (Ok, c_idle_mon m) else (Bad t_pop_fail_not_empty, m)
      end
  | RPopOk x =>
      match chead (mc m) with
      | None => (Bad t_pop_result, m)
      | Some h => if N.eqb h x then (Ok, c_idle_mon m) else (Bad t_pop_value, m)
      end
  | RPushOk => (Bad t_shape, m)
  end.

Definition mstep (m : mon) (o : op) (r : out) : verdict * mon :=
  match r with
  | OFault => (Bad t_fault, m)
  | OJunk => (Bad t_shape, m)
  | Out a rt =>
      match o with
      | OpP v =>
          match p_acc (p_start m v) a with
          | (Ok, m1) => p_ret m1 rt
          | bad => bad
          end
      | OpC =>
          match c_acc (c_start m) a with
          | (Ok, m1) => c_ret m1 rt
          | bad => bad
          end
      end
  end.

(* first violation of a trace: Some (position, tag); None = property holds on the trace *)
Fixpoint monitor_from (m : mon) (pos : nat) (tr : list (op * out)) : option (nat * nat) :=
  match tr with
  | [] => None
  | (o, r) :: t =>
      match mstep m o r with
      | (Ok, m') => monitor_from m' (S pos) t
      | (Bad tag, _) => Some (pos, tag)
      end
  end.

Definition monitor (S : nat) (tr : list (op * out)) : option (nat * nat) :=
  monitor_from (minit S) O tr.

(* ---- the property in trace terms (used by the semantic theorems) ------------------------------- *)

(* values returned by successful try_pops, in order *)
Fixpoint popped (tr : list (op * out)) : list N :=
  match tr with
  | [] => []
  | (OpC, Out _ (RPopOk x)) :: t => x :: popped t
  | _ :: t => popped t
  end.

(* arguments of the try_pushes that returned true, in order of their return; cur = argument of the
   call in flight at the beginning of tr *)
Fixpoint pushed_from (cur : option N) (tr : list (op * out)) : list N :=
  match tr with
  | [] => []
  | (OpP v, Out _ r) :: t =>
      let x := match cur with Some x => x | None => v end in
      match r with
      | RNone => pushed_from (Some x) t
      | RPushOk => x :: pushed_from None t
      | _ => pushed_from None t
      end
  | _ :: t => pushed_from cur t
  end.

Definition pushed (tr : list (op * out)) : list N := pushed_from None tr.

(* the abstract FIFO after an observed trace: the pushed elements that have not been popped *)
Definition pending (tr : list (op * out)) : list N := skipn (length (popped tr)) (pushed tr).

(* all steps of a trace segment were made by the consumer *)
Definition consumer_only (tr : list (op * out)) : Prop := Forall (fun e => fst e = OpC) tr.

(* access kinds numbered as gen/consts/ring.py numbers them in the source text *)
Definition acc_code (a : acc) : N :=
  match a with LdR _ => 1 | LdW _ => 2 | WrD _ _ => 3 | StW _ => 4 | RdD _ _ => 5 | StR _ => 6 end%N.
Definition out_code (e : op * out) : N :=
  match snd e with Out a _ => acc_code a | _ => 0%N end.
