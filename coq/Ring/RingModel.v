(* Executable model of bluetoe/utility/include/bluetoe/ring.hpp (definitions only, no proofs).

   template < std::size_t S, typename T > class ring:
       std::atomic_int read_ptr_, write_ptr_;   length = S + 1;   T data_[ length ];

   One producer (try_push) and one consumer (try_pop) run in different contexts. Each call is cut
   into micro-steps at the granularity of one memory access; the local computation between two
   accesses (the modulo, the comparison, the return) belongs to the access before it:

     try_push( in )                                 try_pop( out )
       read  = read_ptr_.load()         LdR           read  = read_ptr_.load()          LdR
       write = write_ptr_.load()        LdW           write = write_ptr_.load()         LdW
       next  = ( write + 1 ) % length                 if ( read == write ) return false
       if ( next == read ) return false               next  = ( read + 1 ) % length
       data_[ write ] = in              WrD           out = data_[ read ]               RdD
       write_ptr_.store( next )         StW           read_ptr_.store( next )           StR
       return true                                    return true

   A schedule chooses which side performs its next access; the semantics is the sequentially
   consistent interleaving of these accesses (the atomics use the default seq_cst order; data race
   freedom of the non-atomic data_ accesses is a theorem, see RingProofs.v).

   Pointers and slot numbers are list positions (nat); elements are N. The int arithmetic of the
   C++ code never leaves 0 .. S+1, so no wrap-around of int is modelled (assumption S+1 <= INT_MAX). *)
From BT Require Import Base.ListX.

(* where the producer / the consumer stands inside its call *)
Inductive ppc :=
| PIdle
| PGotR (v : N) (r : nat)             (* read loaded; next access: load of write_ptr_ *)
| PGotW (v : N) (w nxt : nat)         (* not full; next access: data_[ w ] = v *)
| PWrote (v : N) (nxt : nat).         (* next access: write_ptr_.store( nxt ) *)

Inductive cpc :=
| CIdle
| CGotR (r : nat)                     (* next access: load of write_ptr_ *)
| CGotW (r nxt : nat)                 (* not empty; next access: out = data_[ r ] *)
| CRead (x : N) (nxt : nat).          (* next access: read_ptr_.store( nxt ) *)

Record state := mk {
  cap : nat;              (* S *)
  rd : nat;               (* read_ptr_ *)
  wr : nat;               (* write_ptr_ *)
  data : list N;          (* data_[ S + 1 ] *)
  pp : ppc;
  cp : cpc }.

Definition len (s : state) : nat := cap s + 1.        (* length = S + 1 *)

Definition init (S : nat) : state := mk S 0 0 (repeat 0%N (S + 1)) PIdle CIdle.

(* p v : the producer performs its next access; when it is idle this starts try_push( v ), while a
   call is in flight v is ignored.   c : the consumer performs its next access (starting try_pop). *)
Inductive op := OpP (v : N) | OpC.

Inductive acc :=
| LdR (x : nat) | LdW (x : nat)       (* value loaded from read_ptr_ / write_ptr_ *)
| WrD (i : nat) (v : N)               (* data_[ i ] = v *)
| StW (x : nat)                       (* write_ptr_.store( x ) *)
| RdD (i : nat) (v : N)               (* v = data_[ i ] *)
| StR (x : nat).                      (* read_ptr_.store( x ) *)

(* did the call return in this step, and what *)
Inductive ret := RNone | RFail | RPushOk | RPopOk (v : N).

Inductive out :=
| Out (a : acc) (r : ret)
| OFault                              (* access outside data_ *)
| OJunk.                              (* never produced by the model: unparsable implementation output *)

Definition set_pp (s : state) (p : ppc) : state := mk (cap s) (rd s) (wr s) (data s) p (cp s).
Definition set_cp (s : state) (c : cpc) : state := mk (cap s) (rd s) (wr s) (data s) (pp s) c.

Definition step_p (s : state) (v0 : N) : state * out :=
  match pp s with
  | PIdle => (set_pp s (PGotR v0 (rd s)), Out (LdR (rd s)) RNone)
  | PGotR v r =>
      let w := wr s in
      let nxt := (w + 1) mod len s in
      if Nat.eqb nxt r then (set_pp s PIdle, Out (LdW w) RFail)
      else (set_pp s (PGotW v w nxt), Out (LdW w) RNone)
  | PGotW v w nxt =>
      if Nat.ltb w (length (data s))
      then (mk (cap s) (rd s) (wr s) (upd (data s) w v) (PWrote v nxt) (cp s), Out (WrD w v) RNone)
      else (s, OFault)
  | PWrote v nxt => (mk (cap s) (rd s) nxt (data s) PIdle (cp s), Out (StW nxt) RPushOk)
  end.

Definition step_c (s : state) : state * out :=
  match cp s with
  | CIdle => (set_cp s (CGotR (rd s)), Out (LdR (rd s)) RNone)
  | CGotR r =>
      let w := wr s in
      if Nat.eqb r w then (set_cp s CIdle, Out (LdW w) RFail)
      else (set_cp s (CGotW r ((r + 1) mod len s)), Out (LdW w) RNone)
  | CGotW r nxt =>
      match nth_error (data s) r with
      | Some x => (set_cp s (CRead x nxt), Out (RdD r x) RNone)
      | None => (s, OFault)
      end
  | CRead x nxt => (mk (cap s) nxt (wr s) (data s) (pp s) CIdle, Out (StR nxt) (RPopOk x))
  end.

Definition step (s : state) (o : op) : state * out :=
  match o with
  | OpP v => step_p s v
  | OpC => step_c s
  end.

(* the trace of (operation, output) pairs of a run *)
Fixpoint run (s : state) (ops : list op) : list (op * out) :=
  match ops with
  | [] => []
  | o :: t => let '(s', r) := step s o in (o, r) :: run s' t
  end.

Fixpoint final (s : state) (ops : list op) : state :=
  match ops with
  | [] => s
  | o :: t => final (fst (step s o)) t
  end.

(* ---- the same thing driven by programs and a schedule -------------------------------------------
   The producer wants to push the values vals (one try_push per value, in this order), the consumer
   wants to call try_pop npops times; sched chooses the side that performs the next access
   (true = producer). A side that has finished its program is skipped. *)
Definition p_idle (s : state) : bool := match pp s with PIdle => true | _ => false end.
Definition c_idle (s : state) : bool := match cp s with CIdle => true | _ => false end.

Fixpoint sched_ops (s : state) (vals : list N) (npops : nat) (sched : list bool) : list op :=
  match sched with
  | [] => []
  | true :: t =>
      if p_idle s then
        match vals with
        | [] => sched_ops s vals npops t
        | v :: vals' => OpP v :: sched_ops (fst (step s (OpP v))) vals' npops t
        end
      else OpP 0%N :: sched_ops (fst (step s (OpP 0%N))) vals npops t
  | false :: t =>
      if c_idle s then
        match npops with
        | O => sched_ops s vals npops t
        | S n => OpC :: sched_ops (fst (step s OpC)) vals n t
        end
      else OpC :: sched_ops (fst (step s OpC)) vals npops t
  end.

Definition run_sched (S : nat) (vals : list N) (npops : nat) (sched : list bool) : list (op * out) :=
  run (init S) (sched_ops (init S) vals npops sched).
