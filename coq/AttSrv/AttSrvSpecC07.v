(* Property C07: prepared writes are deferred, per-client and applied in order.
   Executable monitor over observed (operation, output) pairs; it runs the reference semantics of
   AttSrvSpecVal.v (abstract write queue  option owner * list (handle, offset, bytes)  with byte capacity,
   abstract value store, link security) beside the trace and never looks at model state.

   Clauses (tags):
     prepare_changes_value    a value differs after a Prepare Write Request named it
     execute_order            Execute Write (flag 1) does not answer as the owner's queued writes applied in queue
                              order do (Execute Write Response, or the error of the first failing write with its
                              handle), or a value differs afterwards
     execute_cancel           Execute Write (flag 0) does not answer with an Execute Write Response, or a value
                              named by a discarded write differs afterwards
     queue_released           a Prepare Write is refused with Prepare Queue Full although the queue was released
                              (execute, cancel, disconnect) resp. is free, and the element fits
     queue_full_other         a Prepare Write is not refused with Prepare Queue Full while another client holds the queue
     queue_capacity           an element that does not fit (used + length + 4 + 2 > size) is not refused with
                              Prepare Queue Full
     accept_iff_write         a Prepare Write is accepted although a Write Request to the same attribute on this
                              connection would be refused for permission / security, or the other way round, or
                              with a different error code; the response does not echo the request
     prepare_invokes_handler  the write handler of a characteristic was called more often than writes were applied
                              (observed through the harness' call counters after a Prepare Write named it) *)
From BT Require Import Base.ListX AttDb.AttDbModel NQueue.NQueueModel AttSrv.AttSrvModel AttSrv.AttSrvSpecVal.
Local Open Scope N_scope.

Definition t_prepare_changes_value := 1%nat.
Definition t_execute_order := 2%nat.
Definition t_execute_cancel := 3%nat.
Definition t_queue_released := 4%nat.
Definition t_queue_full_other := 5%nat.
Definition t_accept_iff_write := 6%nat.
Definition t_prepare_invokes_handler := 7%nat.
Definition t_queue_capacity := 8%nat.

Definition is_queue_full (resp : list N) : bool := match resp with [1; _; _; _; 9] => true | _ => false end.

Definition judge (c : cfg) (a : astate) (o : srv_op) (x : expect) (r : srv_out) : verdict :=
  match o, r with
  | OpIn cid pdu n, OBytes resp =>
      match x with
      | XResp kind exp g rsp =>
          if list_eqb resp rsp then Ok
          else if Nat.eqb kind k_prep_ok then (if is_queue_full resp then Bad t_queue_released else Bad t_accept_iff_write)
          else if Nat.eqb kind k_prep_denied then Bad t_accept_iff_write
          else if Nat.eqb kind k_prep_other then Bad t_queue_full_other
          else if Nat.eqb kind k_prep_full then Bad t_queue_capacity
          else if Nat.eqb kind k_exec then Bad t_execute_order
          else if Nat.eqb kind k_exec_cancel then Bad t_execute_cancel
          else Ok
      | _ => Ok
      end
  | OpVal g, OValue v wl =>
      match x with
      | XVal _ v' wl' =>
          let mark := nth g (as_marks a) m_none in
          if negb (list_eqb v v') then
            if Nat.eqb mark m_prepared then Bad t_prepare_changes_value
            else if Nat.eqb mark m_executed then Bad t_execute_order
            else if Nat.eqb mark m_cancelled then Bad t_execute_cancel
            else Ok
          else
            match wl, wl' with
            | Some (_, w, e), Some (w', e') =>
                if ((w =? w') && (e =? e')) || negb (Nat.eqb mark m_prepared || Nat.eqb mark m_executed || Nat.eqb mark m_cancelled)
                then Ok else Bad t_prepare_invokes_handler
            | _, _ => Ok
            end
      | _ => Ok
      end
  | _, _ => Ok
  end.

Definition mstep (c : cfg) (m : mon) (o : srv_op) (r : srv_out) : verdict * mon := mstep_with judge c m o r.
Definition monitor_from (c : cfg) (m : mon) (pos : nat) (tr : list (srv_op * srv_out)) : option (nat * nat) :=
  monitor_from_with judge c m pos tr.
Definition monitor (c : cfg) (tr : list (srv_op * srv_out)) : option (nat * nat) := monitor_from c (minit c) O tr.

(* the same judgement without the clause prepare_invokes_handler (the harness' handler call counters are not
   compared): what holds of configurations WITH write handlers, see Properties_C07.v *)
Definition judge_core (c : cfg) (a : astate) (o : srv_op) (x : expect) (r : srv_out) : verdict :=
  judge c a o (match x with XVal g v _ => XVal g v None | _ => x end) r.
Definition monitor_core (c : cfg) (tr : list (srv_op * srv_out)) : option (nat * nat) :=
  monitor_from_with judge_core c (minit c) O tr.
