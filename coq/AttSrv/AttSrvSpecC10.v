(* Property C10: notifications carry the requested characteristic to subscribed clients only.
   Executable monitor over observed (operation, output) pairs (observer: AttSrvNotifSpec.v).

   A request is notify( value ) / indicate( value ) (`notify g`) or notify< UUID >() / indicate< UUID >()
   (`notify_uuid g`: the FIRST characteristic with the uuid of g). For every PDU that l2cap_output produces:
   Clauses (tags):
     wrong_characteristic  the PDU is 1B / 1D <value handle of a characteristic> ..., and that characteristic
                           was requested for that kind on this connection
     duplicate_pdu         ... and not yet transmitted since it was last requested (repeated requests before
                           the transmission give one PDU)
     not_subscribed        the connection's CCCD of that characteristic (as last written by this connection)
                           has the bit of that kind
     wrong_value           the PDU carries the current value of the characteristic (as far as the trace shows
                           it: val / setval), clipped only by the MTU
     fault                 no sanitizer / assert abort *)
From BT Require Import Base.ListX AttDb.AttDbModel NQueue.NQueueModel AttSrv.AttSrvModel AttSrv.AttSrvNotifSpec.
Local Open Scope N_scope.

Definition t10_fault := 1%nat.
Definition t10_wrong_characteristic := 2%nat.
Definition t10_wrong_value := 3%nat.
Definition t10_not_subscribed := 4%nat.
Definition t10_duplicate_pdu := 5%nat.
Definition t10_shape := 6%nat.

(* the PDU value is the known value, clipped only because of the buffer / an MTU of at least 23 *)
Definition value_ok10 (n : N) (v known : list N) : bool :=
  bytes_eqb v (takeN (len v) known)
  && ((len v =? len known) || (N.min n default_att_mtu <=? 3 + len v)).

Definition check10 (c : cfg) (m : obs) (o : srv_op) (r : srv_out) : option nat :=
  match o, r with
  | _, OFault => if fault_relevant o then Some t10_fault else None
  | OpOut cid n, OBytes pdu =>
      let k := oc_at m cid in
      match pdu with
      | [] => None
      | opc :: lo :: hi :: v =>
          if (opc =? 27) || (opc =? 29) then
            let kd := if opc =? 27 then KNotif else KInd in
            match by_value_handle (ob_tab m) (lo + 256 * hi) with
            | None => Some t10_wrong_characteristic
            | Some g =>
                let st := pick kd (nth g (o_pend k) (0, 0)) in
                if st =? 0 then Some t10_wrong_characteristic
                else if st =? 2 then Some t10_duplicate_pdu
                else match nth g (o_cccd k) None with
                     | Some bits =>
                         if N.land bits (kbit kd) =? 0 then Some t10_not_subscribed
                         else match nth g (ob_vals m) None with
                              | Some known => if value_ok10 n v known then None else Some t10_wrong_value
                              | None => None
                              end
                     | None =>
                         match nth g (ob_vals m) None with
                         | Some known => if value_ok10 n v known then None else Some t10_wrong_value
                         | None => None
                         end
                     end
            end
          else Some t10_wrong_characteristic
      | _ => Some t10_wrong_characteristic
      end
  | OpNotify _ _ _, OBits bits => if (length bits =? n_conns)%nat then None else Some t10_shape
  | _, _ => None
  end.

(* the clause not_subscribed alone (C10_not_subscribed_never_fires: proved for every trace of the model) *)
Definition check10_ns (c : cfg) (m : obs) (o : srv_op) (r : srv_out) : option nat :=
  match o, r with
  | OpOut cid n, OBytes (opc :: lo :: hi :: v) =>
      if (opc =? 27) || (opc =? 29) then
        let kd := if opc =? 27 then KNotif else KInd in
        match by_value_handle (ob_tab m) (lo + 256 * hi) with
        | Some g =>
            match nth g (o_cccd (oc_at m cid)) None with
            | Some bits => if N.land bits (kbit kd) =? 0 then Some t10_not_subscribed else None
            | None => None
            end
        | None => None
        end
      else None
  | _, _ => None
  end.
Definition monitor10_ns (c : cfg) (tr : list (srv_op * srv_out)) : option (nat * nat) :=
  monitor_from_of check10_ns c (obs_init c) O tr.

Definition mstep10 := mstep_of check10.
Definition monitor10 (c : cfg) (tr : list (srv_op * srv_out)) : option (nat * nat) :=
  monitor_from_of check10 c (obs_init c) O tr.
