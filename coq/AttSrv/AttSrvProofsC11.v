(* Proofs for property C11. *)
From Coq Require Import Lia ZifyBool.
From BT Require Import Base.ListX Base.Bits2 AttDb.AttDbModel NQueue.NQueueModel AttSrv.AttSrvModel AttSrv.AttSrvNotifSpec.
Local Open Scope N_scope.

(* a Handle Value Confirmation with a wrong length leaves the state unchanged *)
Lemma confirmation_bad_length_unchanged c st cid pdu b n st' r :
  handle_confirmation c st cid pdu b n = Some (st', r) -> len pdu <> 1 -> st' = st.
Proof.
  unfold handle_confirmation. destruct (rd pdu 0); [|discriminate].
  destruct (negb (len pdu =? 1)) eqn:E.
  - destruct (error_response _ _ _ _ _); [|discriminate]. intros [= <- _]. reflexivity.
  - intros _ L. apply negb_false_iff, N.eqb_eq in E. contradiction.
Qed.
