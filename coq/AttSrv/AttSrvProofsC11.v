(* Proofs for property C11 (indications are confirmed one at a time and never lost). *)
From Coq Require Import Lia ZifyBool.
From BT Require Import Base.ListX Base.Bits2 AttDb.AttDbModel NQueue.NQueueModel AttSrv.AttSrvModel
  AttSrv.AttSrvSpecC01 AttSrv.AttSrvProofsC01 AttSrv.AttSrvFrame.
Local Open Scope N_scope.

(* ------------------------------------------------------------------ queue level *)
(* while an indication is outstanding (no_out = false) a dequeue never returns an indication *)
Lemma scan_blocked fuel : forall size q i k j, scan fuel size q i false = Some (k, j) -> k = KNotif.
Proof.
  induction fuel as [|f IH]; intros size q i k j H; simpl in H; [discriminate|].
  rewrite andb_false_r in H. destruct (negb (N.land (at_ q i) 1 =? 0)); [inv H; reflexivity|eauto].
Qed.

Lemma level_deq_blocked l k i l' : level_deq l false = (Some (k, i), l') -> k = KNotif.
Proof.
  destruct l as [s n q|st]; simpl.
  - destruct (scan s s q n false) as [[k0 i0]|] eqn:E; intros H; inv H. eapply scan_blocked; eauto.
  - rewrite andb_false_r. destruct (negb (N.land st 1 =? 0)); intros H; inv H. reflexivity.
Qed.

Lemma chain_deq_blocked : forall ls off k i ls', chain_deq ls off false = (Some (k, i), ls') -> k = KNotif.
Proof.
  induction ls as [|l t IH]; intros off k i ls' H; simpl in H; [discriminate|].
  destruct (level_deq l false) as [[[k0 i0]|] l'] eqn:E.
  - inv H. eapply level_deq_blocked; eauto.
  - destruct (chain_deq t (off + lsize l) false) as [r t'] eqn:E2. inv H. eapply IH; eauto.
Qed.

(* dequeue_indication_or_confirmation: an indication is handed out only when none is outstanding, and is
   then outstanding; anything else leaves outstanding_confirmation_index_ alone *)
Lemma step_dequeue_outstanding s s' r :
  NQueueModel.step s Dequeue = (s', OEntry r) ->
  match r with
  | Some (KInd, i) => outstanding s = None /\ outstanding s' = Some i
  | _ => outstanding s' = outstanding s
  end.
Proof.
  unfold NQueueModel.step. destruct (chain_deq (levels s) 0 (is_none (outstanding s))) as [r0 ls] eqn:E.
  intros H. inv H. destruct r as [[[|] i]|]; cbn [outstanding]; auto.
  split; auto. destruct (outstanding s); auto. cbn [is_none] in E. apply chain_deq_blocked in E. discriminate.
Qed.

Lemma step_queue_outstanding s i kd : outstanding (fst (NQueueModel.step s (match kd with KNotif => QueueN i | KInd => QueueI i end))) = outstanding s.
Proof. destruct kd; unfold NQueueModel.step; destruct (chain_add _ _ _); reflexivity. Qed.

(* ------------------------------------------------------------------ l2cap_output *)
Definition out_of (k : conn) : option nat := outstanding (nq k).

Lemma put_hd b x t b' n : put b 0 (x :: t) = Some b' -> 1 <= n -> exists t', takeN n b' = x :: t'.
Proof.
  intros P Hn. pose proof (put_zero _ _ _ _ P) as Z. pose proof (put_len _ _ _ _ P) as L.
  unfold put in P. destruct (0 + len (x :: t) <=? len b) eqn:E; [|discriminate]. apply N.leb_le in E.
  destruct (takeN_hd n b' Hn) as (t' & Ht); [unfold len in *; cbn [length] in E; lia|].
  exists t'. rewrite Ht, Z. reflexivity.
Qed.

(* a Handle Value Indication (first byte 1D) is transmitted only when no indication is outstanding on the
   connection, and is outstanding afterwards; in every other case (notification, nothing sent - also when
   an indication was dequeued but could not be sent) outstanding is what it was *)
Theorem att_output_outstanding c st cid n st' rs k :
  get_conn st cid = Some k -> att_output c st cid n = Some (st', rs) ->
  exists k', get_conn st' cid = Some k' /\
    match rs with
    | 29 :: _ => out_of k = None /\ out_of k' <> None
    | _ => out_of k' = out_of k
    end.
Proof.
  intros G. unfold att_output. rewrite G. unfold nq_step at 1.
  destruct (NQueueModel.step (nq k) Dequeue) as [q1 r] eqn:D.
  set (k1 := mkConn (client_mtu k) (cccd k) (encrypted k) (pairing k) q1).
  assert (G1 : get_conn (set_conn st cid k1) cid = Some k1).
  { unfold get_conn, set_conn. cbn [conns]. apply nth_error_upd_eq. eapply nth_error_lt; eauto. }
  destruct r as [x|r|].
  - unfold NQueueModel.step in D. destruct (chain_deq _ _ _). discriminate.
  - pose proof (step_dequeue_outstanding _ _ _ D) as O.
    destruct r as [[kd i]|]; [|intros H; inv H; exists k1; split; auto].
    destruct (find_notification_data_by_index c (N.of_nat i)) as [ai ci].
    assert (U : forall s, get_conn s cid = Some k1 ->
                exists k', get_conn (unsent_indication s cid kd) cid = Some k' /\ out_of k' = out_of k).
    { intros s Gs. unfold unsent_indication. destruct kd.
      - exists k1. split; auto.
      - rewrite Gs. eexists. split.
        + unfold get_conn, set_conn. cbn [conns]. apply nth_error_upd_eq. eapply nth_error_lt; eauto.
        + unfold out_of, nq_step. cbn [NQueueModel.step fst nq outstanding]. destruct O as [O _]. rewrite O. reflexivity. }
    destruct (negb _ && (3 <=? _)) eqn:C.
    + intros H. mon.
      match goal with E0 : access_read _ _ _ _ _ _ _ = Some (?s2, _, _) |- _ =>
        pose proof (access_read_conns _ _ _ _ _ _ _ _ _ _ E0) as C2;
        assert (G2 : get_conn s2 cid = Some k1) by (unfold get_conn in *; rewrite C2; exact G1)
      end.
      match goal with H : match ?rc with Success => _ | _ => _ end = Some _ |- _ => destruct rc end; mon.
      * exists k1. split; auto.
        match goal with P : put _ 0 (_ :: _) = Some ?b2 |- _ =>
          destruct (put_hd _ _ _ _ (3 + len l) P) as (t' & Ht); [lia|]; rewrite Ht end.
        destruct kd; cbn.
        -- exact O.
        -- destruct O as [O1 O2]. split; auto. unfold out_of. cbn [nq k1]. rewrite O2. discriminate.
      * destruct (U _ G2) as (k' & Gk & Ok). exists k'. split; auto.
      * destruct (U _ G2) as (k' & Gk & Ok). exists k'. split; auto.
    + intros H. inv H. destruct (U _ G1) as (k' & Gk & Ok). exists k'. split; auto.
  - unfold NQueueModel.step in D. destruct (chain_deq _ _ _). discriminate.
Qed.

(* ------------------------------------------------------------------ Handle Value Confirmation *)
(* a confirmation with a wrong length is answered with 01 1E 00 00 04 and changes nothing; one of length 1
   gets no response and ends the wait *)
Lemma confirmation_bad_length c st cid pdu b n st' r :
  5 <= n -> rd pdu 0 = Some 30 -> len pdu <> 1 ->
  handle_confirmation c st cid pdu b n = Some (st', r) ->
  st' = st /\ snd r = 5 /\ takeN 5 (fst r) = [1; 30; 0; 0; 4].
Proof.
  intros Hn Hop L. unfold handle_confirmation. rewrite Hop.
  replace (negb (len pdu =? 1)) with true by (symmetry; apply negb_true_iff, N.eqb_neq; exact L).
  unfold error_response. replace (5 <=? n) with true by (symmetry; apply N.leb_le; auto).
  destruct (put b 0 _) eqn:P; [|discriminate]. intros H. inv H. split; auto. split; [reflexivity|].
  apply put_take in P. exact P.
Qed.

Lemma confirmation_good c st cid b n k :
  get_conn st cid = Some k ->
  handle_confirmation c st cid [30] b n = Some (set_conn st cid (fst (nq_step k Confirm)), (b, 0))
  /\ out_of (fst (nq_step k Confirm)) = None.
Proof. intros G. unfold handle_confirmation. change (rd [30] 0) with (Some 30). cbn. rewrite G. split; reflexivity. Qed.

Lemma confirmation_bad_length_unchanged c st cid pdu b n st' r :
  handle_confirmation c st cid pdu b n = Some (st', r) -> len pdu <> 1 -> st' = st.
Proof.
  unfold handle_confirmation. destruct (rd pdu 0); [|discriminate].
  destruct (negb (len pdu =? 1)) eqn:E.
  - destruct (error_response _ _ _ _ _); [|discriminate]. intros H. inv H. reflexivity.
  - intros _ L. apply negb_false_iff, N.eqb_eq in E. contradiction.
Qed.

(* ------------------------------------------------------------------ one at a time, along a history *)
(* operations that end the wait for a confirmation on connection cid: a Handle Value Confirmation of length 1
   and a disconnect *)
Definition ends_wait (cid : nat) (o : srv_op) : bool :=
  match o with
  | OpIn i [30] _ => Nat.eqb i cid
  | OpDisc i => Nat.eqb i cid
  | _ => false
  end.

Lemma att_input_not_confirm c st cid pdu n st' rs k :
  get_conn st cid = Some k -> att_input c st cid pdu n = Some (st', rs) -> pdu <> [30] ->
  exists k', get_conn st' cid = Some k' /\ nq k' = nq k.
Proof.
  intros G A Np.
  destruct (rd pdu 0) as [op|] eqn:Hop.
  2:{ unfold att_input in A. rewrite G in A. destruct (len pdu =? 0); [discriminate|]. destruct (_ <? _); [discriminate|].
      rewrite Hop in A. discriminate. }
  destruct (N.eq_dec op 30) as [->|N30].
  - (* opcode 1E with a wrong length: rejected *)
    assert (L : len pdu <> 1).
    { intros L. apply Np. destruct pdu as [|a [|b t]]; [discriminate| |unfold len in L; cbn [length] in L; lia].
      change (rd [a] 0) with (Some a) in Hop. inv Hop. reflexivity. }
    exists k. split; auto.
    unfold att_input in A. rewrite G in A. destruct (len pdu =? 0); [discriminate|]. destruct (_ <? _); [discriminate|].
    rewrite Hop in A. cbn [N.eqb Pos.eqb] in A.
    destruct (handle_confirmation _ _ _ _ _ _) as [[s1 [b1 m]]|] eqn:HC; [|discriminate].
    apply confirmation_bad_length_unchanged in HC; auto. destruct (m <=? len b1); [|discriminate]. inv A. exact G.
  - pose proof (att_input_frameb _ _ _ _ _ _ _ _ Hop A) as F.
    replace (op =? 30) with false in F by (symmetry; apply N.eqb_neq; auto).
    destruct (frame_this _ _ _ _ _ F) as (k0 & k1 & G0 & G1 & C). rewrite G in G0. inv G0.
    exists k1. split; auto. eapply conn_change_nq; eauto.
Qed.

Lemma hd29 (A B : Prop) (x : N) (t : list N) :
  match x :: t with 29 :: _ => A | _ => B end -> (x = 29 /\ A) \/ (x <> 29 /\ B).
Proof.
  destruct (N.eq_dec x 29) as [->|Nx]; [left; auto|]. intros H. right. split; auto.
  destruct x as [|p]; auto. repeat (destruct p as [p|p|]; auto). exfalso. apply Nx. reflexivity.
Qed.

Lemma not29 (x : N) (t : list N) (P : Prop) : x <> 29 -> match x :: t with 29 :: _ => P | _ => True end.
Proof.
  intros Nx. destruct x as [|p]; auto. repeat (destruct p as [p|p|]; auto). exfalso. apply Nx. reflexivity.
Qed.

(* one step that does not end the wait keeps an outstanding indication outstanding, and does not transmit
   another indication on that connection *)
Lemma srv_step_keeps_waiting c st o cid k :
  get_conn st cid = Some k -> out_of k <> None -> ends_wait cid o = false ->
  (exists k', get_conn (fst (srv_step c st o)) cid = Some k' /\ out_of k' = out_of k)
  /\ match o, snd (srv_step c st o) with
     | OpOut i _, OBytes (29 :: _) => i <> cid
     | _, _ => True
     end.
Proof.
  intros G W E.
  destruct o as [i pdu n|i n|i e p|i|bu kd gci|gci|gci data]; cbn [srv_step ends_wait] in *.
  - split; auto.
    destruct (att_input c st i pdu n) as [[st' rs]|] eqn:A; cbn [fst]; eauto.
    destruct (Nat.eq_dec i cid) as [->|Ni].
    + assert (Np : pdu <> [30]).
      { intros ->. rewrite Nat.eqb_refl in E. discriminate. }
      destruct (att_input_not_confirm _ _ _ _ _ _ _ _ G A Np) as (k' & Gk & Q).
      exists k'. split; auto. unfold out_of. rewrite Q. reflexivity.
    + exists k. split; auto. rewrite (frame_other _ _ _ _ _ cid (att_input_frame _ _ _ _ _ _ _ A)); auto.
  - destruct (att_output c st i n) as [[st' rs]|] eqn:A; cbn [fst snd]; [|split; eauto].
    destruct (Nat.eq_dec i cid) as [->|Ni].
    + destruct (att_output_outstanding _ _ _ _ _ _ _ G A) as (k' & Gk & M).
      destruct rs as [|x t]; [split; eauto|].
      apply (hd29 _ _ x t) in M. destruct M as [[-> [M _]]|[Nx M]]; [contradiction|].
      split; [exists k'; split; auto|apply not29; auto].
    + split.
      * exists k. split; auto. rewrite (frame_other _ _ _ _ _ cid (att_output_frame _ _ _ _ _ _ A)); auto.
      * destruct rs as [|x t]; auto. destruct x as [|p]; auto. repeat (destruct p as [p|p|]; auto).
  - split; auto. destruct (get_conn st i) as [k0|] eqn:G0; cbn [fst]; eauto.
    destruct (Nat.eq_dec cid i) as [->|N].
    + rewrite G in G0. inv G0. eexists. split.
      * unfold get_conn, set_conn. cbn [conns]. apply nth_error_upd_eq. eapply nth_error_lt; eauto.
      * reflexivity.
    + exists k. split; auto. unfold get_conn, set_conn. cbn [conns]. rewrite nth_error_upd_neq; auto.
  - split; auto. cbn [fst]. apply Nat.eqb_neq in E. exists k. split; auto.
    unfold get_conn, set_conn. cbn [conns]. rewrite nth_error_upd_neq by auto. rewrite wq_free_conns. exact G.
  - split; auto.
    assert (R : forall d, exists k', get_conn (fst (request st kd d)) cid = Some k' /\ out_of k' = out_of k).
    { intros d. unfold request. destruct (queue_all (conns st) _) as [l rs] eqn:Q. cbn [fst].
      destruct (queue_all_spec _ _ _ _ Q) as (_ & N0). unfold get_conn in *. cbn [conns].
      rewrite (N0 _ _ G). eexists. split; [reflexivity|]. unfold out_of, nq_step.
      pose proof (step_queue_outstanding (nq k) (N.to_nat (snd d)) kd) as S.
      destruct (NQueueModel.step (nq k) _). exact S. }
    destruct bu.
    + destruct (by_uuid_available c kd gci); cbn [fst]; eauto.
      unfold notify_by_uuid. destruct (nth_error (all_chars c) gci) as [x|]; cbn [fst]; eauto.
      destruct (find_notification_by_uuid c (c_uuid (snd x))) as [d|]; cbn [fst]; eauto.
      specialize (R d). destruct (request st kd d). exact R.
    + destruct (by_value_available c gci); cbn [fst]; eauto.
      unfold notify_by_value. destruct (find_notification_data c gci) as [d|]; cbn [fst]; eauto.
      specialize (R d). destruct (request st kd d). exact R.
  - split; auto. destruct (has_var c gci) as [[w h]|]; cbn [fst]; eauto.
  - split; auto. destruct (has_var c gci) as [[[|] h]|]; cbn [fst]; eauto.
Qed.

(* after an indication is transmitted on a connection, no further indication is transmitted on it by ANY
   history that contains no confirmation of length 1 / disconnect for that connection *)
Theorem one_indication_at_a_time c cid : forall ops st k,
  get_conn st cid = Some k -> out_of k <> None ->
  forallb (fun o => negb (ends_wait cid o)) ops = true ->
  Forall (fun x => match fst x, snd x with OpOut i _, OBytes (29 :: _) => i <> cid | _, _ => True end) (srv_run c st ops).
Proof.
  induction ops as [|o t IH]; intros st k G W F; cbn [srv_run]; [constructor|].
  cbn [forallb] in F. apply andb_true_iff in F. destruct F as [F1 F2]. apply negb_true_iff in F1.
  destruct (srv_step_keeps_waiting c st o cid k G W F1) as ((k' & Gk & Ok) & M).
  destruct (srv_step c st o) as [st' r] eqn:S. cbn [fst snd] in *.
  constructor; [cbn [fst snd]; destruct o; auto; rewrite S in M; exact M|]. eapply IH; eauto. rewrite Ok. exact W.
Qed.

(* ------------------------------------------------------------------ the monitor (safety clauses) accepts every trace of the model *)
From BT Require Import AttSrv.AttSrvNotifSpec AttSrv.AttSrvSpecC11 AttSrv.AttSrvNotifObs AttSrv.AttSrvProofsC08.

(* simulation invariant: when the observer waits for a confirmation, so does the queue of the model *)
Definition sim11 (st : srv_state) (m : obs) : Prop :=
  length (ob_conns m) = length (conns st)
  /\ forall cid k, get_conn st cid = Some k -> o_out (oc_at m cid) = true -> out_of k <> None.

Lemma sim11_init c : sim11 (srv_init c) (obs_init c).
Proof.
  split; [unfold obs_init, srv_init; cbn [ob_conns conns]; rewrite !repeat_length; reflexivity|].
  intros cid k G. unfold oc_at, obs_init. cbn [ob_conns].
  assert (Hc : (cid < n_conns)%nat).
  { apply nth_error_lt in G. unfold srv_init in G. cbn [conns] in G. rewrite repeat_length in G. exact G. }
  rewrite repeat_nth by exact Hc. cbn [oc_init o_out]. discriminate.
Qed.

Lemma att_input_opcode30 c st cid pdu n k :
  get_conn st cid = Some k -> rd pdu 0 = Some 30 -> default_att_mtu <= N.min n (negotiated_mtu c k) ->
  att_input c st cid pdu n =
  match handle_confirmation c st cid pdu (repeat fill_byte (N.to_nat n)) (N.min n (negotiated_mtu c k)) with
  | Some (st', (b', m)) => if m <=? len b' then Some (st', takeN m b') else None
  | None => None
  end.
Proof.
  intros G Hop L. unfold att_input. rewrite G.
  assert (len pdu =? 0 = false) as ->.
  { apply N.eqb_neq. unfold rd in Hop. destruct (0 <? len pdu) eqn:E; [|discriminate]. apply N.ltb_lt in E. lia. }
  replace (N.min n (negotiated_mtu c k) <? default_att_mtu) with false by (symmetry; apply N.ltb_ge; exact L).
  rewrite Hop. cbn [N.eqb Pos.eqb]. destruct (handle_confirmation _ _ _ _ _ _) as [[s1 [b1 m]]|]; reflexivity.
Qed.

Lemma confirmation_answer c st cid rest n st' rs :
  att_input c st cid (30 :: rest) n = Some (st', rs) ->
  match rest with [] => rs = [] | _ => rs = [1; 30; 0; 0; 4] end.
Proof.
  intros A. destruct (att_input_success _ _ _ _ _ _ _ A) as (k & op & G & L & M & Hop).
  rewrite (att_input_opcode30 c st cid (30 :: rest) n k G eq_refl M) in A.
  destruct rest as [|x t].
  - destruct (confirmation_good c st cid (repeat fill_byte (N.to_nat n)) (N.min n (negotiated_mtu c k)) k G) as (HC & _).
    rewrite HC in A. destruct (0 <=? _); [|discriminate]. inv A. reflexivity.
  - destruct (handle_confirmation _ _ _ _ _ _) as [[s1 [b1 mm]]|] eqn:HC; [|discriminate].
    assert (H5 : 5 <= N.min n (negotiated_mtu c k)) by (unfold default_att_mtu in M; lia).
    destruct (confirmation_bad_length c st cid (30 :: x :: t) _ _ _ _ H5 eq_refl ltac:(unfold len; cbn [length]; lia) HC) as (_ & S5 & T5).
    cbn [fst snd] in S5, T5. subst mm. destruct (5 <=? len b1); [|discriminate]. inv A. exact T5.
Qed.

Lemma check11_core_ok c st m o :
  sim11 st m -> snd (srv_step c st o) <> OFault -> check11_core c m o (snd (srv_step c st o)) = None.
Proof.
  intros [SL S] NF. destruct o as [cid pdu n|cid n|cid e p|cid|bu kd g|g|g data]; cbn [srv_step] in *.
  - destruct (att_input c st cid pdu n) as [[st' rs]|] eqn:A; cbn [snd] in *; [|contradiction].
    destruct (att_input_success _ _ _ _ _ _ _ A) as (k & op & G & L & M & Hop).
    destruct pdu as [|a rest]; [reflexivity|].
    destruct (N.eq_dec a 30) as [->|Na].
    + cbn [check11_core]. replace (n <? default_att_mtu) with false by (symmetry; apply N.ltb_ge; lia).
      pose proof (confirmation_answer _ _ _ _ _ _ _ A) as X.
      destruct rest as [|x t]; rewrite X; reflexivity.
    + cbn [check11_core]. destruct a as [|p]; [reflexivity|]. repeat (destruct p as [p|p|]; try reflexivity). exfalso. apply Na. reflexivity.
  - destruct (att_output c st cid n) as [[st' rs]|] eqn:A; cbn [snd] in *; [|contradiction].
    assert (exists k, get_conn st cid = Some k) as (k & G).
    { unfold att_output in A. destruct (get_conn st cid); [eauto|discriminate]. }
    cbn [check11_core]. destruct rs as [|opc t]; [reflexivity|].
    destruct (opc =? 29) eqn:E; [|reflexivity]. apply N.eqb_eq in E. subst opc.
    destruct (o_out (oc_at m cid)) eqn:O; [|reflexivity]. exfalso.
    destruct (att_output_outstanding _ _ _ _ _ _ _ G A) as (k' & _ & M1 & _). exact (S _ _ G O M1).
  - destruct (get_conn st cid); reflexivity.
  - reflexivity.
  - destruct bu.
    + destruct (by_uuid_available c kd g); [|reflexivity]. destruct (notify_by_uuid c st kd g) as [[s r]|]; cbn [snd] in *; [reflexivity|contradiction].
    + destruct (by_value_available c g); [|reflexivity]. destruct (notify_by_value c st kd g) as [[s r]|]; cbn [snd] in *; [reflexivity|contradiction].
  - destruct (has_var c g) as [[w h]|]; reflexivity.
  - destruct (has_var c g) as [[[|] h]|]; reflexivity.
Qed.

Lemma core_eff_out c st m o cid x :
  snd (srv_step c st o) <> OFault ->
  snd (core_eff c m o (snd (srv_step c st o)) cid x) = true ->
  (snd x = true /\ ends_wait cid o = false)
  \/ (exists n t, o = OpOut cid n /\ snd (srv_step c st o) = OBytes (29 :: t)).
Proof.
  intros NF. destruct x as [[mtu enc] out].
  destruct o as [i pdu n|i n|i e p|i|bu kd g|g|g data]; cbn [srv_step ends_wait] in *.
  - destruct (att_input c st i pdu n) as [[st' rs]|] eqn:A; cbn [snd] in *; [|contradiction].
    destruct (att_input_success _ _ _ _ _ _ _ A) as (k & op & G & L & M & Hop).
    rewrite (core_in_classified c m i pdu n rs cid (mtu, enc, out)). rewrite L.
    replace (n <? default_att_mtu) with false by (symmetry; apply N.ltb_ge; lia).
    destruct (Nat.eqb i cid) eqn:Ei; cbn [negb orb fst snd].
    + destruct (classify pdu) as [lo hi| |] eqn:Cl.
      * apply classify_mtu in Cl. subst pdu. intros H. left. split; [destruct (_ && _); exact H|reflexivity].
      * discriminate.
      * intros H. left. split; [exact H|].
        destruct pdu as [|a [|b t]]; try reflexivity;
          (destruct a as [|p]; try reflexivity; repeat (destruct p as [p|p|]; try reflexivity); discriminate Cl).
    + intros H. left. split; [exact H|].
      destruct pdu as [|a [|b t]]; try reflexivity;
        (destruct a as [|p]; try reflexivity; repeat (destruct p as [p|p|]; try reflexivity); exact Ei).
  - destruct (att_output c st i n) as [[st' rs]|]; cbn [snd] in *; [|contradiction].
    cbn [core_eff]. destruct rs as [|a [|b [|d t]]]; try (intros H; left; split; [exact H|reflexivity]).
    destruct (Nat.eqb i cid && (a =? 29)) eqn:Cd; cbn [snd]; [|intros H; left; split; [exact H|reflexivity]].
    intros _. right. apply andb_true_iff in Cd. destruct Cd as [C1 C2].
    apply Nat.eqb_eq in C1. apply N.eqb_eq in C2. subst. eauto.
  - intros H. left. split; [|reflexivity]. destruct (get_conn st i); cbn [snd core_eff] in H; destruct (Nat.eqb i cid); exact H.
  - cbn [snd core_eff]. destruct (Nat.eqb i cid); cbn [snd]; [discriminate|]. intros H. left. auto.
  - intros H. left. split; [|reflexivity]. destruct bu.
    + destruct (by_uuid_available c kd g); [|exact H]. destruct (notify_by_uuid c st kd g) as [[s r]|]; exact H.
    + destruct (by_value_available c g); [|exact H]. destruct (notify_by_value c st kd g) as [[s r]|]; exact H.
  - intros H. left. split; [|reflexivity]. destruct (has_var c g) as [[w h]|]; exact H.
  - intros H. left. split; [|reflexivity]. destruct (has_var c g) as [[[|] h]|]; exact H.
Qed.

Lemma sim11_step c st m o :
  sim11 st m -> snd (srv_step c st o) <> OFault ->
  sim11 (fst (srv_step c st o)) (advance c m o (snd (srv_step c st o))).
Proof.
  intros [SL S] NF. destruct (advance_follows c m o (snd (srv_step c st o))) as (AL & AC).
  split; [rewrite AL, srv_step_length; exact SL|].
  intros cid k' G' O'.
  assert (Hc : (cid < length (conns st))%nat).
  { rewrite <- (srv_step_length c st o). eapply nth_error_lt; eauto. }
  destruct (nth_error (conns st) cid) as [k|] eqn:G; [|apply nth_error_None in G; lia].
  assert (X : o_out (oc_at (advance c m o (snd (srv_step c st o))) cid)
              = snd (core (oc_at (advance c m o (snd (srv_step c st o))) cid))) by reflexivity.
  rewrite X, AC in O' by (rewrite SL; exact Hc).
  destruct (core_eff_out c st m o cid _ NF O') as [[Ho Ne]|(n & t & -> & Er)].
  - cbn [core snd] in Ho. pose proof (S _ _ G Ho) as W.
    destruct (srv_step_keeps_waiting c st o cid k G W Ne) as ((k1 & G1 & O1) & _).
    rewrite G1 in G'. inv G'. rewrite O1. exact W.
  - cbn [srv_step] in *. destruct (att_output c st cid n) as [[st' rs]|] eqn:A; cbn [fst snd] in *; [|discriminate].
    inv Er. destruct (att_output_outstanding _ _ _ _ _ _ _ G A) as (k1 & G1 & _ & M2).
    rewrite G1 in G'. inv G'. exact M2.
Qed.

Theorem monitor11_core_accepts c : forall ops st m pos,
  sim11 st m -> no_fault (srv_run c st ops) -> monitor_from_of check11_core c m pos (srv_run c st ops) = None.
Proof.
  induction ops as [|o t IH]; intros st m pos S NF; cbn [srv_run monitor_from_of]; [reflexivity|].
  pose proof (check11_core_ok c st m o S) as CK. pose proof (sim11_step c st m o S) as ST.
  destruct (srv_step c st o) as [st' r] eqn:E. cbn [fst snd] in *.
  cbn [srv_run] in NF. rewrite E in NF. inversion NF as [|? ? NF1 NF2]; subst. cbn [snd] in NF1.
  cbn [monitor_from_of]. unfold mstep_of. rewrite (CK NF1). apply IH; auto.
Qed.

Theorem monitor11_core_accepts_model c ops :
  no_fault (srv_run c (srv_init c) ops) -> monitor11_core c (srv_run c (srv_init c) ops) = None.
Proof. intros NF. apply monitor11_core_accepts; auto. apply sim11_init. Qed.
