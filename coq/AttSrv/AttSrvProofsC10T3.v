(* C10, trace level: the clause wrong_characteristic (a transmitted PDU carries the value handle of a characteristic
   that was requested on that connection). *)
From Coq Require Import Lia ZifyBool Permutation.
From BT Require Import Base.ListX Base.Bits2 AttDb.AttDbModel AttDb.AttDbProofs AttDb.AttDbNotifProofs AttDb.AttDbNotifIndex AttDb.AttDbCccdIndex AttDb.AttDbAttrList
  NQueue.NQueueModel NQueue.NQueueSpec NQueue.NQueueProofs NQueue.NQueueDrain
  AttSrv.AttSrvModel AttSrv.AttSrvSpecC01 AttSrv.AttSrvProofsC01 AttSrv.AttSrvFrame AttSrv.AttSrvCbModel AttSrv.AttSrvNotifSpec AttSrv.AttSrvNotifObs
  AttSrv.AttSrvNotifObs09 AttSrv.AttSrvSpecC10 AttSrv.AttSrvProofsC08 AttSrv.AttSrvProofsC09 AttSrv.AttSrvProofsC09T AttSrv.AttSrvProofsC09T2
  AttSrv.AttSrvProofsC10 AttSrv.AttSrvProofsC11 AttSrv.AttSrvProofsC11Live AttSrv.AttSrvNoFault AttSrv.AttSrvProofsC10T AttSrv.AttSrvProofsC10T2.
Local Open Scope N_scope.

Lemma by_value_handle_ex c ai s ch g cci : wf c -> no_includes c ->
  attribute_at c ai = Some (AValue s ch g cci) -> exists g', by_value_handle (char_table c) (handle_by_index c ai) = Some g'.
Proof.
  intros W NI A. pose proof (attribute_at_lt _ _ _ A) as L0. destruct (index_by_handle_inverse c ai W NI L0) as (_ & I2).
  unfold by_value_handle. replace (handle_by_index c ai =? 0) with false by (symmetry; apply N.eqb_neq; exact I2).
  apply (find_idx_ex _ _ _ (cent_of c (attr_table c) ai s ch g cci)).
  - apply char_table_in. exists ai, s, ch, g, cci. split; [|reflexivity]. apply attr_table_in. split; [exact L0|exact A].
  - cbn [cent_of ce_vh]. apply N.eqb_refl.
Qed.

Lemma char_table_length c : length (char_table c) = length (flat_map s_chars (services c)).
Proof. rewrite char_table_FF, table_length_vc, alist_vcs, <- all_chars_snd, map_length. reflexivity. Qed.

Lemma sorted_gci_lt c i x : nth_error (sorted_infos c) i = Some x -> (ci_gci x < length (char_table c))%nat.
Proof.
  intros Nx. destruct (sorted_in_all c x (nth_error_In _ _ Nx)) as (x1 & p & I1 & _ & ->). cbn [set_pos ci_gci].
  assert (I : In (ci_gci x1) (map ci_gci (all_infos c))) by (apply in_map; exact I1).
  unfold all_infos in I. rewrite svcs_infos_gci in I. apply in_seq in I.
  rewrite char_table_length. rewrite <- (svcs_infos_chars c (services c) O 0), map_length. lia.
Qed.

Lemma minit_mget : forall sizes i, mget (map minit_level sizes) i = 0.
Proof.
  induction sizes as [|sz t IH]; intros i; cbn [map mget]; [reflexivity|].
  unfold minit_level at 1 2. cbn [msize mpend]. destruct (i <? sz)%nat; [|apply IH].
  revert i. induction sz as [|sz IHs]; intros [|i]; cbn [repeat nth]; auto.
Qed.

(* ------------------------------------------------------------------ one poll of the model *)
Lemma out_bits c st cid n st' rs k mq q1 r :
  get_conn st cid = Some k -> st_rel (nq k) mq -> NQueueModel.step (nq k) Dequeue = (q1, r) ->
  att_output c st cid n = Some (st', rs) ->
  exists k1 mq2, get_conn st' cid = Some k1 /\ st_rel (nq k1) mq2 /\
    forall j kd', has (mget (mlevels mq2) j) kd' = true ->
      has (mget (mlevels mq) j) kd' = true /\ (forall kd i, r = OEntry (Some (kd, i)) -> j = i -> kd' <> kd).
Proof.
  intros G R D A. pose proof (st_rel_mwf _ _ R) as Wm.
  destruct (att_output_conn c st cid n st' rs k q1 r G D A) as (k1 & G1 & _ & Qn).
  assert (Sub : exists mq1, st_rel q1 mq1 /\ forall j kd', has (mget (mlevels mq1) j) kd' = true ->
             has (mget (mlevels mq) j) kd' = true /\ (forall kd i, r = OEntry (Some (kd, i)) -> j = i -> kd' <> kd)).
  { destruct r as [b|[[kd i]|]|].
    - destruct (dequeue_abs _ _ R) as (m1 & _ & Dq). rewrite D in Dq. destruct Dq.
    - destruct (dequeue_abs _ _ R) as (m1 & R1 & Dq). rewrite D in R1, Dq. cbn [fst snd] in R1, Dq. destruct Dq as (_ & _ & Gm).
      exists m1. split; [exact R1|]. intros j kd' Hh. rewrite Gm in Hh. destruct (Nat.eqb j i) eqn:J.
      + apply Nat.eqb_eq in J. subst j. rewrite has_ldiff in Hh by (apply mget_lt4; exact Wm). apply andb_true_iff in Hh. destruct Hh as [H1 H2].
        split; [exact H1|]. intros kd0 i0 E _. inversion E; subst. intros ->. destruct kd0; discriminate.
      + split; [exact Hh|]. intros kd0 i0 E J2. inversion E; subst. rewrite Nat.eqb_refl in J. discriminate.
    - destruct (step_rel _ _ Dequeue R) as (m1 & E & R1). rewrite D in E, R1. cbn [fst snd NQueueSpec.mstep] in E, R1.
      apply f_pair_inj in E. destruct E as [_ <-]. exists mq. split; [exact R1|]. intros j kd' Hh. split; [exact Hh|]. intros ? ? E. discriminate.
    - destruct (dequeue_abs _ _ R) as (m1 & _ & Dq). rewrite D in Dq. destruct Dq. }
  destruct Sub as (mq1 & R1 & B1). exists k1. destruct Qn as [Qn|Qn].
  - exists mq1. rewrite Qn. auto.
  - exists (mkm (mlevels mq1) false). rewrite Qn. split; [exact G1|]. split; [apply confirm_abs; exact R1|exact B1].
Qed.

Lemma out_key c st cid n st' rs k mq q1 r :
  wf c -> no_includes c -> env10 c = true ->
  get_conn st cid = Some k -> st_rel (nq k) mq -> qsize (nq k) = queue_total c ->
  NQueueModel.step (nq k) Dequeue = (q1, r) -> att_output c st cid n = Some (st', rs) -> rs <> [] ->
  exists kd i x ai d, r = OEntry (Some (kd, i))
    /\ rs = (match kd with KNotif => 27 | KInd => 29 end) :: le16 (handle_by_index c ai) ++ d
    /\ nth_error (sorted_infos c) i = Some x
    /\ attribute_at c ai = Some (AValue (ci_svc x) (ci_char x) (ci_gci x) (ci_pos x))
    /\ handle_by_index c ai < 65536 /\ has (mget (mlevels mq) i) kd = true.
Proof.
  intros W NI EV G R Q D A Hr.
  unfold env10 in EV. apply andb_true_iff in EV. destruct EV as [EV Eq]. apply andb_true_iff in EV. destruct EV as [EV Eh].
  apply andb_true_iff in EV. destruct EV as [E9 Ea]. apply Nat.eqb_eq in Eq.
  destruct (att_output_entry c st cid n st' _ k G A Hr) as (kd & i & q1' & D').
  assert (Er : r = OEntry (Some (kd, i))) by congruence. assert (q1' = q1) by congruence. subst q1'.
  destruct (att_output_pdu c st cid n st' _ k q1 kd i G D' A Hr) as (B & a & s1 & d & At & _ & Erx).
  set (ai := fst (find_notification_data_by_index c (N.of_nat i))) in *.
  pose proof (dequeued_index_in_range _ _ _ _ _ R D') as Hi. rewrite Q, Eq in Hi.
  destruct (nth_error (sorted_infos c) i) as [x|] eqn:Nx; [|apply nth_error_None in Nx; rewrite sorted_infos_length in Nx; lia].
  destruct (right_characteristic_nonempty c i x Ea Nx) as (Fd & Av & Cp).
  assert (Eai : ai = ci_first x + 1) by (unfold ai; rewrite Fd; reflexivity).
  rewrite <- Eai in Av.
  assert (H16 : handle_by_index c ai < 65536).
  { rewrite forallb_forall in Eh. apply N.ltb_lt. apply (Eh (ai, AValue (ci_svc x) (ci_char x) (ci_gci x) (ci_pos x))).
    apply attr_table_in. split; [eapply attribute_at_lt; eauto|exact Av]. }
  exists kd, i, x, ai, d. split; [exact Er|]. split; [exact Erx|]. split; [exact Nx|]. split; [exact Av|]. split; [exact H16|].
  destruct (dequeue_abs _ _ R) as (m1 & _ & Dq). rewrite D' in Dq. cbn [snd] in Dq. destruct Dq as (El2 & _). eapply eligible_has'; eauto.
Qed.

(* ------------------------------------------------------------------ the clause wrong_characteristic *)
Definition check10_wc (c : cfg) (m : obs) (o : srv_op) (r : srv_out) : option nat :=
  match o, r with
  | OpOut cid n, OBytes pdu =>
      match pdu with
      | [] => None
      | opc :: lo :: hi :: v =>
          if (opc =? 27) || (opc =? 29) then
            let kd := if opc =? 27 then KNotif else KInd in
            match by_value_handle (ob_tab m) (lo + 256 * hi) with
            | None => Some t10_wrong_characteristic
            | Some g => if pick kd (nth g (o_pend (oc_at m cid)) (0, 0)) =? 0 then Some t10_wrong_characteristic else None
            end
          else Some t10_wrong_characteristic
      | _ => Some t10_wrong_characteristic
      end
  | _, _ => None
  end.

Definition monitor10_wc (c : cfg) (tr : list (srv_op * srv_out)) : option (nat * nat) :=
  monitor_from_of check10_wc c (obs_init c) O tr.

Lemma check10_wc_complete c m o r :
  check10 c m o r = Some t10_wrong_characteristic -> check10_wc c m o r = Some t10_wrong_characteristic.
Proof.
  destruct o as [cid pdu n|cid n|cid e p|cid|bu kd g|g|g data]; destruct r as [l| |l| | |l lg]; cbn [check10 check10_wc fault_relevant];
    try discriminate; try (destruct (_ || _ || _ || _); discriminate); try (destruct (Nat.eqb _ _); discriminate).
  - destruct pdu as [|a t]; [discriminate|]. destruct (_ || _ || _ || _); discriminate.
  - destruct l as [|opc [|lo [|hi v]]]; try discriminate; auto.
    destruct ((opc =? 27) || (opc =? 29)); [|auto].
    destruct (by_value_handle (ob_tab m) (lo + 256 * hi)) as [g|]; [|auto].
    destruct (pick _ _ =? 0); [auto|]. destruct (pick _ _ =? 2); [discriminate|].
    destruct (nth g (o_cccd (oc_at m cid)) None) as [bits|].
    + destruct (N.land bits _ =? 0); [discriminate|]. destruct (nth g (ob_vals m) None); [destruct (value_ok10 _ _ _)|]; discriminate.
    + destruct (nth g (ob_vals m) None); [destruct (value_ok10 _ _ _)|]; discriminate.
Qed.

(* the invariant: a queued request is marked in the observer's requested set *)
Definition zinv (c : cfg) (st : srv_state) (m : obs) : Prop :=
  forall cid k, get_conn st cid = Some k ->
  length (o_pend (oc_at m cid)) = length (char_table c) /\
  exists mq, st_rel (nq k) mq /\
    forall i x kd, nth_error (sorted_infos c) i = Some x -> has (mget (mlevels mq) i) kd = true ->
                   pick kd (nth (ci_gci x) (o_pend (oc_at m cid)) (0, 0)) <> 0.

Lemma zinv_weaken c st m st' m' :
  zinv c st m -> keepsP m m' ->
  (forall j k', get_conn st' j = Some k' ->
     exists k, get_conn st j = Some k /\ (nq k' = nq k \/ nq k' = fst (NQueueModel.step (nq k) Confirm))) ->
  zinv c st' m'.
Proof.
  intros P K H j k' G'. destruct (H _ _ G') as (k & G & Q). destruct (P _ _ G) as (Lp & mq & R & X). rewrite K.
  split; [exact Lp|]. destruct Q as [Q|Q]; rewrite Q.
  - exists mq. split; [exact R|]. exact X.
  - exists (mkm (mlevels mq) false). split; [apply confirm_abs; exact R|]. exact X.
Qed.

Lemma zinv_same c st m st' m' :
  zinv c st m -> keepsP m m' -> (forall j, get_conn st' j = get_conn st j) -> zinv c st' m'.
Proof.
  intros P K H. apply (zinv_weaken c st m st' m' P K). intros j k' G'. rewrite H in G'. exists k'. split; [exact G'|left; reflexivity].
Qed.

Lemma zinv_out c st m cid n st' rs k :
  wf c -> no_includes c -> env10 c = true -> ob_tab m = char_table c ->
  zinv c st m -> get_conn st cid = Some k -> qsize (nq k) = queue_total c ->
  att_output c st cid n = Some (st', rs) ->
  check10_wc c m (OpOut cid n) (OBytes rs) = None /\ zinv c st' (adv_out c m cid n rs).
Proof.
  intros W NI EV T P G Q A. destruct (P _ _ G) as (Lp & mq & R & X).
  destruct (NQueueModel.step (nq k) Dequeue) as [q1 r] eqn:D.
  destruct (out_bits c st cid n st' rs k mq q1 r G R D A) as (k1 & mq2 & G1 & R2 & B2).
  assert (Oth : forall j, j <> cid -> get_conn st' j = get_conn st j).
  { intros j Nj. apply (frame_other _ _ _ _ _ j (att_output_frame _ _ _ _ _ _ A) Nj). }
  assert (Key : rs <> [] -> exists kd i x lo hi v, r = OEntry (Some (kd, i))
                  /\ rs = (match kd with KNotif => 27 | KInd => 29 end) :: lo :: hi :: v
                  /\ nth_error (sorted_infos c) i = Some x
                  /\ by_value_handle (char_table c) (lo + 256 * hi) = Some (ci_gci x)
                  /\ has (mget (mlevels mq) i) kd = true).
  { intros Hr. destruct (out_key c st cid n st' rs k mq q1 r W NI EV G R Q D A Hr) as (kd & i & x & ai & d & Er & Ers & Nx & Av & H16 & Hh).
    exists kd, i, x, (handle_by_index c ai mod 256), ((handle_by_index c ai / 256) mod 256), d.
    split; [exact Er|]. split; [exact Ers|]. split; [exact Nx|]. split; [|exact Hh].
    rewrite le16_decode by exact H16. destruct (by_value_handle_ex c ai _ _ _ _ W NI Av) as (g' & Bv). rewrite Bv. f_equal.
    eapply by_value_handle_gci; eauto. }
  split.
  - destruct rs as [|a rs']; [reflexivity|].
    destruct (Key ltac:(discriminate)) as (kd & i & x & lo & hi & v & Er & Ers & Nx & Bv & Hh). rewrite Ers. cbn [check10_wc].
    rewrite T, Bv. pose proof (X i x kd Nx Hh) as Ne.
    destruct kd; cbn [N.eqb Pos.eqb orb]; (destruct (_ =? 0) eqn:E0; [apply N.eqb_eq in E0; contradiction|reflexivity]).
  - intros j k' G'. destruct (Nat.eq_dec j cid) as [->|Nj].
    + rewrite G1 in G'. apply f_some_inj in G'. subst k'.
      destruct (adv_out_pend c m cid n rs) as [Ep|(opc & lo & hi & v & g & kd & Er & Bv & Ek & Ep)]; rewrite Ep.
      * split; [exact Lp|]. exists mq2. split; [exact R2|]. intros i x kd' Nx Hh. destruct (B2 _ _ Hh) as (H1 & _). eapply X; eauto.
      * split; [rewrite upd_length; exact Lp|]. exists mq2. split; [exact R2|].
        intros i x kd' Nx Hh. destruct (B2 _ _ Hh) as (H1 & H2). pose proof (X i x kd' Nx H1) as Old.
        destruct (Key ltac:(rewrite Er; discriminate)) as (kd2 & i2 & x2 & lo2 & hi2 & v2 & Err & Ers & Nx2 & Bv2 & _).
        rewrite Er in Ers. injection Ers as Eo El Eh Ev. subst lo2 hi2.
        rewrite T, Bv2 in Bv. apply f_some_inj in Bv. subst g.
        assert (kd = kd2) by (subst kd opc; destruct kd2; reflexivity). subst kd2.
        rewrite pend_upd_other; [exact Old|].
        destruct (Nat.eq_dec i i2) as [->|Ni]; [right; apply (H2 kd i2 Err eq_refl)|left].
        intros Eq. apply Ni. eapply sorted_gci_inj; eauto.
    + rewrite Oth in G' by exact Nj. destruct (P _ _ G') as (Lp' & mq' & R' & X'). rewrite adv_out_other by exact Nj.
      split; [exact Lp'|]. exists mq'. split; [exact R'|]. exact X'.
Qed.

(* ------------------------------------------------------------------ a request *)
Lemma pend_request_ok0 (l : list (N * N)) g tgt kd kd' :
  (pick kd' (nth g l (0, 0)) <> 0 \/ (g = tgt /\ kd' = kd /\ (g < length l)%nat)) ->
  pick kd' (nth g (upd l tgt (put_k kd (nth tgt l (0, 0)) 1)) (0, 0)) <> 0.
Proof.
  intros H. destruct (Nat.eq_dec g tgt) as [->|Ng].
  - destruct H as [H|(_ & -> & Lt)].
    + destruct (lt_dec tgt (length l)) as [Lt|Ge]; [rewrite nth_upd_eq by exact Lt|rewrite upd_out by lia; exact H].
      destruct kd, kd'; cbn [pick put_k fst snd] in *; try discriminate; exact H.
    + rewrite nth_upd_eq by exact Lt. destruct kd; cbn [pick put_k fst snd]; discriminate.
  - rewrite pend_upd_other by (left; exact Ng). destruct H as [H|(H & _)]; [exact H|contradiction].
Qed.

Lemma zinv_request c st m kd d tgt :
  length (ob_conns m) = length (conns st) ->
  zinv c st m ->
  (exists x, nth_error (sorted_infos c) (N.to_nat (snd d)) = Some x /\ ci_gci x = tgt) ->
  zinv c (fst (request st kd d))
       (mkObs (ob_tab m) (adv_request (ob_tab m) tgt kd (ob_conns m) (snd (request st kd d))) (ob_vals m) (ob_cb m)).
Proof.
  intros L P (x0 & Nx0 & Gx0). unfold request.
  set (i0 := N.to_nat (snd d)) in *. set (o := match kd with KNotif => QueueN i0 | KInd => QueueI i0 end).
  pose proof (queue_all_spec o (conns st)) as (Ln & Hn).
  destruct (queue_all (conns st) o) as [l rs]. cbn [fst snd] in *.
  set (m' := mkObs (ob_tab m) (adv_request (ob_tab m) tgt kd (ob_conns m) rs) (ob_vals m) (ob_cb m)).
  intros j k' G'. unfold get_conn in G'. cbn [conns] in G'. rewrite Hn in G'.
  destruct (nth_error (conns st) j) as [k|] eqn:Gk; [|discriminate]. cbn [option_map] in G'. apply f_some_inj in G'. subst k'.
  destruct (P j k Gk) as (Lp & mq & R & X). destruct (step_rel _ _ o R) as (mq' & E & R').
  pose proof (st_rel_mwf _ _ R) as Wm.
  assert (Em : mlevels mq' = snd (m_chain_add (mlevels mq) i0 kd)).
  { subst o. destruct kd; destruct (snd (NQueueModel.step (nq k) _)) as [b|e|]; cbn [NQueueSpec.mstep] in E; try discriminate;
      destruct (m_chain_add (mlevels mq) i0 _) as [e1 ls]; apply f_pair_inj in E; destruct E as [_ <-]; reflexivity. }
  assert (Lj : (j < length (ob_conns m))%nat) by (rewrite L; apply nth_error_Some; unfold get_conn in Gk; rewrite Gk; discriminate).
  assert (Eo : o_pend (oc_at m' j) = upd (o_pend (oc_at m j)) tgt (put_k kd (nth tgt (o_pend (oc_at m j)) (0, 0)) 1)).
  { unfold oc_at at 1. unfold m'. cbn [ob_conns]. rewrite adv_request_pend by (auto; lia). reflexivity. }
  rewrite Eo. split; [rewrite upd_length; exact Lp|].
  exists mq'. split.
  { unfold nq_step. destruct (NQueueModel.step (nq k) o) as [q r]. cbn [fst nq] in *. exact R'. }
  intros i x kd' Nx Hh. apply pend_request_ok0.
  rewrite Em, m_chain_add_get in Hh by exact Wm.
  destruct (Nat.eqb i i0 && (i0 <? mtotal (mlevels mq))%nat)%bool eqn:Ca.
  - apply andb_true_iff in Ca. destruct Ca as [Ca _]. apply Nat.eqb_eq in Ca. subst i.
    assert (x = x0) by congruence. subst x.
    rewrite has_lor in Hh by (apply mget_lt4; exact Wm). apply orb_true_iff in Hh. destruct Hh as [Hh|Hh].
    + left. eapply X; eauto.
    + right. split; [exact Gx0|]. split; [destruct kd, kd'; try discriminate; reflexivity|]. rewrite Lp. eapply sorted_gci_lt; eauto.
  - left. eapply X; eauto.
Qed.

Lemma nth_repeat_lt (A : Type) (a d : A) : forall n j, (j < n)%nat -> nth j (repeat a n) d = a.
Proof. induction n as [|n IH]; intros [|j] H; cbn [repeat nth]; try lia; auto. apply IH. lia. Qed.

Lemma zinv_disc c st m cid :
  wf c -> ob_tab m = char_table c -> length (ob_conns m) = length (conns st) -> zinv c st m ->
  zinv c (set_conn (wq_free st cid) cid (init_conn c)) (set_oc m cid (oc_init (length (ob_tab m)))).
Proof.
  intros W T L P j k' G'.
  assert (Gw : forall i, get_conn (wq_free st cid) i = get_conn st i).
  { intros i. unfold wq_free. destruct (wq_owner st); [destruct (Nat.eqb _ _)|]; reflexivity. }
  destruct (Nat.eq_dec j cid) as [->|Nj].
  - assert (Cw : conns (wq_free st cid) = conns st).
    { unfold wq_free. destruct (wq_owner st); [destruct (Nat.eqb _ _)|]; reflexivity. }
    assert (Lc : (cid < length (conns st))%nat).
    { destruct (lt_dec cid (length (conns st))) as [Lt|Ge]; auto. exfalso.
      unfold get_conn, set_conn in G'. cbn [conns] in G'. rewrite Cw in G'.
      assert (Hn : nth_error (upd (conns st) cid (init_conn c)) cid = None) by (apply nth_error_None; rewrite upd_length; lia).
      congruence. }
    assert (exists k0, get_conn (wq_free st cid) cid = Some k0) as (k0 & G0).
    { rewrite Gw. unfold get_conn. destruct (nth_error (conns st) cid) eqn:E; [eauto|]. apply nth_error_None in E. lia. }
    rewrite (set_conn_get _ _ _ _ G0) in G'. apply f_some_inj in G'. subst k'.
    rewrite oc_at_set_oc. rewrite Nat.eqb_refl. cbn [andb].
    replace (cid <? length (ob_conns m))%nat with true by (symmetry; apply Nat.ltb_lt; lia).
    unfold oc_init. cbn [o_pend]. split; [rewrite repeat_length, T; reflexivity|].
    exists (NQueueSpec.minit (map N.to_nat (priority_numbers c))).
    split; [unfold init_conn; cbn [nq]; apply init_rel; apply wf_sizes_of_wf; exact W|].
    intros i x kd _ Hh. unfold NQueueSpec.minit in Hh. cbn [mlevels] in Hh. rewrite minit_mget, has_0 in Hh. discriminate.
  - rewrite set_conn_get_other in G' by exact Nj. rewrite Gw in G'. destruct (P _ _ G') as (Lp & mq & R & X).
    rewrite oc_at_set_oc. replace (Nat.eqb cid j) with false by (symmetry; apply Nat.eqb_neq; auto). cbn [andb].
    split; [exact Lp|]. exists mq. split; [exact R|exact X].
Qed.

Lemma zinv_init c : wf c -> zinv c (srv_init c) (obs_init c).
Proof.
  intros W j k G.
  assert (Lj : (j < n_conns)%nat).
  { unfold get_conn, srv_init in G. cbn [conns] in G. rewrite <- (repeat_length (init_conn c) n_conns). apply nth_error_Some. rewrite G. discriminate. }
  assert (k = init_conn c).
  { unfold get_conn, srv_init in G. cbn [conns] in G. apply nth_error_In in G. apply repeat_spec in G. exact G. }
  subst k. unfold obs_init, oc_at. cbn [ob_conns]. rewrite nth_repeat_lt by exact Lj. unfold oc_init. cbn [o_pend].
  split; [apply repeat_length|].
  exists (NQueueSpec.minit (map N.to_nat (priority_numbers c))).
  split; [unfold init_conn; cbn [nq]; apply init_rel; apply wf_sizes_of_wf; exact W|].
  intros i x kd _ Hh. unfold NQueueSpec.minit in Hh. cbn [mlevels] in Hh. rewrite minit_mget, has_0 in Hh. discriminate.
Qed.

(* ------------------------------------------------------------------ the trace level theorem for the clause *)
Theorem monitor10_wc_from c : wf c -> no_includes c -> env10 c = true -> forall ops pre n0 m pos,
  sim09 c (srv_after c (srv_init c) pre, n0) m -> zinv c (srv_after c (srv_init c) pre) m ->
  forallb op10_bytes ops = true ->
  no_fault (srv_run c (srv_after c (srv_init c) pre) ops) ->
  monitor_from_of check10_wc c m pos (srv_run c (srv_after c (srv_init c) pre) ops) = None.
Proof.
  intros W NI EV. pose proof (env10_env09 c EV) as E9.
  induction ops as [|o t IH]; intros pre n0 m pos SM PV OK NF; cbn [srv_run monitor_from_of]; [reflexivity|].
  cbn [forallb] in OK. apply andb_true_iff in OK. destruct OK as [Ok1 Ok2].
  set (st := srv_after c (srv_init c) pre) in *.
  assert (Est : fst (srv_step c st o) = srv_after c (srv_init c) (pre ++ [o])).
  { rewrite srv_after_app. cbn [srv_after]. reflexivity. }
  destruct (srv_step c st o) as [st' x] eqn:E. cbn [fst snd] in *.
  cbn [srv_run] in NF. rewrite E in NF. inversion NF as [|? ? NF1 NF2]. cbn [snd] in NF1.
  assert (NFx : snd (srv_step c st o) <> OFault) by (rewrite E; exact NF1).
  pose proof SM as (T & L & _ & _). cbn [fst] in L.
  assert (S1 : exists n1, sim09 c (st', n1) (advance c m o x)).
  { destruct o as [cid pdu n|cid n|cid e p|cid|bu kd g|g|g data].
    - cbn [srv_step] in E. destruct (att_input c st cid pdu n) as [[s1 rs]|] eqn:A; [|inv E; contradiction]. inv E.
      assert (BO : bytes_ok_l pdu).
      { cbn [op10_bytes] in Ok1. rewrite forallb_forall in Ok1. apply Forall_forall. intros b Hb. apply N.ltb_lt. apply Ok1. exact Hb. }
      eexists. exact (sim09_in c st n0 m cid pdu n _ rs W NI E9 BO SM A).
    - destruct (sim09_other c st n0 m (OpOut cid n) I NFx SM) as (S1 & _). rewrite E in S1. cbn [fst snd] in S1. eauto.
    - destruct (sim09_other c st n0 m (OpSec cid e p) I NFx SM) as (S1 & _). rewrite E in S1. cbn [fst snd] in S1. eauto.
    - destruct (sim09_other c st n0 m (OpDisc cid) I NFx SM) as (S1 & _). rewrite E in S1. cbn [fst snd] in S1. eauto.
    - destruct (sim09_other c st n0 m (OpNotify bu kd g) I NFx SM) as (S1 & _). rewrite E in S1. cbn [fst snd] in S1. eauto.
    - destruct (sim09_other c st n0 m (OpVal g) I NFx SM) as (S1 & _). rewrite E in S1. cbn [fst snd] in S1. eauto.
    - destruct (sim09_other c st n0 m (OpSetVal g data) I NFx SM) as (S1 & _). rewrite E in S1. cbn [fst snd] in S1. eauto. }
  assert (CP : check10_wc c m o x = None /\ zinv c st' (advance c m o x)).
  { destruct o as [cid pdu n|cid n|cid e p|cid|bu kd g|g|g data].
    - split; [destruct x; reflexivity|].
      cbn [srv_step] in E. destruct (att_input c st cid pdu n) as [[s1 rs]|] eqn:A; [|inv E; contradiction]. inv E. cbn [advance].
      destruct ((len pdu =? 0) || (n <? default_att_mtu)).
      + exact (zinv_weaken _ _ _ _ _ PV (kP_refl m) (att_input_queue _ _ _ _ _ _ _ A)).
      + exact (zinv_weaken _ _ _ _ _ PV (kP_adv_in c m cid pdu n rs) (att_input_queue _ _ _ _ _ _ _ A)).
    - cbn [srv_step] in E. destruct (att_output c st cid n) as [[s1 rs]|] eqn:A; [|inv E; contradiction]. inv E.
      assert (exists k, get_conn st cid = Some k) as (k & G) by (unfold att_output in A; destruct (get_conn st cid); [eauto|discriminate]).
      destruct (queue_reachable c pre cid k W G) as (_ & Qs).
      exact (zinv_out c st m cid n _ rs k W NI EV T PV G Qs A).
    - split; [destruct x; reflexivity|]. cbn [srv_step] in E. destruct (get_conn st cid) as [k|] eqn:G; inv E; cbn [advance].
      + apply (zinv_weaken c st m _ _ PV); [apply kP_set_oc; reflexivity|].
        intros j k' G'. destruct (Nat.eq_dec j cid) as [->|Nj].
        * rewrite (set_conn_get _ _ _ _ G) in G'. apply f_some_inj in G'. subst k'. exists k. split; [exact G|left; reflexivity].
        * rewrite set_conn_get_other in G' by exact Nj. exists k'. split; [exact G'|left; reflexivity].
      + apply (zinv_same c st m _ _ PV); [apply kP_set_oc; reflexivity|reflexivity].
    - split; [destruct x; reflexivity|]. cbn [srv_step] in E. inv E. cbn [advance]. exact (zinv_disc c st m cid W T L PV).
    - split; [destruct x; reflexivity|]. cbn [srv_step] in E. destruct bu.
      { destruct (by_uuid_available c kd g); [|inv E; exact (zinv_same c st m _ _ PV (kP_refl m) (fun j => eq_refl))].
        destruct (notify_by_uuid c st kd g) as [[s1 r]|] eqn:Nv; [|inv E; contradiction].
        assert (Hr : exists xg d, nth_error (all_chars c) g = Some xg /\ find_notification_by_uuid c (c_uuid (snd xg)) = Some d
                                  /\ request st kd d = (s1, r)).
        { unfold notify_by_uuid in Nv. destruct (nth_error (all_chars c) g) as [xg|]; [|discriminate].
          destruct (find_notification_by_uuid c (c_uuid (snd xg))) as [d|] eqn:Fd; [|discriminate].
          exists xg, d. split; [reflexivity|]. split; [exact Fd|]. apply f_some_inj in Nv. exact Nv. }
        destruct Hr as (xg & d & Nxg & Fd & Hr). inv E. cbn [advance target].
        pose proof (zinv_request c st m kd d _ L PV (uuid_target c g xg d Nxg Fd)) as Pr. rewrite Hr in Pr. cbn [fst snd] in Pr.
        rewrite <- T in Pr. exact Pr. }
      destruct (by_value_available c g); [|inv E; exact (zinv_same c st m _ _ PV (kP_refl m) (fun j => eq_refl))].
      destruct (notify_by_value c st kd g) as [[s1 r]|] eqn:Nv; [|inv E; contradiction].
      assert (Hr : exists d, find_notification_data c g = Some d /\ request st kd d = (s1, r)).
      { unfold notify_by_value in Nv. destruct (find_notification_data c g) as [d|]; [|discriminate]. exists d. split; [reflexivity|].
        apply f_some_inj in Nv. exact Nv. }
      destruct Hr as (d & Fd & Hr). inv E. cbn [advance target].
      destruct (by_value_addresses_sorted_index c g d Fd) as (_ & x & Nx & Gx & _).
      pose proof (zinv_request c st m kd d g L PV (ex_intro _ x (conj Nx Gx))) as Pr. rewrite Hr in Pr. cbn [fst snd] in Pr. exact Pr.
    - split; [destruct x; reflexivity|]. cbn [srv_step] in E. destruct (has_var c g) as [[w h]|]; inv E; cbn [advance];
        (apply (zinv_same c st m _ _ PV); [try apply kP_refl; apply kP_conns; reflexivity|reflexivity]).
    - split; [destruct x; reflexivity|]. cbn [srv_step] in E. destruct (has_var c g) as [[[|] h]|]; inv E; cbn [advance];
        (apply (zinv_same c st m _ _ PV); [destruct (nth g (ob_vals m) None); try apply kP_refl; apply kP_conns; reflexivity|reflexivity]). }
  destruct CP as (Ck & PV1). destruct S1 as (n1 & S1). cbn [monitor_from_of]. unfold mstep_of. rewrite Ck. rewrite Est in *.
  apply (IH (pre ++ [o]) n1); [exact S1|exact PV1|exact Ok2|exact NF2].
Qed.

Theorem monitor10_wc_accepts_model c ops :
  wf c -> no_includes c -> env10 c = true -> forallb op10_bytes ops = true ->
  no_fault (srv_run c (srv_init c) ops) -> monitor10_wc c (srv_run c (srv_init c) ops) = None.
Proof.
  intros W NI EV OK NF. exact (monitor10_wc_from c W NI EV ops [] 0 (obs_init c) O (sim09_init c) (zinv_init c W) OK NF).
Qed.

(* ------------------------------------------------------------------ the three clauses together *)
Lemma mon_transfer (chk chk' : cfg -> obs -> srv_op -> srv_out -> option nat) c tag :
  (forall m o r, chk c m o r = Some tag -> chk' c m o r = Some tag) ->
  forall tr m pos p, monitor_from_of chk c m pos tr = Some (p, tag) -> monitor_from_of chk' c m pos tr <> None.
Proof.
  intros H. induction tr as [|[o r] t IH]; intros m pos p M; cbn [monitor_from_of] in *; [discriminate|].
  unfold mstep_of in *. destruct (chk c m o r) as [t0|] eqn:C.
  - inversion M; subst. rewrite (H _ _ _ C). discriminate.
  - destruct (chk' c m o r); [discriminate|]. eapply IH; eauto.
Qed.

(* whatever the whole monitor reports on a trace of the model, it is none of these three clauses *)
Theorem monitor10_three_clauses c ops p tag :
  wf c -> no_includes c -> env10 c = true -> forallb op10_bytes ops = true ->
  no_fault (srv_run c (srv_init c) ops) ->
  monitor10 c (srv_run c (srv_init c) ops) = Some (p, tag) ->
  tag <> t10_wrong_characteristic /\ tag <> t10_duplicate_pdu /\ tag <> t10_not_subscribed.
Proof.
  intros W NI EV OK NF M. unfold monitor10 in M. repeat split; intros ->.
  - apply (mon_transfer check10 check10_wc c _ (check10_wc_complete c) _ _ _ _ M). exact (monitor10_wc_accepts_model c ops W NI EV OK NF).
  - apply (mon_transfer check10 check10_dup c _ (check10_dup_complete c) _ _ _ _ M). exact (monitor10_dup_accepts_model c ops W NI EV OK NF).
  - apply (mon_transfer check10 check10_ns c _ (check10_ns_complete c) _ _ _ _ M). exact (monitor10_ns_accepts_model c ops W NI EV OK NF).
Qed.

(* ------------------------------------------------------------------ the clauses fault and shape *)
Definition check10_fs (c : cfg) (m : obs) (o : srv_op) (r : srv_out) : option nat :=
  match o, r with
  | _, OFault => if fault_relevant o then Some t10_fault else None
  | OpNotify _ _ _, OBits bits => if (length bits =? n_conns)%nat then None else Some t10_shape
  | _, _ => None
  end.

Lemma check10_fs_complete c tag : tag = t10_fault \/ tag = t10_shape ->
  forall m o r, check10 c m o r = Some tag -> check10_fs c m o r = Some tag.
Proof.
  intros Ht m o r H.
  destruct o as [cid pdu n|cid n|cid e p|cid|bu kd g|g|g data]; destruct r as [l| |l| | |l lg]; cbn [check10 check10_fs] in *;
    try exact H; try discriminate.
  destruct l as [|opc [|lo [|hi v]]]; try (destruct Ht; subst tag; discriminate).
  destruct ((opc =? 27) || (opc =? 29)); [|destruct Ht; subst tag; discriminate].
  destruct (by_value_handle (ob_tab m) (lo + 256 * hi)) as [g|]; [|destruct Ht; subst tag; discriminate].
  destruct (pick _ _ =? 0); [destruct Ht; subst tag; discriminate|]. destruct (pick _ _ =? 2); [destruct Ht; subst tag; discriminate|].
  destruct (nth g (o_cccd (oc_at m cid)) None) as [bits|]; [destruct (N.land bits _ =? 0); [destruct Ht; subst tag; discriminate|]|];
    (destruct (nth g (ob_vals m) None); [destruct (value_ok10 _ _ _)|]; destruct Ht; subst tag; discriminate).
Qed.

Lemma request_bits_length st kd d : length (snd (request st kd d)) = length (conns st).
Proof.
  unfold request. set (o := match kd with KNotif => _ | KInd => _ end).
  pose proof (queue_all_spec o (conns st)) as (Ln & _). destruct (queue_all (conns st) o) as [l rs]. exact Ln.
Qed.

Lemma monitor10_fs_from c : forall ops st m pos,
  length (conns st) = n_conns -> no_fault (srv_run c st ops) ->
  monitor_from_of check10_fs c m pos (srv_run c st ops) = None.
Proof.
  induction ops as [|o t IH]; intros st m pos Ls NF; cbn [srv_run monitor_from_of]; [reflexivity|].
  pose proof (srv_step_length c st o) as Ls'.
  destruct (srv_step c st o) as [st' x] eqn:E. cbn [fst] in Ls'. cbn [srv_run] in NF. rewrite E in NF.
  inversion NF as [|? ? NF1 NF2]. cbn [snd] in NF1. cbn [monitor_from_of]. unfold mstep_of.
  assert (Ck : check10_fs c m o x = None).
  { destruct x as [l0| |bits| | |l0 lg]; try contradiction; destruct o as [cid pdu n|cid n|cid e p|cid|bu kd g|g|g data]; try reflexivity.
    cbn [check10_fs]. cbn [srv_step] in E.
    assert (Lb : length bits = length (conns st)).
    { destruct bu.
      - destruct (by_uuid_available c kd g); [|discriminate]. destruct (notify_by_uuid c st kd g) as [[s1 r]|] eqn:Nv; [|discriminate].
        unfold notify_by_uuid in Nv. destruct (nth_error (all_chars c) g) as [xg|]; [|discriminate].
        destruct (find_notification_by_uuid c (c_uuid (snd xg))) as [d|]; [|discriminate]. apply f_some_inj in Nv.
        pose proof (request_bits_length st kd d) as Lr. rewrite Nv in Lr. cbn [snd] in Lr. congruence.
      - destruct (by_value_available c g); [|discriminate]. destruct (notify_by_value c st kd g) as [[s1 r]|] eqn:Nv; [|discriminate].
        unfold notify_by_value in Nv. destruct (find_notification_data c g) as [d|]; [|discriminate]. apply f_some_inj in Nv.
        pose proof (request_bits_length st kd d) as Lr. rewrite Nv in Lr. cbn [snd] in Lr. congruence. }
    rewrite Lb, Ls, Nat.eqb_refl. reflexivity. }
  rewrite Ck. apply IH; [congruence|exact NF2].
Qed.

(* whatever the whole monitor reports on a trace of the model, it is not one of these five of its six clauses
   (the sixth is wrong_value) *)
Theorem monitor10_five_clauses c ops p tag :
  wf c -> no_includes c -> env10 c = true -> forallb op10_bytes ops = true ->
  no_fault (srv_run c (srv_init c) ops) ->
  monitor10 c (srv_run c (srv_init c) ops) = Some (p, tag) ->
  tag <> t10_fault /\ tag <> t10_wrong_characteristic /\ tag <> t10_not_subscribed /\ tag <> t10_duplicate_pdu /\ tag <> t10_shape.
Proof.
  intros W NI EV OK NF M. destruct (monitor10_three_clauses c ops p tag W NI EV OK NF M) as (A & B & D).
  assert (Ls : length (conns (srv_init c)) = n_conns) by (unfold srv_init; cbn [conns]; apply repeat_length).
  unfold monitor10 in M. repeat split; auto; intros ->.
  - apply (mon_transfer check10 check10_fs c _ (check10_fs_complete c _ (or_introl eq_refl)) _ _ _ _ M). exact (monitor10_fs_from c ops _ _ _ Ls NF).
  - apply (mon_transfer check10 check10_fs c _ (check10_fs_complete c _ (or_intror eq_refl)) _ _ _ _ M). exact (monitor10_fs_from c ops _ _ _ Ls NF).
Qed.
