(* Property C02: discovery returns exactly the in-range matching attributes.

   The abstract object is the attribute TABLE of the declaration: the declared attributes in declaration
   order (AttDbSpec.decl_attrs), each with the handle the declaration assigns to it (AttDbSpec.assign:
   next handle = max( previous + 1, requested )). For a request kind [k] (Find Information: every
   attribute; Read By Type: the attributes of the requested 16/128 bit type; Read By Group Type
   <<Primary Service>>: the primary service declarations) and a handle range lo..hi

       matching c k lo hi  =  the sub list of the table with lo <= handle <= hi and the requested type.

   (a) a response that is no error is a non-empty PREFIX of [matching] (hence in range, of the right type,
       ascending); (b) Attribute Not Found iff [matching] is empty; (c) [discover_all]: re-issuing the
       request from the last returned handle + 1 (fuel = number of attributes + 1) returns [matching]
       exactly, every element once.

   The executable monitor [c02_step] judges OBSERVED (request, response) pairs only. Clauses (tags):
     in_range             a returned handle lies outside lo..hi
     type_match           a returned handle / handle-uuid pair is no attribute of the requested type
     ascending            the returned handles are not strictly ascending
     not_found_iff_empty  Attribute Not Found although a matching attribute exists, or a response
                          without any entry, or an unexpected error code
     prefix_of_matching   the response leaves out a matching attribute in front of a returned one
     enumerate_exact      a client session (requests continued at last handle + 1 up to Attribute Not
                          Found / the ending handle) did not enumerate [matching] of the first request
     invalid_range        lo = 0 or lo > hi is not answered with Invalid Handle
     shape                response not parseable (FAULT, wrong opcode, broken entries; framing is C01)
   Read By Type reads the values: a matching attribute whose read can fail in some state (no read access,
   encryption required) is not REQUIRED to be returned (the error code to use is C05/C06's subject);
   [readable] is the static over-approximation "its read always succeeds". *)
From BT Require Import Base.ListX AttDb.AttDbModel AttDb.AttDbSpec NQueue.NQueueModel AttSrv.AttSrvModel.
Local Open Scope N_scope.

(* ------------------------------------------------------------------ the table *)
Definition table (c : cfg) : list (N * attr) := combine (assign c) (decl_attrs c).

(* the attribute type as a client sees it *)
Definition attr_type (a : attr) : uuid :=
  match a with
  | AValue _ ch _ _ => c_uuid ch
  | _ => U16 (attr_uuid a)
  end.

Inductive dkind := KInfo | KType (ty : uuid) | KGroup.

Definition dkind_eqb (a b : dkind) : bool :=
  match a, b with
  | KInfo, KInfo => true
  | KType x, KType y => uuid_eqb x y
  | KGroup, KGroup => true
  | _, _ => false
  end.

Definition is_primary (a : attr) : bool :=
  match a with AService s => negb (s_secondary s) | _ => false end.

Definition type_matches (k : dkind) (a : attr) : bool :=
  match k with
  | KInfo => true
  | KType ty => uuid_eqb (attr_type a) ty
  | KGroup => is_primary a
  end.

Definition in_range (lo hi h : N) : bool := (lo <=? h) && (h <=? hi).

Definition matching (c : cfg) (k : dkind) (lo hi : N) : list (N * attr) :=
  filter (fun e => in_range lo hi (fst e) && type_matches k (snd e)) (table c).

(* the read of this attribute at offset 0 succeeds in every state of every connection *)
Definition readable (c : cfg) (a : attr) : bool :=
  match a with
  | AValue s ch _ _ =>
      negb (char_requires_encryption c s ch)
      && (match c_value ch with
          | VBind _ _ | VFixed _ _ => negb (c_no_read ch)
          | VString _ => true
          | VHandler _ hrd _ _ => hrd
          end)
  | ACccd s ch _ => negb (char_requires_encryption c s ch)
  | _ => true
  end.
(* which matching attributes a response must not leave out *)
Definition required (c : cfg) (k : dkind) (a : attr) : bool :=
  match k with KType _ => readable c a | _ => true end.

(* ------------------------------------------------------------------ (c) the client procedure *)
(* a responder answers lo..hi with the returned handles and the handle behind which the client continues
   (the last handle; for groups the last end group handle); None = Attribute Not Found *)
Fixpoint discover_all (fuel : nat) (r : N -> N -> option (list N * N)) (lo hi : N) : list N :=
  match fuel with
  | O => []
  | S f =>
      if hi <? lo then []
      else match r lo hi with
           | None => []
           | Some (hs, l) => hs ++ (if (hi <=? l) || (65535 <=? l) then [] else discover_all f r (l + 1) hi)
           end
  end.

(* ------------------------------------------------------------------ parsing *)
Definition w16 (a b : N) : N := a + 256 * b.

(* the type field of a request: 2 bytes, or 16 bytes (a 128 bit form of a 16 bit uuid is that uuid) *)
Definition req_type (ty : list N) : option uuid :=
  match ty with
  | [p; q] => Some (U16 (w16 p q))
  | _ =>
      if (length ty =? 16)%nat then
        if bytes_eqb (firstn 12 ty) base_uuid_prefix && (nth 14 ty 1 =? 0) && (nth 15 ty 1 =? 0)
        then Some (U16 (w16 (nth 12 ty 0) (nth 13 ty 0)))
        else Some (U128 ty)
      else None
  end.

(* (opcode, kind, lo, hi) of a discovery request this property judges *)
Definition parse_req (pdu : list N) : option (N * dkind * N * N) :=
  match pdu with
  | op :: a :: b :: x :: y :: t =>
      if op =? 4 then match t with [] => Some (4, KInfo, w16 a b, w16 x y) | _ => None end
      else if op =? 16 then
        match t with
        | [t0; t1] => if (t0 =? 0) && (t1 =? 40) then Some (16, KGroup, w16 a b, w16 x y) else None
        | _ => None
        end
      else if op =? 8 then
        match req_type t with
        | Some u => Some (8, KType u, w16 a b, w16 x y)
        | None => None
        end
      else None
  | _ => None
  end.

(* cut [l] into pieces of [n] bytes; None if it is no whole number of pieces *)
Fixpoint chunks (fuel n : nat) (l : list N) : option (list (list N)) :=
  match l with
  | [] => Some []
  | _ =>
      match fuel with
      | O => None
      | S f =>
          if (length l <? n)%nat || (n =? 0)%nat then None
          else match chunks f n (skipn n l) with
               | Some r => Some (firstn n l :: r)
               | None => None
               end
      end
  end.

(* an entry of a response: handle + what else the entry says *)
Inductive entry := EInfo (h : N) (u : uuid) | EHandle (h : N) | EGroup (h e : N) (u : uuid).
Definition entry_handle (e : entry) : N :=
  match e with EInfo h _ => h | EHandle h => h | EGroup h _ _ => h end.

(* where a client continues: behind the handle, for a group behind the end group handle *)
Definition entry_end (e : entry) : N :=
  match e with EGroup _ l _ => l | _ => entry_handle e end.

Definition uuid_of_bytes (l : list N) : uuid :=
  match l with [p; q] => U16 (w16 p q) | _ => U128 l end.

Inductive presp := PError (handle code : N) | PEntries (l : list entry) | PBroken.

Definition parse_entries (mk : list N -> entry) (n : N) (body : list N) : presp :=
  match chunks (length body) (N.to_nat n) body with
  | Some cs => PEntries (map mk cs)
  | None => PBroken
  end.

Definition parse_resp (op : N) (resp : list N) : presp :=
  match resp with
  | [1; o; a; b; code] => if o =? op then PError (w16 a b) code else PBroken
  | r :: x :: body =>
      if negb (r =? op + 1) then PBroken
      else if op =? 4 then
        (if x =? 1 then parse_entries (fun ch => EInfo (w16 (nth 0 ch 0) (nth 1 ch 0)) (U16 (w16 (nth 2 ch 0) (nth 3 ch 0)))) 4 body
         else if x =? 2 then parse_entries (fun ch => EInfo (w16 (nth 0 ch 0) (nth 1 ch 0)) (U128 (skipn 2 ch))) 18 body
         else PBroken)
      else if op =? 8 then
        (if x <? 2 then PBroken else parse_entries (fun ch => EHandle (w16 (nth 0 ch 0) (nth 1 ch 0))) x body)
      else if op =? 16 then
        (if (x =? 6) || (x =? 20) then
           parse_entries (fun ch => EGroup (w16 (nth 0 ch 0) (nth 1 ch 0)) (w16 (nth 2 ch 0) (nth 3 ch 0)) (uuid_of_bytes (skipn 4 ch))) x body
         else PBroken)
      else PBroken
  | _ => PBroken
  end.

(* ------------------------------------------------------------------ judging one response *)
Definition dt_in_range := 1%nat.
Definition dt_type_match := 2%nat.
Definition dt_ascending := 3%nat.
Definition dt_not_found := 4%nat.
Definition dt_prefix := 5%nat.
Definition dt_enumerate := 6%nat.
Definition dt_invalid_range := 7%nat.
Definition dt_shape := 8%nat.

Fixpoint ascending_from (prev : N) (l : list N) : bool :=
  match l with [] => true | x :: t => (prev <? x) && ascending_from x t end.
Definition ascending (l : list N) : bool :=
  match l with [] => true | x :: t => ascending_from x t end.

(* the entry names an attribute of the table that has the requested type *)
Definition entry_matches (c : cfg) (k : dkind) (e : entry) : bool :=
  existsb (fun x => (fst x =? entry_handle e) && type_matches k (snd x)
                    && (match e with EInfo _ u => uuid_eqb (attr_type (snd x)) u | _ => true end)) (table c).

(* [hs] walks along [m]; an element of [m] may be left out only if it is not [req]uired *)
Fixpoint run_ok (req : attr -> bool) (m : list (N * attr)) (hs : list N) : bool :=
  match hs with
  | [] => true
  | h :: t =>
      match m with
      | [] => false
      | (x, a) :: m' => if x =? h then run_ok req m' t else negb (req a) && run_ok req m' hs
      end
  end.

(* ... and reaches the end of [m] *)
Fixpoint exact_ok (req : attr -> bool) (m : list (N * attr)) (hs : list N) : bool :=
  match m with
  | [] => match hs with [] => true | _ => false end
  | (x, a) :: m' =>
      match hs with
      | h :: t => if x =? h then exact_ok req m' t else negb (req a) && exact_ok req m' hs
      | [] => negb (req a) && exact_ok req m' []
      end
  end.

Definition none_required (req : attr -> bool) (m : list (N * attr)) : bool :=
  forallb (fun e => negb (req (snd e))) m.

(* verdict on the entries of a response to (k, lo, hi) *)
Definition judge_entries (c : cfg) (k : dkind) (lo hi : N) (es : list entry) : verdict :=
  let hs := map entry_handle es in
  if match es with [] => true | _ => false end then Bad dt_not_found
  else if negb (forallb (in_range lo hi) hs) then Bad dt_in_range
  else if negb (forallb (entry_matches c k) es) then Bad dt_type_match
  else if negb (ascending hs) then Bad dt_ascending
  else if negb (run_ok (required c k) (matching c k lo hi) hs) then Bad dt_prefix
  else Ok.

(* ------------------------------------------------------------------ client sessions *)
Record session := mkSess { ss_kind : dkind; ss_lo0 : N; ss_hi : N; ss_next : N; ss_acc : list N }.
Definition mon := list (option session).          (* one per connection *)
Definition c02_init : mon := repeat None n_conns.

Definition continued (s : option session) (k : dkind) (lo hi : N) : N * list N :=   (* (first lo, handles so far) *)
  match s with
  | Some x => if dkind_eqb (ss_kind x) k && (ss_hi x =? hi) && (ss_next x =? lo) then (ss_lo0 x, ss_acc x) else (lo, [])
  | None => (lo, [])
  end.

Definition finish (req : attr -> bool) (expected : list (N * attr)) (acc : list N) (tag : nat) : verdict :=
  if exact_ok req expected acc then Ok else Bad tag.

(* generic step, shared with C03: [judge] is the per response verdict, [expected lo0] the elements a
   session that started at lo0 has to enumerate, [req] which of them must not be left out *)
Definition session_step (m : mon) (cid : nat) (k : dkind) (lo hi : N) (p : presp)
           (judge : list entry -> verdict) (expected : N -> list (N * attr)) (req : attr -> bool)
           (tag_nf tag_enum : nat) : verdict * mon :=
  let '(lo0, acc) := continued (nth cid m None) k lo hi in
  match p with
  | PBroken => (Bad dt_shape, upd m cid None)
  | PError h code =>
      if (code =? err_attribute_not_found) && none_required req (expected lo)
      then (finish req (expected lo0) acc tag_enum, upd m cid None)
      else (Bad tag_nf, upd m cid None)
  | PEntries es =>
      match judge es with
      | Bad t => (Bad t, upd m cid None)
      | Ok =>
          let hs := map entry_handle es in
          let l := last (map entry_end es) 0 in
          let acc' := acc ++ hs in
          if (hi <=? l) || (65535 <=? l) then (finish req (expected lo0) acc' tag_enum, upd m cid None)
          else (Ok, upd m cid (Some (mkSess k lo0 hi (l + 1) acc')))
      end
  end.

(* lo = 0 or lo > hi has to be answered with Invalid Handle *)
Definition judge_invalid_range (lo : N) (p : presp) : verdict :=
  match p with
  | PError h code => if (h =? lo) && (code =? err_invalid_handle) then Ok else Bad dt_invalid_range
  | _ => Bad dt_invalid_range
  end.

Definition c02_step (c : cfg) (m : mon) (o : srv_op) (r : srv_out) : verdict * mon :=
  match o with
  | OpIn cid pdu n =>
      if n <? default_att_mtu then (Ok, m)
      else
        match parse_req pdu with
        | None => (Ok, m)
        | Some (op, k, lo, hi) =>
            match r with
            | OBytes resp =>
                if (lo =? 0) || (hi <? lo) then (judge_invalid_range lo (parse_resp op resp), upd m cid None)
                else
                  session_step m cid k lo hi (parse_resp op resp) (judge_entries c k lo hi)
                               (fun l => matching c k l hi) (required c k) dt_not_found dt_enumerate
            | _ => (Bad dt_shape, upd m cid None)
            end
        end
  | OpDisc cid => (Ok, upd m cid None)
  | _ => (Ok, m)
  end.

Fixpoint c02_monitor_from (c : cfg) (m : mon) (pos : nat) (tr : list (srv_op * srv_out)) : option (nat * nat) :=
  match tr with
  | [] => None
  | (o, r) :: t =>
      match c02_step c m o r with
      | (Ok, m') => c02_monitor_from c m' (S pos) t
      | (Bad tag, _) => Some (pos, tag)
      end
  end.
Definition c02_monitor (c : cfg) (tr : list (srv_op * srv_out)) : option (nat * nat) := c02_monitor_from c c02_init O tr.
