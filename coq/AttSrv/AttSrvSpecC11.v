(* Property C11: indications are confirmed one at a time and never lost.
   Executable monitor over observed (operation, output) pairs (observer: AttSrvNotifSpec.v).

   Clauses (tags):
     two_outstanding            no Handle Value Indication is transmitted on a connection while the last one
                                is not confirmed by a Handle Value Confirmation of length 1
     bad_confirmation_accepted  a confirmation with a wrong length is answered with 01 1E 00 00 04 (and does
                                not count as confirmation: a following indication is two_outstanding); a
                                confirmation of length 1 gets no response
     indication_lost            a request that the queue accepted (result 1) while the client was subscribed
                                to that kind, and is subscribed ever since, MUST be transmitted. Whenever
                                l2cap_output (buffer >= 3) sends nothing although such a request is eligible
                                (a notification, or an indication while none is outstanding), it must have
                                consumed another queued request that could be dropped (client not subscribed);
                                [o_slack] bounds their number, so with slack 0 the empty output is a lost
                                request: bounded liveness (every accepted indication is transmitted after at
                                most slack + number of accepted requests polls, confirmations arriving)
     notification_blocked       the same for a notification (notifications continue while an indication is
                                outstanding)
     fault                      no sanitizer / assert abort *)
From BT Require Import Base.ListX AttDb.AttDbModel NQueue.NQueueModel AttSrv.AttSrvModel AttSrv.AttSrvNotifSpec.
Local Open Scope N_scope.

Definition t11_fault := 1%nat.
Definition t11_two_outstanding := 2%nat.
Definition t11_indication_lost := 3%nat.
Definition t11_bad_confirmation_accepted := 4%nat.
Definition t11_notification_blocked := 5%nat.

Definition conf_error : list N := [1; 30; 0; 0; 4].

(* safety clauses: fault, two_outstanding, bad_confirmation_accepted
   (C11_monitor_core_accepts_model: proved for every trace of the model) *)
Definition check11_core (c : cfg) (m : obs) (o : srv_op) (r : srv_out) : option nat :=
  match o, r with
  | _, OFault => if fault_relevant o then Some t11_fault else None
  | OpOut cid n, OBytes pdu =>
      match pdu with
      | [] => None
      | opc :: _ => if (opc =? 29) && o_out (oc_at m cid) then Some t11_two_outstanding else None
      end
  | OpIn cid (30 :: rest) n, OBytes resp =>
      if n <? default_att_mtu then None
      else match rest with
           | [] => match resp with [] => None | _ => Some t11_bad_confirmation_accepted end
           | _ => if bytes_eqb resp conf_error then None else Some t11_bad_confirmation_accepted
           end
  | _, _ => None
  end.

(* bounded liveness clauses: indication_lost, notification_blocked *)
Definition check11_live (c : cfg) (m : obs) (o : srv_op) (r : srv_out) : option nat :=
  match o, r with
  | OpOut cid n, OBytes [] =>
      let k := oc_at m cid in
      if (3 <=? eff_size c k n) && eligible_must k && (o_slack k =? 0)
      then Some (if existsb fst (o_must k) then t11_notification_blocked else t11_indication_lost)
      else None
  | _, _ => None
  end.

Definition check11 (c : cfg) (m : obs) (o : srv_op) (r : srv_out) : option nat :=
  match check11_core c m o r with
  | Some t => Some t
  | None => check11_live c m o r
  end.

Definition mstep11 := mstep_of check11.
Definition monitor11 (c : cfg) (tr : list (srv_op * srv_out)) : option (nat * nat) :=
  monitor_from_of check11 c (obs_init c) O tr.
Definition monitor11_core (c : cfg) (tr : list (srv_op * srv_out)) : option (nat * nat) :=
  monitor_from_of check11_core c (obs_init c) O tr.
