(* Model of the server wide subscription callback
   client_characteristic_configuration_update_callback< T, Obj >::client_characteristic_configuration_updated
   (gatt_options.hpp), invoked by the CCCD attribute (characteristic.hpp, generate_attribute< client_
   characteristic_configuration_parameter >::access) after a write at offset 0:
       if ( old_config != args.client_config.flags( cccd_position ) ) server->notification_subscription_changed(...)
   The shared state of AttSrvModel.v has no room for a callback log, so the NUMBER of invocations during one
   operation is a function beside srv_step that walks the same path as the write handlers (definitions only,
   no proofs). [srv9_step] is the model the C09 harness (harness/attsrv_cb_harness.cpp, op `cbs`) is tied to. *)
From BT Require Import Base.ListX AttDb.AttDbModel NQueue.NQueueModel AttSrv.AttSrvModel.
Local Open Scope N_scope.

(* the CCCD attribute: invocations during a write of [data] at [off] *)
Definition cccd_write_cb (c : cfg) (k : conn) (cci off : N) (data : list N) : N :=
  if 2 <? off then 0
  else if 2 <? len data + off then 0
  else if off =? 0 then
    let pos := cccd_position c cci in
    let old := cccd_get (cccd k) pos in
    let ser := takeN 2 (data ++ dropN (len data) [old; 0]) in
    let v := nth 0 ser 0 + 256 * nth 1 ser 0 in
    if cccd_get (cccd_set (cccd k) pos v) pos =? old then 0 else 1
  else 0.

(* attribute.access( write ) *)
Definition access_write_cb (c : cfg) (st : srv_state) (cid : nat) (a : attr) (off : N) (data : list N) : N :=
  match get_conn st cid, a with
  | Some k, ACccd s ch cci =>
      match security_check (char_requires_encryption c s ch) (encrypted k) (pairing k) with
      | Success => cccd_write_cb c k cci off data
      | _ => 0
      end
  | _, _ => 0
  end.

(* handle_write_request / handle_write_command *)
Definition write_request_cb (c : cfg) (st : srv_state) (cid : nat) (pdu : list N) : N :=
  if len pdu <? 3 then 0
  else match rd16 pdu 1 with
       | Some h =>
           if h =? 0 then 0
           else let i := index_by_handle c h in
                if i =? invalid_index then 0
                else match attribute_at c i, slice pdu 3 (len pdu) with
                     | Some a, Some data => access_write_cb c st cid a 0 data
                     | _, _ => 0
                     end
       | None => 0
       end.

(* the loop of handle_execute_write_request *)
Fixpoint execute_writes_cb (c : cfg) (st : srv_state) (cid : nat) (elems : list (list N)) : N :=
  match elems with
  | [] => 0
  | e :: t =>
      match rd16 e 0, rd16 e 2 with
      | Some h, Some off =>
          match attribute_at c (index_by_handle c h) with
          | Some a =>
              match access_write c st cid a off (dropN 4 e) with
              | Some (st', Success) => access_write_cb c st cid a off (dropN 4 e) + execute_writes_cb c st' cid t
              | _ => 0
              end
          | None => 0
          end
      | _, _ => 0
      end
  end.

(* l2cap_input: invocations during one request *)
Definition att_input_cb (c : cfg) (st : srv_state) (cid : nat) (pdu : list N) (out_cap : N) : N :=
  match get_conn st cid with
  | None => 0
  | Some k =>
      let out_size := N.min out_cap (negotiated_mtu c k) in
      if (len pdu =? 0) || (out_size <? default_att_mtu) then 0
      else match pdu with
           | opc :: _ =>
               if (opc =? 18) || (opc =? 82) then write_request_cb c st cid pdu
               else if opc =? 24 then
                 match wqueue c, pdu with
                 | Some _, [_; flag] =>
                     let mine := match wq_owner st with Some o => Nat.eqb o cid | None => false end in
                     if (flag =? 1) && mine then execute_writes_cb c st cid (wq_elems st) else 0
                 | _, _ => 0
                 end
               else 0
           | [] => 0
           end
  end.

(* operations of the C09 harness: those of the server + `cbs` (invocations since the last `cbs`) *)
Inductive op9 := Op9 (o : srv_op) | Cbs.
Inductive out9 := Out9 (r : srv_out) | Count (n : N).

Definition srv9_state := (srv_state * N)%type.
Definition srv9_init (c : cfg) : srv9_state := (srv_init c, 0).

Definition srv9_step (c : cfg) (s : srv9_state) (o : op9) : srv9_state * out9 :=
  match o with
  | Op9 op =>
      let '(st', r) := srv_step c (fst s) op in
      let d := match op with OpIn cid pdu n => att_input_cb c (fst s) cid pdu n | _ => 0 end in
      ((st', snd s + d), Out9 r)
  | Cbs => ((fst s, 0), Count (snd s))
  end.

Fixpoint srv9_run (c : cfg) (s : srv9_state) (ops : list op9) : list (op9 * out9) :=
  match ops with
  | [] => []
  | o :: t => let '(s', r) := srv9_step c s o in (o, r) :: srv9_run c s' t
  end.
