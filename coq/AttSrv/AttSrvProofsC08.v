(* Proofs for property C08 (ATT MTU negotiation bounds every PDU). *)
From Coq Require Import Lia ZifyBool.
From BT Require Import Base.ListX AttDb.AttDbModel NQueue.NQueueModel AttSrv.AttSrvModel AttSrv.AttSrvSpecC01
  AttSrv.AttSrvProofsC01 AttSrv.AttSrvFrame.
Local Open Scope N_scope.

(* ------------------------------------------------------------------ Exchange MTU *)
(* an Exchange MTU Request with a wrong length or a client MTU below 23 is answered with
   01 02 00 00 04 and leaves the state unchanged *)
Lemma exchange_mtu_invalid c st cid pdu b n st' r :
  5 <= n -> rd pdu 0 = Some 2 ->
  handle_exchange_mtu c st cid pdu b n = Some (st', r) ->
  (len pdu <> 3 \/ exists m, rd16 pdu 1 = Some m /\ m < default_att_mtu) ->
  st' = st /\ snd r = 5 /\ takeN 5 (fst r) = [1; 2; 0; 0; 4].
Proof.
  intros Hn Hop. unfold handle_exchange_mtu. rewrite Hop.
  assert (ER : forall e, error_response 2 err_invalid_pdu 0 b n = Some e -> snd e = 5 /\ takeN 5 (fst e) = [1; 2; 0; 0; 4]).
  { unfold error_response. replace (5 <=? n) with true by (symmetry; apply N.leb_le; auto).
    intros e He. destruct (put b 0 _) eqn:P; [|discriminate]. inv He. split; [reflexivity|].
    apply put_take in P. exact P. }
  destruct (negb (len pdu =? 3)) eqn:E3.
  - destruct (error_response _ _ _ _ _) eqn:E; [|discriminate]. intros H _. inv H. split; auto.
  - intros H [L|(m & Hm & Lm)].
    + apply negb_false_iff, N.eqb_eq in E3. contradiction.
    + rewrite Hm in H. replace (m <? default_att_mtu) with true in H by (symmetry; apply N.ltb_lt; exact Lm).
      destruct (error_response _ _ _ _ _) eqn:E; [|discriminate]. inv H. split; auto.
Qed.

(* a valid one sets the client MTU of this connection and answers 03 <server MTU> *)
Lemma exchange_mtu_valid c st cid lo hi b n k :
  3 <= len b -> get_conn st cid = Some k -> default_att_mtu <= lo + 256 * hi ->
  exists b', handle_exchange_mtu c st cid [2; lo; hi] b n
             = Some (set_conn st cid (mkConn (lo + 256 * hi) (cccd k) (encrypted k) (pairing k) (nq k)), (b', 3))
             /\ takeN 3 b' = 3 :: le16 (max_mtu c) /\ len b' = len b.
Proof.
  intros Hb G Hm. unfold handle_exchange_mtu.
  change (rd [2; lo; hi] 0) with (Some 2). change (len [2; lo; hi]) with 3.
  change (rd16 [2; lo; hi] 1) with (Some (lo + 256 * hi)). change (negb (3 =? 3)) with false. cbv iota beta.
  replace (lo + 256 * hi <? default_att_mtu) with false by (symmetry; apply N.ltb_ge; exact Hm).
  rewrite G.
  destruct (put b 0 (3 :: le16 (max_mtu c))) as [b'|] eqn:P.
  - exists b'. split; [reflexivity|]. split; [apply put_take in P; exact P|eapply put_len; eauto].
  - exfalso. destruct (put_ok b 0 (3 :: le16 (max_mtu c))) as (b' & P'); [|congruence].
    change (len (3 :: le16 (max_mtu c))) with 3. lia.
Qed.

(* ------------------------------------------------------------------ the client MTU along a history *)
Definition valid_exchange (pdu : list N) : option N :=
  match pdu with
  | [a; lo; hi] => if (a =? 2) && (default_att_mtu <=? lo + 256 * hi) then Some (lo + 256 * hi) else None
  | _ => None
  end.

Lemma valid_exchange_inv pdu v :
  valid_exchange pdu = Some v -> exists lo hi, pdu = [2; lo; hi] /\ v = lo + 256 * hi /\ default_att_mtu <= v.
Proof.
  unfold valid_exchange. destruct pdu as [|a [|lo [|hi [|x t]]]]; try discriminate.
  destruct (a =? 2) eqn:A; [|discriminate]. destruct (_ <=? _) eqn:L; [|discriminate].
  apply N.eqb_eq in A. apply N.leb_le in L. subst. intros H. inv H. eauto.
Qed.

(* the specification: the last valid client MTU of connection cid (23 on a fresh connection) *)
Definition mtu_after (cid : nat) (m : N) (o : srv_op) : N :=
  match o with
  | OpIn i pdu n =>
      if Nat.eqb i cid && (default_att_mtu <=? n) then match valid_exchange pdu with Some v => v | None => m end else m
  | OpDisc i => if Nat.eqb i cid then default_att_mtu else m
  | _ => m
  end.

Fixpoint mtu_history (cid : nat) (m : N) (ops : list srv_op) : N :=
  match ops with [] => m | o :: t => mtu_history cid (mtu_after cid m o) t end.

Lemma valid_exchange_opcode pdu v : valid_exchange pdu = Some v -> rd pdu 0 = Some 2.
Proof.
  intros H. apply valid_exchange_inv in H. destruct H as (lo & hi & -> & _). reflexivity.
Qed.

Lemma valid_exchange_not2 pdu op : rd pdu 0 = Some op -> op <> 2 -> valid_exchange pdu = None.
Proof.
  intros H N. destruct (valid_exchange pdu) eqn:E; auto. apply valid_exchange_opcode in E. congruence.
Qed.

Lemma exchange_mtu_invalid_unchanged' c st cid pdu b n st' r :
  rd pdu 0 = Some 2 -> valid_exchange pdu = None ->
  handle_exchange_mtu c st cid pdu b n = Some (st', r) -> st' = st.
Proof.
  intros Hop V. unfold handle_exchange_mtu. rewrite Hop.
  destruct (negb (len pdu =? 3)) eqn:E3.
  - destruct (error_response _ _ _ _ _); [|discriminate]. intros H. inv H. reflexivity.
  - apply negb_false_iff, N.eqb_eq in E3.
    destruct pdu as [|a [|lo [|hi [|x t]]]]; try (unfold len in E3; cbn [length] in E3; lia).
    change (rd (a :: lo :: hi :: nil) 0) with (Some a) in Hop. inv Hop.
    change (rd16 [2; lo; hi] 1) with (Some (lo + 256 * hi)). cbv iota beta.
    unfold valid_exchange in V. change (2 =? 2) with true in V. cbn [andb] in V.
    destruct (default_att_mtu <=? lo + 256 * hi) eqn:L; [discriminate|].
    replace (lo + 256 * hi <? default_att_mtu) with true by (symmetry; apply N.ltb_lt; apply N.leb_gt in L; exact L).
    destruct (error_response _ _ _ _ _); [|discriminate]. intros H. inv H. reflexivity.
Qed.

Lemma att_input_exchange c st cid pdu n st' rs k :
  get_conn st cid = Some k -> rd pdu 0 = Some 2 ->
  att_input c st cid pdu n = Some (st', rs) ->
  exists r, handle_exchange_mtu c st cid pdu (repeat fill_byte (N.to_nat n)) (N.min n (negotiated_mtu c k)) = Some (st', r).
Proof.
  intros G Hop. unfold att_input. rewrite G.
  destruct (len pdu =? 0); [discriminate|]. destruct (_ <? _); [discriminate|]. rewrite Hop.
  change (2 =? 1) with false. change (2 =? 2) with true. cbv iota.
  destruct (handle_exchange_mtu _ _ _ _ _ _) as [[s1 [b1 m]]|]; [|discriminate].
  destruct (m <=? len b1); [|discriminate]. intros H. inv H. eauto.
Qed.

Lemma att_input_opcode2 c st cid pdu n k :
  get_conn st cid = Some k -> rd pdu 0 = Some 2 -> default_att_mtu <= N.min n (negotiated_mtu c k) ->
  att_input c st cid pdu n =
  match handle_exchange_mtu c st cid pdu (repeat fill_byte (N.to_nat n)) (N.min n (negotiated_mtu c k)) with
  | Some (st', (b', m)) => if m <=? len b' then Some (st', takeN m b') else None
  | None => None
  end.
Proof.
  intros G Hop L. unfold att_input. rewrite G.
  assert (len pdu =? 0 = false) as ->.
  { apply N.eqb_neq. unfold rd in Hop. destruct (0 <? len pdu) eqn:E; [|discriminate]. apply N.ltb_lt in E. lia. }
  replace (N.min n (negotiated_mtu c k) <? default_att_mtu) with false by (symmetry; apply N.ltb_ge; exact L).
  rewrite Hop. change (2 =? 1) with false. change (2 =? 2) with true. cbv iota.
  destruct (handle_exchange_mtu _ _ _ _ _ _) as [[s1 [b1 m]]|]; reflexivity.
Qed.

Lemma set_conn_get st cid k k0 : get_conn st cid = Some k0 -> get_conn (set_conn st cid k) cid = Some k.
Proof. intros G. unfold get_conn, set_conn. cbn [conns]. apply nth_error_upd_eq. eapply nth_error_lt; eauto. Qed.

Lemma set_conn_get_other st cid k j : j <> cid -> get_conn (set_conn st cid k) j = get_conn st j.
Proof. intros N. unfold get_conn, set_conn. cbn [conns]. apply nth_error_upd_neq. auto. Qed.

Definition mtu_inv (c : cfg) (k : conn) : Prop := default_att_mtu <= client_mtu k.

(* one operation: the model's client MTU follows the specification *)
Lemma srv_step_mtu c st o cid k :
  default_att_mtu <= max_mtu c ->
  get_conn st cid = Some k -> default_att_mtu <= client_mtu k ->
  exists k', get_conn (fst (srv_step c st o)) cid = Some k' /\ client_mtu k' = mtu_after cid (client_mtu k) o.
Proof.
  intros W G M.
  destruct o as [i pdu n|i n|i e p|i|bu kd gci|gci|gci data]; cbn [srv_step mtu_after].
  - (* l2cap_input *)
    destruct (Nat.eqb i cid) eqn:Ei.
    + apply Nat.eqb_eq in Ei. subst i. cbn [andb].
      destruct (att_input c st cid pdu n) as [[st' rs]|] eqn:A; cbn [fst].
      * assert (Hn : (default_att_mtu <=? n) = true).
        { unfold att_input in A. rewrite G in A. destruct (len pdu =? 0); [discriminate|].
          destruct (N.min n (negotiated_mtu c k) <? default_att_mtu) eqn:L; [discriminate|].
          apply N.ltb_ge in L. apply N.leb_le. lia. }
        rewrite Hn.
        assert (exists op, rd pdu 0 = Some op) as (op & Hop).
        { unfold att_input in A. rewrite G in A. destruct (len pdu =? 0); [discriminate|].
          destruct (_ <? _); [discriminate|]. destruct (rd pdu 0); [eauto|discriminate]. }
        destruct (N.eq_dec op 2) as [->|N2].
        -- destruct (att_input_exchange _ _ _ _ _ _ _ _ G Hop A) as (r & HE).
           destruct (valid_exchange pdu) as [v|] eqn:V.
           ++ apply valid_exchange_inv in V. destruct V as (lo & hi & -> & -> & Lv).
              destruct (exchange_mtu_valid c st cid lo hi (repeat fill_byte (N.to_nat n)) (N.min n (negotiated_mtu c k)) k) as (b' & HV & _ & HL); auto.
              { rewrite len_repeat. apply N.leb_le in Hn. unfold default_att_mtu in Hn. lia. }
              rewrite HV in HE. inv HE. eexists. split; [eapply set_conn_get; eauto|reflexivity].
           ++ assert (st' = st).
              { eapply exchange_mtu_invalid_unchanged'; eauto. }
              subst. eauto.
        -- rewrite (valid_exchange_not2 _ _ Hop N2).
           pose proof (att_input_frameb _ _ _ _ _ _ _ _ Hop A) as F.
           replace (op =? 2) with false in F by (symmetry; apply N.eqb_neq; auto).
           destruct (frame_this _ _ _ _ _ F) as (k0 & k1 & G0 & G1 & C). rewrite G in G0. inv G0.
           exists k1. split; auto. eapply conn_change_mtu. eauto.
      * (* Fault: the state is unchanged; a valid exchange never faults *)
        exists k. split; auto.
        destruct (default_att_mtu <=? n) eqn:Hn; auto.
        destruct (valid_exchange pdu) as [v|] eqn:V; auto. exfalso.
        apply valid_exchange_inv in V. destruct V as (lo & hi & -> & -> & Lv). apply N.leb_le in Hn.
        rewrite (att_input_opcode2 c st cid [2; lo; hi] n k G eq_refl) in A by (unfold negotiated_mtu; lia).
        destruct (exchange_mtu_valid c st cid lo hi (repeat fill_byte (N.to_nat n)) (N.min n (negotiated_mtu c k)) k) as (b' & HV & _ & HL); auto.
        { rewrite len_repeat. unfold default_att_mtu in Hn. lia. }
        rewrite HV in A. rewrite len_repeat in HL.
        replace (3 <=? len b') with true in A by (symmetry; apply N.leb_le; unfold default_att_mtu in Hn; lia). discriminate.
    + cbn [andb]. apply Nat.eqb_neq in Ei.
      destruct (att_input c st i pdu n) as [[st' rs]|] eqn:A; cbn [fst]; eauto.
      exists k. split; auto. rewrite (frame_other _ _ _ _ _ cid (att_input_frame _ _ _ _ _ _ _ A)); auto.
  - (* l2cap_output *)
    destruct (att_output c st i n) as [[st' rs]|] eqn:A; cbn [fst]; eauto.
    pose proof (att_output_frameb _ _ _ _ _ _ A) as F.
    destruct (Nat.eq_dec cid i) as [->|N].
    + destruct (frame_this _ _ _ _ _ F) as (k0 & k1 & G0 & G1 & C). rewrite G in G0. inv G0.
      exists k1. split; auto. eapply conn_change_mtu. eauto.
    + exists k. split; auto. rewrite (frame_other _ _ _ _ _ cid F); auto.
  - destruct (get_conn st i) as [k0|] eqn:G0; cbn [fst]; eauto.
    destruct (Nat.eq_dec cid i) as [->|N].
    + rewrite G in G0. inv G0. eexists. split; [eapply set_conn_get; eauto|reflexivity].
    + exists k. split; auto. rewrite set_conn_get_other; auto.
  - cbn [fst]. destruct (Nat.eqb i cid) eqn:Ei.
    + apply Nat.eqb_eq in Ei. subst. eexists. split.
      * apply set_conn_get with (k0 := k). unfold get_conn in *. rewrite wq_free_conns. exact G.
      * reflexivity.
    + apply Nat.eqb_neq in Ei. exists k. split; auto. rewrite set_conn_get_other by auto.
      unfold get_conn in *. rewrite wq_free_conns. exact G.
  - assert (R : forall d, exists k', get_conn (fst (request st kd d)) cid = Some k' /\ client_mtu k' = client_mtu k).
    { intros d. unfold request. destruct (queue_all (conns st) _) as [l rs] eqn:Q. cbn [fst].
      destruct (queue_all_spec _ _ _ _ Q) as (_ & N0). unfold get_conn in *. cbn [conns].
      rewrite (N0 _ _ G). eexists. split; [reflexivity|]. unfold nq_step. destruct (NQueueModel.step _ _). reflexivity. }
    destruct bu.
    + destruct (by_uuid_available c kd gci); cbn [fst]; eauto.
      unfold notify_by_uuid. destruct (nth_error (all_chars c) gci) as [x|]; cbn [fst]; eauto.
      destruct (find_notification_by_uuid c (c_uuid (snd x))) as [d|]; cbn [fst]; eauto.
      specialize (R d). destruct (request st kd d). exact R.
    + destruct (by_value_available c gci); cbn [fst]; eauto.
      unfold notify_by_value. destruct (find_notification_data c gci) as [d|]; cbn [fst]; eauto.
      specialize (R d). destruct (request st kd d). exact R.
  - destruct (has_var c gci) as [[w h]|]; cbn [fst]; eauto.
  - destruct (has_var c gci) as [[[|] h]|]; cbn [fst]; eauto.
Qed.

Lemma mtu_after_ge cid m o : default_att_mtu <= m -> default_att_mtu <= mtu_after cid m o.
Proof.
  intros H. destruct o; cbn [mtu_after]; auto.
  - destruct (_ && _); auto. destruct (valid_exchange pdu) eqn:V; auto.
    apply valid_exchange_inv in V. destruct V as (lo & hi & _ & -> & L). exact L.
  - destruct (Nat.eqb _ _); auto. lia.
Qed.

(* after ANY history: the client MTU of connection cid is the last valid client MTU (23 if none) *)
Theorem client_mtu_history c cid : default_att_mtu <= max_mtu c -> forall ops st k,
  get_conn st cid = Some k -> default_att_mtu <= client_mtu k ->
  exists k', get_conn (srv_after c st ops) cid = Some k'
             /\ client_mtu k' = mtu_history cid (client_mtu k) ops /\ default_att_mtu <= client_mtu k'.
Proof.
  intros W. induction ops as [|o t IH]; intros st k G M; cbn [srv_after mtu_history].
  - exists k. auto.
  - destruct (srv_step_mtu c st o cid k W G M) as (k1 & G1 & E1).
    destruct (IH _ k1 G1) as (k' & G' & E' & M'); [rewrite E1; apply mtu_after_ge; auto|].
    exists k'. rewrite <- E1. auto.
Qed.

Theorem negotiated_mtu_history c cid ops :
  wf c -> (cid < n_conns)%nat ->
  exists k, get_conn (srv_after c (srv_init c) ops) cid = Some k
            /\ negotiated_mtu c k = N.min (max_mtu c) (mtu_history cid default_att_mtu ops)
            /\ default_att_mtu <= negotiated_mtu c k.
Proof.
  intros W Hc.
  assert (Wm : default_att_mtu <= max_mtu c).
  { unfold wf, wf_b in W. repeat (apply andb_true_iff in W; destruct W as [W ?]).
    match goal with H : (default_att_mtu <=? max_mtu c) = true |- _ => apply N.leb_le in H; exact H end. }
  assert (G : get_conn (srv_init c) cid = Some (init_conn c)).
  { unfold get_conn, srv_init. cbn [conns]. apply nth_error_repeat. exact Hc. }
  destruct (client_mtu_history c cid Wm ops _ _ G) as (k & Gk & E & M); [cbn; lia|].
  exists k. split; auto. unfold negotiated_mtu. change (client_mtu (init_conn c)) with default_att_mtu in E.
  split; [rewrite E; reflexivity|lia].
Qed.

(* ------------------------------------------------------------------ every PDU is bounded *)
(* l2cap_output: a notification / indication is at most min( buffer, negotiated MTU ) bytes long *)
Theorem att_output_length c st cid n st' rs k :
  get_conn st cid = Some k -> att_output c st cid n = Some (st', rs) -> len rs <= N.min n (negotiated_mtu c k).
Proof.
  intros G. unfold att_output. rewrite G.
  destruct (nq_step k Dequeue) as [k1 r].
  destruct r as [x|[[kd i]|]|]; try (intros H; inv H; unfold len; cbn; lia).
  destruct (find_notification_data_by_index c (N.of_nat i)) as [ai ci].
  destruct (negb _ && (3 <=? N.min n (negotiated_mtu c k))) eqn:C.
  - apply andb_true_iff in C. destruct C as [_ C]. apply N.leb_le in C.
    intros H. mon.
    match goal with E0 : access_read _ _ _ _ _ _ _ = Some _ |- _ => apply access_read_len in E0 end.
    match goal with H : match ?rc with Success => _ | _ => _ end = Some _ |- _ => destruct rc end; mon;
      try (unfold len; cbn; lia).
    rewrite len_takeN. lia.
  - intros H. inv H. unfold len; cbn; lia.
Qed.

(* l2cap_input: C01 (b) *)
Theorem att_input_length c st cid pdu n st' rs k :
  get_conn st cid = Some k -> att_input c st cid pdu n = Some (st', rs) -> len rs <= N.min n (negotiated_mtu c k).
Proof. intros G A. eapply att_input_length_and_frame; eauto. Qed.

(* both, along any history, against the SPECIFIED MTU *)
Theorem every_pdu_bounded c ops cid :
  wf c -> (cid < n_conns)%nat ->
  let st := srv_after c (srv_init c) ops in
  let mtu := N.min (max_mtu c) (mtu_history cid default_att_mtu ops) in
  default_att_mtu <= mtu
  /\ (forall pdu n st' rs, att_input c st cid pdu n = Some (st', rs) -> len rs <= N.min n mtu)
  /\ (forall n st' rs, att_output c st cid n = Some (st', rs) -> len rs <= N.min n mtu).
Proof.
  intros W Hc st mtu. destruct (negotiated_mtu_history c cid ops W Hc) as (k & G & E & M).
  fold st in G. fold mtu in E. rewrite E in M. split; auto. split.
  - intros pdu n st' rs A. rewrite <- E. eapply att_input_length; eauto.
  - intros n st' rs A. rewrite <- E. eapply att_output_length; eauto.
Qed.

(* ------------------------------------------------------------------ the monitor accepts every trace of the model *)
From BT Require Import AttSrv.AttSrvNotifSpec AttSrv.AttSrvSpecC08 AttSrv.AttSrvNotifObs.

Lemma bytes_eqb_refl l : bytes_eqb l l = true.
Proof. induction l as [|x t IH]; cbn [bytes_eqb]; auto. rewrite N.eqb_refl, IH. reflexivity. Qed.

(* simulation invariant: the observer knows the client MTU of every connection *)
Definition sim08 (st : srv_state) (m : obs) : Prop :=
  length (ob_conns m) = length (conns st)
  /\ forall cid k, get_conn st cid = Some k -> default_att_mtu <= client_mtu k /\ o_mtu (oc_at m cid) = client_mtu k.

Lemma sim08_init c : sim08 (srv_init c) (obs_init c).
Proof.
  split; [unfold obs_init, srv_init; cbn [ob_conns conns]; rewrite !repeat_length; reflexivity|].
  intros cid k G. unfold get_conn, srv_init in G. cbn [conns] in G.
  assert (Hc : (cid < n_conns)%nat) by (apply nth_error_Some in G || (apply nth_error_lt in G; rewrite repeat_length in G; exact G)).
  apply nth_error_In in G. apply repeat_spec in G. subst k. cbn [init_conn client_mtu]. split; [lia|].
  unfold oc_at, obs_init. cbn [ob_conns]. rewrite repeat_nth by exact Hc. reflexivity.
Qed.

Lemma att_input_success c st cid pdu n st' rs :
  att_input c st cid pdu n = Some (st', rs) ->
  exists k op, get_conn st cid = Some k /\ (len pdu =? 0) = false /\ default_att_mtu <= N.min n (negotiated_mtu c k) /\ rd pdu 0 = Some op.
Proof.
  unfold att_input. destruct (get_conn st cid) as [k|]; [|discriminate].
  destruct (len pdu =? 0) eqn:L; [discriminate|].
  destruct (N.min n (negotiated_mtu c k) <? default_att_mtu) eqn:M; [discriminate|].
  destruct (rd pdu 0) as [op|]; [|discriminate]. intros _. apply N.ltb_ge in M. eauto 8.
Qed.

Lemma eff_size_eq c m cid k n : o_mtu (oc_at m cid) = client_mtu k -> eff_size c (oc_at m cid) n = N.min n (negotiated_mtu c k).
Proof. intros H. unfold eff_size, neg_mtu, negotiated_mtu. rewrite H. reflexivity. Qed.

(* the answer of the model to an Exchange MTU Request *)
Lemma att_input_exchange_answer c st cid rest n st' rs k :
  get_conn st cid = Some k -> att_input c st cid (2 :: rest) n = Some (st', rs) ->
  match rest with
  | [lo; hi] => if default_att_mtu <=? lo + 256 * hi then rs = 3 :: le16 (max_mtu c) else rs = [1; 2; 0; 0; 4]
  | _ => rs = [1; 2; 0; 0; 4]
  end.
Proof.
  intros G A. destruct (att_input_success _ _ _ _ _ _ _ A) as (k0 & op & G0 & L & M & Hop). rewrite G in G0. inv G0.
  change (rd (2 :: rest) 0) with (Some 2) in Hop. clear Hop.
  rewrite (att_input_opcode2 c st cid (2 :: rest) n k0 G eq_refl M) in A.
  destruct (handle_exchange_mtu _ _ _ _ _ _) as [[s1 [b1 mm]]|] eqn:HE; [|discriminate].
  assert (Inv : (len (2 :: rest) <> 3 \/ exists v, rd16 (2 :: rest) 1 = Some v /\ v < default_att_mtu) -> rs = [1; 2; 0; 0; 4]).
  { intros Hinv. assert (H5 : 5 <= N.min n (negotiated_mtu c k0)) by (unfold default_att_mtu in M; lia).
    destruct (exchange_mtu_invalid c st cid (2 :: rest) _ _ _ _ H5 eq_refl HE Hinv) as (_ & S5 & T5).
    cbn [fst snd] in S5, T5. subst mm. destruct (5 <=? len b1); [|discriminate]. inv A. exact T5. }
  destruct rest as [|lo [|hi [|x t]]]; try (apply Inv; left; unfold len; cbn [length]; lia).
  destruct (default_att_mtu <=? lo + 256 * hi) eqn:V.
  - apply N.leb_le in V.
    destruct (exchange_mtu_valid c st cid lo hi (repeat fill_byte (N.to_nat n)) (N.min n (negotiated_mtu c k0)) k0) as (b' & HV & T3 & _); auto.
    { rewrite len_repeat. unfold default_att_mtu in M. lia. }
    rewrite HV in HE. inv HE. destruct (3 <=? len b1); [|discriminate]. inv A. exact T3.
  - apply Inv. right. exists (lo + 256 * hi). split; [reflexivity|]. apply N.leb_gt. exact V.
Qed.

Lemma check08_core_ok c st m o :
  sim08 st m -> snd (srv_step c st o) <> OFault -> check08_core c m o (snd (srv_step c st o)) = None.
Proof.
  intros [SL S] NF. destruct o as [cid pdu n|cid n|cid e p|cid|bu kd g|g|g data]; cbn [srv_step] in *.
  - destruct (att_input c st cid pdu n) as [[st' rs]|] eqn:A; cbn [snd] in *; [|contradiction].
    destruct (att_input_success _ _ _ _ _ _ _ A) as (k & op & G & L & M & Hop).
    destruct (S _ _ G) as (Mk & Ek). cbn [check08_core]. rewrite L. cbn [orb].
    replace (n <? default_att_mtu) with false by (symmetry; apply N.ltb_ge; lia).
    rewrite (eff_size_eq c m cid k n Ek).
    replace (N.min n (negotiated_mtu c k) <? len rs) with false
      by (symmetry; apply N.ltb_ge; eapply att_input_length; eauto).
    destruct pdu as [|a rest]; [reflexivity|].
    destruct (N.eq_dec a 2) as [->|Na].
    + pose proof (att_input_exchange_answer _ _ _ _ _ _ _ _ G A) as X.
      destruct rest as [|lo [|hi [|x t]]]; try (rewrite X; reflexivity).
      destruct (default_att_mtu <=? lo + 256 * hi); rewrite X; rewrite bytes_eqb_refl; reflexivity.
    + destruct a as [|p]; [reflexivity|]. repeat (destruct p as [p|p|]; try reflexivity). exfalso. apply Na. reflexivity.
  - destruct (att_output c st cid n) as [[st' rs]|] eqn:A; cbn [snd] in *; [|contradiction].
    assert (exists k, get_conn st cid = Some k) as (k & G).
    { unfold att_output in A. destruct (get_conn st cid); [eauto|discriminate]. }
    destruct (S _ _ G) as (Mk & Ek). cbn [check08_core]. rewrite (eff_size_eq c m cid k n Ek).
    replace (N.min n (negotiated_mtu c k) <? len rs) with false
      by (symmetry; apply N.ltb_ge; eapply att_output_length; eauto). reflexivity.
  - destruct (get_conn st cid); reflexivity.
  - reflexivity.
  - destruct bu.
    + destruct (by_uuid_available c kd g); [|reflexivity]. destruct (notify_by_uuid c st kd g) as [[s r]|]; cbn [snd] in *; [reflexivity|contradiction].
    + destruct (by_value_available c g); [|reflexivity]. destruct (notify_by_value c st kd g) as [[s r]|]; cbn [snd] in *; [reflexivity|contradiction].
  - destruct (has_var c g) as [[w h]|]; reflexivity.
  - destruct (has_var c g) as [[[|] h]|]; reflexivity.
Qed.

(* the observer's MTU after one step is the specified one, when the output is the model's *)
Lemma core_eff_mtu c st m o cid x :
  (forall k, get_conn st cid = Some k -> True) ->
  snd (srv_step c st o) <> OFault ->
  fst (fst (core_eff c m o (snd (srv_step c st o)) cid x)) = mtu_after cid (fst (fst x)) o.
Proof.
  intros _ NF. destruct x as [[mtu enc] out]. cbn [fst].
  destruct o as [i pdu n|i n|i e p|i|bu kd g|g|g data]; cbn [srv_step mtu_after] in *.
  - destruct (att_input c st i pdu n) as [[st' rs]|] eqn:A; cbn [snd] in *; [|contradiction].
    destruct (att_input_success _ _ _ _ _ _ _ A) as (k & op & G & L & M & Hop).
    rewrite (core_in_classified c m i pdu n rs cid (mtu, enc, out)). rewrite L.
    replace (n <? default_att_mtu) with false by (symmetry; apply N.ltb_ge; lia).
    replace (default_att_mtu <=? n) with true by (symmetry; apply N.leb_le; lia).
    rewrite Nat.eqb_sym. destruct (Nat.eqb cid i) eqn:Ei; cbn [negb orb andb fst snd]; [|reflexivity].
    destruct (classify pdu) as [lo hi| |] eqn:Cl.
    + apply classify_mtu in Cl. subst pdu. unfold valid_exchange. change (2 =? 2) with true. cbn [andb].
      pose proof (att_input_exchange_answer _ _ _ _ _ _ _ _ G A) as X. cbv beta iota in X.
      destruct (default_att_mtu <=? lo + 256 * hi); [|reflexivity]. rewrite X. reflexivity.
    + destruct (valid_exchange pdu) eqn:V; [|reflexivity]. apply valid_exchange_inv in V.
      destruct V as (lo & hi & -> & _). discriminate Cl.
    + destruct (valid_exchange pdu) eqn:V; [|reflexivity]. apply valid_exchange_inv in V.
      destruct V as (lo & hi & -> & _). discriminate Cl.
  - destruct (att_output c st i n) as [[st' rs]|]; cbn [snd] in *; [|contradiction].
    cbn [core_eff]. destruct rs as [|a [|b [|d t]]]; try reflexivity. destruct (_ && _); reflexivity.
  - destruct (get_conn st i); cbn [snd core_eff]; destruct (Nat.eqb i cid) eqn:E; rewrite ?E; try reflexivity;
      rewrite Nat.eqb_sym in E; rewrite E; reflexivity.
  - cbn [snd core_eff]. destruct (Nat.eqb i cid); reflexivity.
  - destruct bu.
    + destruct (by_uuid_available c kd g); [|reflexivity]. destruct (notify_by_uuid c st kd g) as [[s r]|]; reflexivity.
    + destruct (by_value_available c g); [|reflexivity]. destruct (notify_by_value c st kd g) as [[s r]|]; reflexivity.
  - destruct (has_var c g) as [[w h]|]; reflexivity.
  - destruct (has_var c g) as [[[|] h]|]; reflexivity.
Qed.

Lemma sim08_step c st m o :
  default_att_mtu <= max_mtu c -> sim08 st m -> snd (srv_step c st o) <> OFault ->
  sim08 (fst (srv_step c st o)) (advance c m o (snd (srv_step c st o))).
Proof.
  intros W [SL S] NF. destruct (advance_follows c m o (snd (srv_step c st o))) as (AL & AC).
  split; [rewrite AL, srv_step_length; exact SL|].
  intros cid k' G'.
  assert (Hc : (cid < length (conns st))%nat).
  { rewrite <- (srv_step_length c st o). eapply nth_error_lt; eauto. }
  destruct (nth_error (conns st) cid) as [k|] eqn:G; [|apply nth_error_None in G; lia].
  destruct (S _ _ G) as (Mk & Ek).
  destruct (srv_step_mtu c st o cid k W G Mk) as (k1 & G1 & E1). rewrite G1 in G'. inv G'.
  split; [rewrite E1; apply mtu_after_ge; exact Mk|].
  assert (X : o_mtu (oc_at (advance c m o (snd (srv_step c st o))) cid)
              = fst (fst (core (oc_at (advance c m o (snd (srv_step c st o))) cid)))) by reflexivity.
  rewrite X, AC by (rewrite SL; exact Hc).
  rewrite (core_eff_mtu c st m o cid _ (fun _ _ => I) NF). cbn [core fst]. rewrite Ek, E1. reflexivity.
Qed.

Theorem monitor08_core_accepts c : default_att_mtu <= max_mtu c -> forall ops st m pos,
  sim08 st m -> no_fault (srv_run c st ops) -> monitor_from_of check08_core c m pos (srv_run c st ops) = None.
Proof.
  intros W. induction ops as [|o t IH]; intros st m pos S NF; cbn [srv_run monitor_from_of]; [reflexivity|].
  pose proof (check08_core_ok c st m o S) as CK. pose proof (sim08_step c st m o W S) as ST.
  destruct (srv_step c st o) as [st' r] eqn:E. cbn [fst snd] in *.
  cbn [srv_run] in NF. rewrite E in NF. inversion NF as [|? ? NF1 NF2]; subst. cbn [snd] in NF1.
  cbn [monitor_from_of]. unfold mstep_of. rewrite (CK NF1). apply IH; auto.
Qed.

Theorem monitor08_core_accepts_model c ops :
  wf c -> no_fault (srv_run c (srv_init c) ops) -> monitor08_core c (srv_run c (srv_init c) ops) = None.
Proof.
  intros W NF. apply monitor08_core_accepts; auto; [|apply sim08_init].
  unfold wf, wf_b in W. repeat (apply andb_true_iff in W; destruct W as [W ?]).
  match goal with H : (default_att_mtu <=? max_mtu c) = true |- _ => apply N.leb_le in H; exact H end.
Qed.
