(* Proofs for property C08 (ATT MTU negotiation bounds every PDU). *)
From Coq Require Import Lia ZifyBool.
From BT Require Import Base.ListX AttDb.AttDbModel NQueue.NQueueModel AttSrv.AttSrvModel AttSrv.AttSrvNotifSpec AttSrv.AttSrvSpecC08.
Local Open Scope N_scope.

Lemma error_response_state opcode code h b n r : error_response opcode code h b n = Some r -> snd r <= 5.
Proof.
  unfold error_response. destruct (5 <=? n).
  - destruct (put b 0 _); [|discriminate]. intros [= <-]. cbn. lia.
  - intros [= <-]. cbn. lia.
Qed.

(* an Exchange MTU Request with a wrong length or a client MTU below 23 leaves the state unchanged *)
Lemma exchange_mtu_invalid_unchanged c st cid pdu b n st' r :
  handle_exchange_mtu c st cid pdu b n = Some (st', r) ->
  (len pdu <> 3 \/ exists m, rd16 pdu 1 = Some m /\ m < default_att_mtu) -> st' = st.
Proof.
  unfold handle_exchange_mtu. destruct (rd pdu 0) as [op|]; [|discriminate].
  destruct (negb (len pdu =? 3)) eqn:E3.
  - destruct (error_response _ _ _ _ _); [|discriminate]. intros [= <- _]. reflexivity.
  - intros H [L|(m & Hm & Lm)].
    + apply negb_false_iff, N.eqb_eq in E3. contradiction.
    + rewrite Hm in H. replace (m <? default_att_mtu) with true in H by (symmetry; apply N.ltb_lt; exact Lm).
      destruct (error_response _ _ _ _ _); [|discriminate]. injection H as <- _. reflexivity.
Qed.
