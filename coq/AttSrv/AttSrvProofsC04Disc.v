(* C04 clause reported_handle for the model: the handles a discovery response reports are the assigned
   handles of the attributes the entries describe (AttDbSpec.check_discovery), for well formed
   configurations without include_service<>. Built on att-disc's byte-exact response theorems. *)
From Coq Require Import Lia ZifyBool.
From BT Require Import Base.ListX AttDb.AttDbModel AttDb.AttDbSpec AttDb.AttDbProofs NQueue.NQueueModel
  AttSrv.AttSrvModel AttSrv.AttSrvSpecC02 AttSrv.AttSrvSpecC03.
From BT Require AttSrv.AttSrvProofsC02 AttSrv.AttSrvProofsC03 AttSrv.AttSrvNoFault.
Module C2 := AttSrv.AttSrvProofsC02.
Module C3 := AttSrv.AttSrvProofsC03.
Module NF := AttSrv.AttSrvNoFault.
Local Open Scope N_scope.

(* ------------------------------------------------------------------ lists *)
Lemma skipn_in (A : Type) (l : list A) n x : In x (skipn n l) -> In x l.
Proof. intros H. rewrite <- (firstn_skipn n l). apply in_or_app. right. exact H. Qed.

Lemma listN_eqb_refl l : listN_eqb l l = true.
Proof. induction l as [|x t IH]; cbn [listN_eqb]; [reflexivity|]. rewrite N.eqb_refl, IH. reflexivity. Qed.

Lemma rh_chunks_flat_map (A : Type) (f : A -> list N) n : (1 <= n)%nat ->
  forall W fuel, (forall x, In x W -> length (f x) = n) -> (length W <= fuel)%nat ->
  rh_chunks fuel n (flat_map f W) = map f W.
Proof.
  intros Hn. induction W as [|x t IH]; intros fuel Hl Hf; cbn [flat_map map].
  - destruct fuel; reflexivity.
  - destruct fuel as [|fu]; [cbn [length] in Hf; lia|].
    assert (Lx : length (f x) = n) by (apply Hl; left; reflexivity).
    cbn [rh_chunks]. destruct (f x ++ flat_map f t) eqn:E.
    + destruct (f x); [cbn [length] in Lx; lia|discriminate E].
    + rewrite <- E.
      assert (F1 : firstn n (f x ++ flat_map f t) = f x).
      { rewrite firstn_app, firstn_all2 by lia. replace (n - length (f x))%nat with O by lia. cbn [firstn]. apply app_nil_r. }
      assert (F2 : skipn n (f x ++ flat_map f t) = flat_map f t).
      { rewrite skipn_app, skipn_all2 by lia. replace (n - length (f x))%nat with O by lia. reflexivity. }
      rewrite F1, F2. f_equal.
      apply IH; [intros y Hy; apply Hl; right; exact Hy|cbn [length] in Hf; lia].
Qed.

Lemma rh_w16_le16 h t : h < 65536 -> rh_w16 (le16 h ++ t) 0 = h.
Proof.
  intros H. unfold rh_w16, le16. cbn [app nth].
  rewrite (N.mod_small (h / 256) 256) by (apply N.div_lt_upper_bound; lia).
  pose proof (N.div_mod h 256 ltac:(lia)). lia.
Qed.

Lemma rh_w16_le16_2 a h t : h < 65536 -> rh_w16 (le16 a ++ le16 h ++ t) 2 = h.
Proof. intros H. unfold rh_w16. change (le16 a ++ le16 h ++ t) with (a mod 256 :: (a / 256) mod 256 :: (le16 h ++ t)). cbn [nth]. apply (rh_w16_le16 h t H). Qed.

(* ------------------------------------------------------------------ the services and their assigned ranges *)
Definition conv (g : N * N * service_decl) : service_decl * N * N := (snd g, C2.gfirst g, C2.glast g).

Lemma rh_svc_groups_conv ss : forall hs, rh_svc_groups ss hs = map conv (svc_groups ss hs).
Proof. induction ss as [|s t IH]; intros hs; cbn [rh_svc_groups svc_groups map]; [reflexivity|]. rewrite IH. reflexivity. Qed.

Lemma group_at_conv G : forall p g, increasing_from p (map C2.gfirst G) = true -> In g G ->
  group_at (map conv G) (C2.gfirst g) = Some (snd g, C2.glast g).
Proof.
  induction G as [|x t IH]; intros p g Hs Hin; [destruct Hin|]. cbn [map increasing_from] in Hs.
  apply andb_true_iff in Hs. destruct Hs as [H1 H2]. cbn [map group_at conv].
  destruct Hin as [->|Hin]; [rewrite N.eqb_refl; reflexivity|].
  assert (C2.gfirst x < C2.gfirst g) by (apply (increasing_from_lower (C2.gfirst x) (map C2.gfirst t)); auto; apply in_map; exact Hin).
  replace (C2.gfirst x =? C2.gfirst g) with false by (symmetry; apply N.eqb_neq; lia).
  eapply IH; eauto.
Qed.

Lemma svc_groups_in ss : forall hs g, length hs = N.to_nat (sumN svc_nattrs ss) -> In g (svc_groups ss hs) ->
  In (C2.gfirst g) hs /\ In (C2.glast g) hs.
Proof.
  induction ss as [|s t IH]; intros hs g Hl Hin; cbn [svc_groups] in Hin; [destruct Hin|].
  cbn [sumN] in Hl. pose proof (C2.svc_nattrs_pos s) as Hp.
  destruct Hin as [<-|Hin].
  - unfold C2.gfirst, C2.glast. cbn [fst snd]. split; apply nth_In; lia.
  - apply IH in Hin; [|rewrite skipn_length; lia]. destruct Hin as [I1 I2].
    split; [eapply skipn_in; exact I1|eapply skipn_in; exact I2].
Qed.

Lemma flat_map_length_ge (A : Type) (f : A -> list N) W : (forall x, In x W -> (1 <= length (f x))%nat) ->
  (length W <= length (flat_map f W))%nat.
Proof.
  induction W as [|x t IH]; intros H; cbn [flat_map length]; [lia|]. rewrite app_length.
  specialize (H x (or_introl eq_refl)) as Hx. specialize (IH (fun y Hy => H y (or_intror Hy))). lia.
Qed.

Section Cfg.
  Variable c : cfg.
  Hypothesis Hw : wf c.
  Hypothesis Hn : no_includes c.

  Lemma groups_length : length (assign c) = N.to_nat (sumN svc_nattrs (services c)).
  Proof. apply assign_length; auto. Qed.

  (* an entry naming a declared service by its assigned range is accepted exactly if it is primary and the uuid is its *)
  Lemma group_entry g X uuid : In g (groups c) ->
    group_entry_ok c (le16 (C2.gfirst g) ++ le16 (C2.glast g) ++ X) uuid true
    = negb (s_secondary (snd g)) && listN_eqb uuid (uuid_bytes (s_uuid (snd g))).
  Proof.
    intros Hin. unfold groups in Hin. destruct (svc_groups_in _ _ _ groups_length Hin) as [I1 I2].
    pose proof (C2.assign_upper c _ Hw Hn I1) as U1. pose proof (C2.assign_upper c _ Hw Hn I2) as U2.
    unfold group_entry_ok. rewrite rh_w16_le16 by exact U1. rewrite rh_svc_groups_conv.
    rewrite (group_at_conv _ 0 g); [|apply C2.blocks_sorted_firsts; apply C2.groups_sorted; auto|exact Hin].
    rewrite rh_w16_le16_2 by exact U2. rewrite N.eqb_refl, andb_true_r. reflexivity.
  Qed.

  Lemma genc_length g : In g (groups c) -> length (C2.genc g) = N.to_nat (C2.gsize (is_128bit (s_uuid (snd g)))).
  Proof.
    intros Hin. pose proof (C2.uuid_bytes_len _ (C3.services_uuid_ok c g Hw Hin)) as L. unfold len in L.
    unfold C2.genc, C2.gsize. rewrite !app_length. cbn [le16 length]. destruct (is_128bit (s_uuid (snd g))); lia.
  Qed.

  (* ---- Read By Group Type *)
  Theorem rbg_reported_handles a0 a1 x0 x1 b n r :
    a0 < 256 -> a1 < 256 -> x0 < 256 -> x1 < 256 ->
    1 <= w16 a0 a1 -> w16 a0 a1 <= w16 x0 x1 -> 23 <= n -> n <= len b ->
    handle_read_by_group_type c [16; a0; a1; x0; x1; 0; 40] b n = Some r ->
    check_discovery c [16; a0; a1; x0; x1; 0; 40] (takeN (snd r) (fst r)) = Ok.
  Proof.
    intros Ha0 Ha1 Hx0 Hx1 Hlo Hhi Hn1 Hb H.
    pose proof (C2.read_by_group_type_spec c a0 a1 x0 x1 b n r Hw Hn Ha0 Ha1 Hx0 Hx1 Hlo Hhi Hn1 Hb H) as S. cbv zeta in S.
    destruct r as [b' m]. pose proof (NF.read_by_group_type_len c _ _ _ _ _ H) as Lb. cbn [fst snd] in *.
    set (lo := w16 a0 a1) in *. set (hi := w16 x0 x1) in *.
    destruct (C2.walk_first_spec (groups c) lo hi (n - 2) ltac:(lia)) as (rest & P1 & _ & P3).
    unfold C2.rbg_response in S. destruct (C2.walk_first (groups c) lo hi (n - 2)) as [|g W] eqn:EW; cbn [fst snd] in S.
    - destruct S as [-> S]. assert (L5 : 5 <= len b') by (rewrite Lb; clear -Hn1 Hb; lia). rewrite (C2.takeN_seg 5 b' L5). rewrite S. reflexivity.
    - destruct S as (S1 & S2 & S3). rewrite (C2.takeN_seg m b' S2). rewrite S3.
      set (G := g :: W) in *.
      assert (HG : forall x, In x G -> In x (groups c) /\ s_secondary (snd x) = false
                              /\ is_128bit (s_uuid (snd x)) = is_128bit (s_uuid (snd g))).
      { intros x Hx. assert (Hf : In x (filter (C2.group_wanted lo hi) (groups c))) by (rewrite P1; apply in_or_app; left; exact Hx).
        apply filter_In in Hf. destruct Hf as [F1 F2]. unfold C2.group_wanted in F2. apply andb_true_iff in F2. destruct F2 as [_ F2].
        apply negb_true_iff in F2. repeat split; auto. }
      cbn [check_discovery]. set (L := C2.gsize (is_128bit (s_uuid (snd g)))).
      rewrite (rh_chunks_flat_map _ C2.genc (N.to_nat L)).
      + replace (forallb _ (map C2.genc G)) with true; [reflexivity|]. symmetry. apply forallb_forall. intros e He.
        apply in_map_iff in He. destruct He as [x [<- Hx]]. destruct (HG x Hx) as (G1 & G2 & G3).
        rewrite (genc_length x G1), G3. fold L. rewrite Nat.eqb_refl. cbn [andb].
        unfold C2.genc at 1. change (fst (fst x)) with (C2.gfirst x). change (snd (fst x)) with (C2.glast x).
        rewrite (group_entry x _ _ G1), G2. cbn [negb andb].
        unfold C2.genc. change (skipn 4 (le16 (fst (fst x)) ++ le16 (snd (fst x)) ++ uuid_bytes (s_uuid (snd x)))) with (uuid_bytes (s_uuid (snd x))).
        apply listN_eqb_refl.
      + unfold L, C2.gsize. destruct (is_128bit (s_uuid (snd g))); lia.
      + intros x Hx. destruct (HG x Hx) as (G1 & _ & G3). rewrite (genc_length x G1), G3. reflexivity.
      + apply flat_map_length_ge. intros x Hx. destruct (HG x Hx) as (G1 & _ & _). rewrite (genc_length x G1).
        unfold C2.gsize. destruct (is_128bit (s_uuid (snd x))); vm_compute; lia.
  Qed.

  (* ---- Find By Type Value *)
  Lemma fbtv_walk_in G lo hi value : forall avail g, In g (C3.fbtv_walk G lo hi value avail) ->
    In g G /\ s_secondary (snd g) = false /\ bytes_eqb (uuid_bytes (s_uuid (snd g))) value = true.
  Proof.
    induction G as [|x t IH]; intros avail g H; cbn [C3.fbtv_walk] in H; [destruct H|].
    destruct ((lo <=? C2.gfirst x) && (C2.gfirst x <=? hi) && negb (s_secondary (snd x))
              && bytes_eqb (uuid_bytes (s_uuid (snd x))) value && (4 <=? avail)) eqn:E.
    - destruct H as [<-|H].
      + apply andb_true_iff in E. destruct E as [E _]. apply andb_true_iff in E. destruct E as [E E2].
        apply andb_true_iff in E. destruct E as [_ E1]. apply negb_true_iff in E1. repeat split; auto. left; reflexivity.
      + apply IH in H. destruct H as (H1 & H2 & H3). repeat split; auto. right; exact H1.
    - apply IH in H. destruct H as (H1 & H2 & H3). repeat split; auto. right; exact H1.
  Qed.

  Lemma slice_tail pdu value : slice pdu 7 (len pdu) = Some value -> value = skipn 7 pdu.
  Proof.
    unfold slice. destruct ((7 <=? len pdu) && (len pdu <=? len pdu)) eqn:E; [|discriminate]. intros H. inversion H.
    apply andb_true_iff in E. destruct E as [E _]. apply N.leb_le in E.
    unfold takeN, dropN. change (N.to_nat 7) with 7%nat. apply firstn_all2. rewrite skipn_length. unfold len in *. lia.
  Qed.

  Theorem fbtv_reported_handles st cid pdu lo hi value b n r :
    forallb byte_ok value = true ->
    rd pdu 0 = Some 6 -> (len pdu = 9 \/ len pdu = 23) ->
    rd16 pdu 1 = Some lo -> rd16 pdu 3 = Some hi -> rd16 pdu 5 = Some uuid_primary_service ->
    slice pdu 7 (len pdu) = Some value ->
    1 <= lo -> lo <= hi -> 23 <= n -> n <= len b ->
    handle_find_by_type_value c st cid pdu b n = Some r ->
    check_discovery c pdu (takeN (snd r) (fst r)) = Ok.
  Proof.
    intros Hv Hop Hlen Hlo' Hhi' Hty Hsl Hlo Hhi Hn1 Hb H.
    pose proof (C3.find_by_type_value_spec' c st cid pdu lo hi value b n r Hw Hn Hv Hop Hlen Hlo' Hhi' Hty Hsl Hlo Hhi Hn1 Hb H) as S.
    destruct r as [b' m]. pose proof (NF.find_by_type_value_len c _ _ _ _ _ _ _ H) as Lb. cbn [fst snd] in *.
    assert (L5 : 5 <= len b') by (rewrite Lb; clear -Hn1 Hb; lia).
    assert (Hp : exists t, pdu = 6 :: t).
    { unfold rd in Hop. destruct (0 <? len pdu); [|discriminate]. destruct pdu as [|x t]; cbn in Hop; [discriminate|]. inversion Hop. eauto. }
    destruct Hp as [t Hp].
    destruct (C3.fbtv_walk (groups c) lo hi value (n - 1)) as [|g W] eqn:EW.
    - destruct S as [-> S]. rewrite (C2.takeN_seg 5 b' L5), S. rewrite Hp. reflexivity.
    - destruct S as (-> & -> & _ & S). rewrite (C2.takeN_seg 5 b' L5), S.
      destruct (fbtv_walk_in (groups c) lo hi value (n - 1) g) as (G1 & G2 & G3); [rewrite EW; left; reflexivity|].
      apply C3.bytes_eqb_eq in G3. rewrite (slice_tail _ _ Hsl) in G3.
      rewrite Hp. cbn [check_discovery]. rewrite <- Hp.
      unfold C3.genc4. change (le16 (C2.gfirst g) ++ le16 (C2.glast g))
        with [C2.gfirst g mod 256; (C2.gfirst g / 256) mod 256; C2.glast g mod 256; (C2.glast g / 256) mod 256].
      change (rh_chunks _ 4 [C2.gfirst g mod 256; (C2.gfirst g / 256) mod 256; C2.glast g mod 256; (C2.glast g / 256) mod 256])
        with [[C2.gfirst g mod 256; (C2.gfirst g / 256) mod 256; C2.glast g mod 256; (C2.glast g / 256) mod 256]].
      cbn [forallb length Nat.eqb andb].
      change ([C2.gfirst g mod 256; (C2.gfirst g / 256) mod 256; C2.glast g mod 256; (C2.glast g / 256) mod 256])
        with (le16 (C2.gfirst g) ++ le16 (C2.glast g) ++ []).
      rewrite (group_entry g [] _ G1), G2, <- G3. cbn [negb andb]. rewrite listN_eqb_refl. reflexivity.
  Qed.

  (* ---- Find Information *)
  Lemma table_lookup y : In y (table c) ->
    exists i, attr_at_handle c (fst y) = Some (i, snd y) /\ nth_error (decl_attrs c) i = Some (snd y).
  Proof.
    intros Hin. unfold table in Hin.
    assert (Ll : length (assign c) = length (decl_attrs c)).
    { rewrite (assign_length c Hw Hn). pose proof (C2.decl_attrs_len c) as L. unfold len in L. lia. }
    destruct (In_nth _ _ (0, AUserDesc []) Hin) as (i & Hi & Hy). rewrite combine_length in Hi.
    rewrite combine_nth in Hy by exact Ll. subst y. cbn [fst snd].
    exists i. unfold attr_at_handle.
    rewrite (index_eq_nth 0 (assign c) i 0 (assign_increasing c)) by lia.
    pose proof (wf_attr_bound c Hw) as Hb. rewrite (assign_length c Hw Hn) in Hi.
    replace (0 + N.of_nat i =? invalid_index) with false by (symmetry; apply N.eqb_neq; unfold invalid_index; lia).
    replace (N.to_nat (0 + N.of_nat i)) with i by lia.
    rewrite (nth_error_nth' (decl_attrs c) (AUserDesc [])) by lia. split; reflexivity.
  Qed.

  Lemma attr_type_bytes_eq a : attr_type_bytes a = uuid_bytes (attr_type a).
  Proof. destruct a; reflexivity. Qed.
End Cfg.

Section CfgM.
  Variable c : cfg.
  Hypothesis Hw : wf c.
  Hypothesis Hn : no_includes c.
  Hypothesis Hm : NF.no_marker_uuids c.

  Lemma fenc_length y : In y (table c) -> length (C2.fenc y) = N.to_nat (C2.fsize (C2.is16 (snd y))).
  Proof.
    intros Hin. destruct (table_lookup c Hw Hn y Hin) as (i & _ & Hd).
    pose proof (C2.attribute_at_decl c (N.of_nat i)) as X. rewrite Nat2N.id, Hd in X.
    destruct (attribute_at c (N.of_nat i)) as [a|] eqn:Ha; [|discriminate X]. cbn [option_map] in X. inversion X as [Xe].
    unfold C2.fenc. rewrite app_length. cbn [le16 length]. rewrite <- Xe, C2.erase_type, C2.is16_erase.
    unfold C2.is16, C2.fsize. destruct (attr_uuid a =? internal_128bit_uuid) eqn:Eu; cbn [negb].
    - apply N.eqb_eq in Eu.
      assert (Hin' : In (C2.erase a) (decl_attrs c)) by (rewrite Xe; eapply nth_error_In; eauto).
      pose proof (C2.marker_is_value c _ Hw Hin' ltac:(rewrite C2.erase_uuid; exact Eu)) as Hv.
      destruct a as [| | |s ch g k| | |]; try discriminate Hv.
      destruct (NF.no_marker_value c _ s ch g k Hm Ha Eu) as [bs Hb].
      destruct (C2.attribute_before_value c _ s ch g k Ha) as [_ Hdcl].
      pose proof (C2.uuid_bytes_len _ (NF.char_uuid_ok c Hw _ _ _ Hdcl)) as L. rewrite Hb in L. cbn [is_128bit] in L.
      cbn [attr_type]. rewrite Hb. unfold len in L. vm_compute (N.to_nat 18). lia.
    - apply N.eqb_neq in Eu. vm_compute (N.to_nat 4).
      destruct a as [s|u|s ch|s ch g k|s ch cci|nm|u v]; cbn [attr_type uuid_bytes length]; try reflexivity.
      cbn [attr_uuid] in Eu. destruct (c_uuid ch) as [v|bs]; [reflexivity|exfalso; apply Eu; reflexivity].
  Qed.

  Lemma fi_walk_in : forall T e only16 avail y, In y (C2.fi_walk T e only16 avail) -> In y T /\ C2.is16 (snd y) = only16.
  Proof.
    induction T as [|x t IH]; intros e only16 avail y H; cbn [C2.fi_walk] in H; [destruct H|].
    destruct ((fst x <=? e) && (C2.fsize only16 <=? avail)); [|destruct H].
    destruct (Bool.eqb only16 (C2.is16 (snd x))) eqn:Eq.
    - destruct H as [<-|H]; [split; [left; reflexivity|symmetry; apply Bool.eqb_prop; exact Eq]|].
      apply IH in H. destruct H. split; auto. right; auto.
    - apply IH in H. destruct H. split; auto. right; auto.
  Qed.

  Theorem fi_reported_handles a0 a1 x0 x1 b n r :
    a0 < 256 -> a1 < 256 -> x0 < 256 -> x1 < 256 ->
    1 <= w16 a0 a1 -> w16 a0 a1 <= w16 x0 x1 -> 23 <= n -> n <= len b ->
    handle_find_information c [4; a0; a1; x0; x1] b n = Some r ->
    check_discovery c [4; a0; a1; x0; x1] (takeN (snd r) (fst r)) = Ok.
  Proof.
    intros Ha0 Ha1 Hx0 Hx1 Hlo Hhi Hn1 Hb H.
    pose proof (C2.find_information_spec c a0 a1 x0 x1 b n r Hw Hn Ha0 Ha1 Hx0 Hx1 Hlo Hhi Hn1 Hb H) as S. cbv zeta in S.
    destruct r as [b' m]. pose proof (NF.find_information_len c _ _ _ _ _ H) as Lb. cbn [fst snd] in *.
    assert (L5 : 5 <= len b') by (rewrite Lb; clear -Hn1 Hb; lia).
    unfold C2.fi_response in S. cbv zeta in S. cbn [fst snd] in S.
    set (lo := w16 a0 a1) in *. set (hi := w16 x0 x1) in *.
    assert (NFd : forall (P : Prop), (m = 5 /\ C2.seg 0 5 b' = [1; 4; a0; a1; 10]) -> check_discovery c [4; a0; a1; x0; x1] (takeN m b') = Ok).
    { intros _ [-> S']. rewrite (C2.takeN_seg 5 b' L5), S'. reflexivity. }
    destruct (C2.from_handle lo (table c)) as [|x W0] eqn:EF; [apply (NFd True); exact S|].
    destruct (fst x <=? hi); [|apply (NFd True); exact S].
    destruct S as (S1 & S2 & S3). rewrite (C2.takeN_seg m b' S2), S3.
    set (only16 := C2.is16 (snd x)) in *. set (W := C2.fi_walk (x :: W0) hi only16 (n - 2)) in *.
    assert (HW : forall y, In y W -> In y (table c) /\ C2.is16 (snd y) = only16).
    { intros y Hy. apply fi_walk_in in Hy. destruct Hy as [Hy1 Hy2]. split; auto.
      assert (Hf : In y (C2.from_handle lo (table c))) by (rewrite EF; exact Hy1).
      unfold C2.from_handle in Hf. apply filter_In in Hf. tauto. }
    cbn [check_discovery].
    set (size := if (if only16 then 1 else 2) =? 1 then 4%nat else 18%nat).
    assert (Hsz : size = N.to_nat (C2.fsize only16)) by (unfold size, C2.fsize; destruct only16; reflexivity).
    rewrite (rh_chunks_flat_map _ C2.fenc size).
    - replace (forallb _ (map C2.fenc W)) with true; [reflexivity|]. symmetry. apply forallb_forall. intros e He.
      apply in_map_iff in He. destruct He as [y [<- Hy]]. destruct (HW y Hy) as [T1 T2].
      rewrite (fenc_length y T1), T2, <- Hsz, Nat.eqb_refl. cbn [andb].
      destruct (table_lookup c Hw Hn y T1) as (i & Hl & _).
      assert (U : fst y < 65536) by (apply (C2.assign_upper c _ Hw Hn); unfold table in T1; destruct y as [h a]; apply in_combine_l in T1; exact T1).
      unfold C2.fenc. rewrite (rh_w16_le16 (fst y) _ U), Hl.
      change (skipn 2 (le16 (fst y) ++ uuid_bytes (attr_type (snd y)))) with (uuid_bytes (attr_type (snd y))).
      rewrite attr_type_bytes_eq. apply listN_eqb_refl.
    - rewrite Hsz. unfold C2.fsize. destruct only16; vm_compute; lia.
    - intros y Hy. destruct (HW y Hy) as [T1 T2]. rewrite (fenc_length y T1), T2. symmetry. exact Hsz.
    - apply flat_map_length_ge. intros y Hy. destruct (HW y Hy) as [T1 T2]. rewrite (fenc_length y T1).
      unfold C2.fsize. destruct (C2.is16 (snd y)); vm_compute; lia.
  Qed.
End CfgM.

(* ------------------------------------------------------------------ through l2cap_input *)
Lemma att_input_handler c st cid pdu n st' rs k op :
  get_conn st cid = Some k -> rd pdu 0 = Some op -> att_input c st cid pdu n = Some (st', rs) ->
  let b := repeat fill_byte (N.to_nat n) in let os := N.min n (negotiated_mtu c k) in
  23 <= os /\ os <= len b /\
  (op = 4 -> exists b' m, handle_find_information c pdu b os = Some (b', m) /\ rs = takeN m b') /\
  (op = 6 -> exists b' m, handle_find_by_type_value c st cid pdu b os = Some (b', m) /\ rs = takeN m b') /\
  (op = 16 -> exists b' m, handle_read_by_group_type c pdu b os = Some (b', m) /\ rs = takeN m b').
Proof.
  intros G Hop. unfold att_input. rewrite G. cbv zeta.
  destruct (len pdu =? 0); [discriminate|].
  destruct (N.min n (negotiated_mtu c k) <? default_att_mtu) eqn:Eo; [discriminate|]. apply N.ltb_ge in Eo. unfold default_att_mtu in Eo.
  rewrite Hop. intros H.
  assert (Lb : len (repeat fill_byte (N.to_nat n)) = n) by (unfold len; rewrite repeat_length; lia).
  split; [exact Eo|]. split; [rewrite Lb; lia|].
  repeat split; intros ->; cbn [N.eqb Pos.eqb] in H.
  - destruct (handle_find_information c pdu _ _) as [[b' m]|]; [|discriminate H]. destruct (m <=? len b'); [|discriminate H].
    inversion H. eauto.
  - destruct (handle_find_by_type_value c st cid pdu _ _) as [[b' m]|]; [|discriminate H]. destruct (m <=? len b'); [|discriminate H].
    inversion H. eauto.
  - destruct (handle_read_by_group_type c pdu _ _) as [[b' m]|]; [|discriminate H]. destruct (m <=? len b'); [|discriminate H].
    inversion H. eauto.
Qed.

(* C04 (e), per request kind, for every state with a live connection (in particular every reachable one),
   every out_size / MTU, well formed requests (bytes < 256, 1 <= starting handle <= ending handle): *)
Theorem read_by_group_type_reports_assigned c st cid n st' rs k a0 a1 x0 x1 :
  wf c -> no_includes c -> get_conn st cid = Some k ->
  a0 < 256 -> a1 < 256 -> x0 < 256 -> x1 < 256 -> 1 <= w16 a0 a1 -> w16 a0 a1 <= w16 x0 x1 ->
  att_input c st cid [16; a0; a1; x0; x1; 0; 40] n = Some (st', rs) ->
  check_discovery c [16; a0; a1; x0; x1; 0; 40] rs = Ok.
Proof.
  intros Hw Hn G Ha0 Ha1 Hx0 Hx1 Hlo Hhi A.
  destruct (att_input_handler c st cid [16; a0; a1; x0; x1; 0; 40] n st' rs k 16 G eq_refl A) as (O1 & O2 & _ & _ & H16).
  destruct (H16 eq_refl) as (b' & m & Hh & ->).
  exact (rbg_reported_handles c Hw Hn a0 a1 x0 x1 _ _ (b', m) Ha0 Ha1 Hx0 Hx1 Hlo Hhi O1 O2 Hh).
Qed.

Theorem find_by_type_value_reports_assigned c st cid n st' rs k pdu lo hi value :
  wf c -> no_includes c -> get_conn st cid = Some k ->
  forallb byte_ok value = true -> rd pdu 0 = Some 6 -> (len pdu = 9 \/ len pdu = 23) ->
  rd16 pdu 1 = Some lo -> rd16 pdu 3 = Some hi -> rd16 pdu 5 = Some uuid_primary_service ->
  slice pdu 7 (len pdu) = Some value -> 1 <= lo -> lo <= hi ->
  att_input c st cid pdu n = Some (st', rs) -> check_discovery c pdu rs = Ok.
Proof.
  intros Hw Hn G Hv Hop Hl H1 H3 H5 Hs Hlo Hhi A.
  destruct (att_input_handler c st cid _ n st' rs k 6 G Hop A) as (O1 & O2 & _ & H6 & _).
  destruct (H6 eq_refl) as (b' & m & Hh & ->).
  exact (fbtv_reported_handles c Hw Hn st cid pdu lo hi value _ _ (b', m) Hv Hop Hl H1 H3 H5 Hs Hlo Hhi O1 O2 Hh).
Qed.

Theorem find_information_reports_assigned c st cid n st' rs k a0 a1 x0 x1 :
  wf c -> no_includes c -> NF.no_marker_uuids c -> get_conn st cid = Some k ->
  a0 < 256 -> a1 < 256 -> x0 < 256 -> x1 < 256 -> 1 <= w16 a0 a1 -> w16 a0 a1 <= w16 x0 x1 ->
  att_input c st cid [4; a0; a1; x0; x1] n = Some (st', rs) ->
  check_discovery c [4; a0; a1; x0; x1] rs = Ok.
Proof.
  intros Hw Hn Hm G Ha0 Ha1 Hx0 Hx1 Hlo Hhi A.
  destruct (att_input_handler c st cid [4; a0; a1; x0; x1] n st' rs k 4 G eq_refl A) as (O1 & O2 & H4 & _ & _).
  destruct (H4 eq_refl) as (b' & m & Hh & ->).
  exact (fi_reported_handles c Hw Hn Hm a0 a1 x0 x1 _ _ (b', m) Ha0 Ha1 Hx0 Hx1 Hlo Hhi O1 O2 Hh).
Qed.
