(* Reference semantics of GATT attribute values, link security and the prepared write queue, shared by
   the monitors of C05 (AttSrvSpecC05.v), C06 (AttSrvSpecC06.v) and C07 (AttSrvSpecC07.v).

   [astep] runs an ABSTRACT server beside an observed trace: a value store (one byte string per bound
   variable / handler buffer), the link security and ATT MTU of every connection, and the abstract write
   queue [option owner * list (handle, offset, bytes)]. It never looks at model state: its inputs are the
   configuration and the operations; its result is what the property expects of the observed output
   ([expect]). The monitors compare the observed output with the expectation and name the violated clause.

   The reference semantics is written from the property texts, not from the code:
     protection      innermost explicit choice of requires_encryption / no_encryption_required among
                     characteristic, service, server ([spec_protected]); may_require_encryption does not protect
     security        protected and link not encrypted: Insufficient Authentication (no key) / Encryption (key)
     permissions     [spec_readable] / [spec_writable] from no_read_access, no_write_access, const, fixed and
                     cstring values, missing read / write handlers
     read            the value bytes from the offset, at most (MTU - 1); Invalid Offset past the end
     write           exactly the written bytes at the offset, nothing else; Invalid Offset / Invalid Attribute
                     Value Length outside the value; a rejected write changes nothing
     prepare         accepted iff a write to the attribute is permitted on this connection ([aperm]), the queue
                     is free or owned by this client, and the element fits; never changes a value, never calls a handler
     execute         flag 1: the owner's queued writes in order, stopping at the first failing one; flag 0: discard;
                     the queue is released by execute, cancel and disconnect *)
From BT Require Import Base.ListX AttDb.AttDbModel NQueue.NQueueModel AttSrv.AttSrvModel.
Local Open Scope N_scope.

Inductive verdict := Ok | Bad (tag : nat).

(* ------------------------------------------------------------------ protection (C05) *)
Definition explicit_choice (o : enc_opts) : option bool :=
  if e_noreq o then Some false else if e_req o then Some true else None.

(* the innermost explicit choice; a contradictory pair on one level counts as no_encryption_required *)
Definition spec_protected (c : cfg) (s : service_decl) (ch : char_decl) : bool :=
  match explicit_choice (c_enc ch) with
  | Some b => b
  | None => match explicit_choice (s_enc s) with
            | Some b => b
            | None => match explicit_choice (enc c) with Some b => b | None => false end
            end
  end.

(* the error a protected attribute answers with on a link in state (enc, pair) *)
Definition sec_error (prot enc : bool) (pair : N) : option N :=
  if prot && negb enc then Some (if pair =? 0 then 5 else 15) else None.

(* ------------------------------------------------------------------ permissions (C06) *)
Definition spec_readable (ch : char_decl) : bool :=
  match c_value ch with
  | VBind _ _ | VFixed _ _ => negb (c_no_read ch)
  | VString _ => true
  | VHandler _ rd _ _ => rd && negb (c_no_read ch)
  end.

Definition spec_writable (ch : char_decl) : bool :=
  match c_value ch with
  | VBind _ is_const => negb is_const && negb (c_no_write ch)
  | VFixed _ _ | VString _ => false
  | VHandler _ _ wr _ => wr
  end.

(* a value behind read / write handlers without offset (free_read_handler / free_raw_write_handler) is not long *)
Definition not_long (ch : char_decl) (off : N) : bool :=
  match c_value ch with VHandler _ _ _ blob => negb blob && negb (off =? 0) | _ => false end.

Definition stored (ch : char_decl) : bool :=
  match c_value ch with VBind _ _ | VHandler _ _ _ _ => true | _ => false end.

(* the properties byte a declaration has to show *)
Definition spec_properties (ch : char_decl) : N :=
  (if spec_readable ch then 2 else 0)
  + (if spec_writable ch && negb (c_owwr ch) then 8 else 0)
  + (if c_owwr ch || (stored ch && c_wwr ch) then 4 else 0)
  + (if c_notify ch && negb (match c_value ch with VString _ => true | _ => false end) then 16 else 0)
  + (if c_indicate ch && negb (match c_value ch with VString _ => true | _ => false end) then 32 else 0).

(* ------------------------------------------------------------------ values *)
Inductive ares := AOk | AErr (code : N).

Definition sub (v : list N) (off n : N) : list N := firstn (N.to_nat n) (skipn (N.to_nat off) v).
Definition splice (v : list N) (off : N) (d : list N) : list N :=
  firstn (N.to_nat off) v ++ d ++ skipn (N.to_nat off + length d) v.

Definition spec_value (store : list (list N)) (ch : char_decl) (g : nat) : list N :=
  match c_value ch with
  | VBind _ _ | VHandler _ _ _ _ => nth g store []
  | VFixed size v => fixed_bytes size v          (* little endian *)
  | VString b => b
  end.

(* Read / Read Blob of a characteristic value on a link in state (enc, pair) *)
Definition aread_value (c : cfg) (store : list (list N)) (enc : bool) (pair : N) (s : service_decl) (ch : char_decl)
           (g : nat) (off maxlen : N) : ares * list N :=
  match sec_error (spec_protected c s ch) enc pair with
  | Some e => (AErr e, [])
  | None =>
      if negb (spec_readable ch) then (AErr 2, [])
      else if not_long ch off then (AErr 11, [])
      else let v := spec_value store ch g in
           if len v <? off then (AErr 7, []) else (AOk, sub v off (N.min maxlen (len v - off)))
  end.

(* is a write to the attribute permitted on a link in state (enc, pair)? (security, then permission) *)
Definition aperm (c : cfg) (enc : bool) (pair : N) (a : attr) : ares :=
  match a with
  | AValue s ch _ _ =>
      match sec_error (spec_protected c s ch) enc pair with
      | Some e => AErr e
      | None => if spec_writable ch then AOk else AErr 3
      end
  | ACccd s ch _ =>
      match sec_error (spec_protected c s ch) enc pair with Some e => AErr e | None => AOk end
  | _ => AErr 3
  end.

(* ------------------------------------------------------------------ abstract state *)
Record aconn := mkAC { ac_mtu : N; ac_enc : bool; ac_pair : N }.

(* why a value may have changed: the last write-like event that named the characteristic *)
Definition m_none := 0%nat.        (* initial value / set by the application *)
Definition m_written := 1%nat.     (* Write Request / Command accepted *)
Definition m_rejected := 2%nat.    (* write rejected (permission, offset, length) *)
Definition m_security := 3%nat.    (* write / prepare rejected for insufficient security *)
Definition m_prepared := 4%nat.    (* Prepare Write Request *)
Definition m_executed := 5%nat.    (* queued write applied by Execute( 1 ) *)
Definition m_cancelled := 6%nat.   (* queued write discarded: Execute( 0 ), disconnect *)

Record astate := mkAS {
  as_vals : list (list N);                 (* expected content of every bound variable / handler buffer *)
  as_wlog : list (N * N);                  (* expected write handler calls (all, empty) per characteristic *)
  as_marks : list nat;                     (* m_... per characteristic *)
  as_conns : list aconn;
  as_owner : option nat;                   (* the client that holds the write queue *)
  as_queue : list (N * N * list N) }.      (* its queued writes (handle, offset, bytes), oldest first *)

Definition ainit (c : cfg) : astate :=
  mkAS (init_vals (all_chars c) O) (map (fun _ => (0, 0)) (all_chars c)) (map (fun _ => m_none) (all_chars c))
       (repeat (mkAC default_att_mtu false 0) n_conns) None [].

Definition aconn_of (a : astate) (cid : nat) : aconn := nth cid (as_conns a) (mkAC default_att_mtu false 0).
Definition set_aconn (a : astate) (cid : nat) (k : aconn) : astate :=
  mkAS (as_vals a) (as_wlog a) (as_marks a) (upd (as_conns a) cid k) (as_owner a) (as_queue a).
Definition set_mark (a : astate) (g : nat) (m : nat) : astate :=
  mkAS (as_vals a) (as_wlog a) (upd (as_marks a) g m) (as_conns a) (as_owner a) (as_queue a).
Definition set_queue (a : astate) (o : option nat) (q : list (N * N * list N)) : astate :=
  mkAS (as_vals a) (as_wlog a) (as_marks a) (as_conns a) o q.

(* the attribute a handle names *)
Definition attr_of (c : cfg) (h : N) : option attr :=
  if h =? 0 then None
  else let i := index_by_handle c h in if i =? invalid_index then None else attribute_at c i.

(* the size of the response buffer the server may use: min( buffer, max_mtu, client MTU ) *)
Definition out_limit (c : cfg) (a : astate) (cid : nat) (n : N) : N :=
  N.min n (N.min (max_mtu c) (ac_mtu (aconn_of a cid))).

Definition err_rsp (op h code : N) : list N := [1; op; h mod 256; (h / 256) mod 256; code].

(* a write of [data] at [off] through attribute [a] on connection [cid]; [ok_mark] = m_written / m_executed *)
Definition awrite (c : cfg) (a : astate) (cid : nat) (at_ : attr) (off : N) (data : list N) (ok_mark : nat) : ares * astate :=
  let k := aconn_of a cid in
  match at_ with
  | AValue s ch g _ =>
      match aperm c (ac_enc k) (ac_pair k) at_ with
      | AErr e => (AErr e, set_mark a g (if (e =? 5) || (e =? 15) then m_security else m_rejected))
      | AOk =>
          if not_long ch off then (AErr 11, set_mark a g m_rejected)
          else
            let v := nth g (as_vals a) [] in
            (* the write reaches the handler (if there is one) *)
            let wl := match c_value ch with
                      | VHandler _ _ _ _ => upd (as_wlog a) g (let '(w, e) := nth g (as_wlog a) (0, 0) in (w + 1, if len data =? 0 then e + 1 else e))
                      | _ => as_wlog a
                      end in
            if len v <? off then (AErr 7, mkAS (as_vals a) wl (upd (as_marks a) g m_rejected) (as_conns a) (as_owner a) (as_queue a))
            else if len v <? off + len data then (AErr 13, mkAS (as_vals a) wl (upd (as_marks a) g m_rejected) (as_conns a) (as_owner a) (as_queue a))
            else (AOk, mkAS (upd (as_vals a) g (splice v off data)) wl (upd (as_marks a) g ok_mark) (as_conns a) (as_owner a) (as_queue a))
      end
  | ACccd s ch _ =>
      match aperm c (ac_enc k) (ac_pair k) at_ with
      | AErr e => (AErr e, a)
      | AOk => if 2 <? off then (AErr 7, a) else if 2 <? off + len data then (AErr 13, a) else (AOk, a)
      end
  | AUserDesc n => (if len n <? off then AErr 7 else AErr 3, a)
  | _ => (AErr 3, a)
  end.

(* Execute( 1 ): the queued writes in order, stopping at the first failing one *)
Fixpoint aexecute (c : cfg) (a : astate) (cid : nat) (q : list (N * N * list N)) : astate * option (N * N) :=
  match q with
  | [] => (a, None)
  | (h, off, data) :: t =>
      match attr_of c h with
      | None => (a, Some (h, 1))
      | Some at_ =>
          match awrite c a cid at_ off data m_executed with
          | (AOk, a') => aexecute c a' cid t
          | (AErr e, a') => (a', Some (h, e))
          end
      end
  end.

(* the characteristics named by queued writes get the mark [m] *)
Fixpoint mark_queue (c : cfg) (a : astate) (q : list (N * N * list N)) (m : nat) : astate :=
  match q with
  | [] => a
  | (h, _, _) :: t =>
      mark_queue c (match attr_of c h with Some (AValue _ _ g _) => set_mark a g m | _ => a end) t m
  end.

Definition arelease (c : cfg) (a : astate) (cid : nat) (cancel : bool) : astate :=
  match as_owner a with
  | Some o => if Nat.eqb o cid
              then set_queue (if cancel then mark_queue c a (as_queue a) m_cancelled else a) None []
              else a
  | None => a
  end.

(* the bytes a queue element occupies: handle, offset, data + 2 bytes of length *)
Definition elem_cost (data : list N) : N := len data + 4 + 2.
Definition queue_used (q : list (N * N * list N)) : N := sumN (fun e => elem_cost (snd e)) q.

(* ------------------------------------------------------------------ expectations *)
Definition k_read := 1%nat.            (* Read / Read Blob of a value or CCCD *)
Definition k_write := 2%nat.           (* Write Request *)
Definition k_prep_ok := 31%nat.        (* Prepare Write: to be accepted *)
Definition k_prep_denied := 32%nat.    (*                refused: a write would not be permitted *)
Definition k_prep_other := 33%nat.     (*                refused: another client holds the queue *)
Definition k_prep_full := 34%nat.      (*                refused: the element does not fit *)
Definition k_exec_cancel := 40%nat.    (* Execute Write, flag 0 *)
Definition k_exec := 41%nat.           (* Execute Write, flag 1 *)

Inductive expect :=
| XAny                                                  (* not judged here *)
| XResp (kind : nat) (exp : ares) (g : option nat) (rsp : list N)
      (* the response must be [rsp]; [exp] the reference result; [g] the characteristic whose value the request names *)
| XProps (p : N)                                        (* a Read Response of this declaration starts with properties [p] *)
| XVal (g : nat) (v : list N) (wl : option (N * N)).    (* the variable / handler buffer holds [v]; handler calls [wl] *)

Definition value_index (a : attr) : option nat := match a with AValue _ _ g _ => Some g | _ => None end.

Definition aread (c : cfg) (a : astate) (cid : nat) (op rsp h off n : N) (judge_decl : bool) : expect :=
  let k := aconn_of a cid in
  match attr_of c h with
  | Some (AValue s ch g _) =>
      let '(r, d) := aread_value c (as_vals a) (ac_enc k) (ac_pair k) s ch g off (out_limit c a cid n - 1) in
      XResp k_read r (Some g) (match r with AOk => rsp :: d | AErr e => err_rsp op h e end)
  | Some (ACccd s ch _) =>
      match sec_error (spec_protected c s ch) (ac_enc k) (ac_pair k) with
      | Some e => XResp k_read (AErr e) None (err_rsp op h e)
      | None => XAny
      end
  | Some (ACharDecl _ ch) => if judge_decl then XProps (spec_properties ch) else XAny
  | _ => XAny
  end.

(* Prepare Write Request  16 <handle> <offset> <data>  with a write queue of [qs] bytes; [pdu] is the whole request *)
Definition aprepare (c : cfg) (a : astate) (cid : nat) (qs h off : N) (data pdu : list N) (n : N) : astate * expect :=
  let k := aconn_of a cid in
  match attr_of c h with
  | None => (a, XAny)
  | Some at_ =>
      let g := value_index at_ in
      let mark m := match g with Some gi => set_mark a gi m | None => a end in
      match aperm c (ac_enc k) (ac_pair k) at_ with
      | AErr e => (mark (if (e =? 5) || (e =? 15) then m_security else m_rejected),
                   XResp k_prep_denied (AErr e) g (err_rsp 22 h e))
      | AOk =>
          let other := match as_owner a with Some o => negb (Nat.eqb o cid) | None => false end in
          if other then (mark m_prepared, XResp k_prep_other (AErr 9) g (err_rsp 22 h 9))
          else if qs - queue_used (as_queue a) <? elem_cost data
          then (mark m_prepared, XResp k_prep_full (AErr 9) g (err_rsp 22 h 9))
          else
            let a1 := mark m_prepared in
            (set_queue a1 (Some cid) (as_queue a1 ++ [(h, off, data)]),
             XResp k_prep_ok AOk g (23 :: sub (tl pdu) 0 (N.min (out_limit c a cid n) (len pdu) - 1)))
      end
  end.

(* Execute Write Request  18 <flag> *)
Definition aexec (c : cfg) (a : astate) (cid : nat) (flag : N) : astate * expect :=
  if negb (flag =? 0) && negb (flag =? 1) then (a, XAny)
  else
    let mine := match as_owner a with Some o => Nat.eqb o cid | None => false end in
    if (flag =? 1) && mine then
      let '(a1, failure) := aexecute c a cid (as_queue a) in
      (arelease c a1 cid false,
       XResp k_exec (match failure with Some (_, e) => AErr e | None => AOk end) None
             (match failure with Some (h, e) => err_rsp 24 h e | None => [25] end))
    else (arelease c a cid true, XResp (if flag =? 1 then k_exec else k_exec_cancel) AOk None [25]).

Definition astep_in (c : cfg) (a : astate) (cid : nat) (pdu : list N) (n : N) : astate * expect :=
  let k := aconn_of a cid in
  match pdu with
  | [] => (a, XAny)
  | op :: t =>
      if op =? 2 then                                                          (* Exchange MTU Request *)
        match t with
        | [lo; hi] => (if default_att_mtu <=? lo + 256 * hi then set_aconn a cid (mkAC (lo + 256 * hi) (ac_enc k) (ac_pair k)) else a, XAny)
        | _ => (a, XAny)
        end
      else if op =? 10 then                                                    (* Read Request *)
        match t with
        | [lo; hi] => (a, aread c a cid 10 11 (lo + 256 * hi) 0 n true)
        | _ => (a, XAny)
        end
      else if op =? 12 then                                                    (* Read Blob Request *)
        match t with
        | [lo; hi; olo; ohi] => (a, aread c a cid 12 13 (lo + 256 * hi) (olo + 256 * ohi) n false)
        | _ => (a, XAny)
        end
      else if op =? 18 then                                                    (* Write Request *)
        match t with
        | lo :: hi :: data =>
            let h := lo + 256 * hi in
            match attr_of c h with
            | None => (a, XAny)
            | Some at_ =>
                let '(r, a') := awrite c a cid at_ 0 data m_written in
                (a', XResp k_write r (value_index at_) (match r with AOk => [19] | AErr e => err_rsp 18 h e end))
            end
        | _ => (a, XAny)
        end
      else if op =? 82 then                                                    (* Write Command *)
        match t with
        | lo :: hi :: data =>
            match attr_of c (lo + 256 * hi) with
            | None => (a, XAny)
            | Some at_ => (snd (awrite c a cid at_ 0 data m_written), XAny)
            end
        | _ => (a, XAny)
        end
      else if op =? 22 then                                                    (* Prepare Write Request *)
        match t, wqueue c with
        | lo :: hi :: olo :: ohi :: data, Some qs => aprepare c a cid qs (lo + 256 * hi) (olo + 256 * ohi) data pdu n
        | _, _ => (a, XAny)
        end
      else if op =? 24 then                                                    (* Execute Write Request *)
        match t, wqueue c with
        | [flag], Some _ => aexec c a cid flag
        | _, _ => (a, XAny)
        end
      else (a, XAny)
  end.

Definition astep (c : cfg) (a : astate) (o : srv_op) : astate * expect :=
  match o with
  | OpIn cid pdu n =>
      if (len pdu =? 0) || (N.min n (N.min (max_mtu c) (ac_mtu (aconn_of a cid))) <? default_att_mtu) then (a, XAny)
      else astep_in c a cid pdu n
  | OpSec cid e p =>
      (set_aconn a cid (mkAC (ac_mtu (aconn_of a cid)) e (p mod 4)), XAny)
  | OpDisc cid => (set_aconn (arelease c a cid true) cid (mkAC default_att_mtu false 0), XAny)
  | OpVal g =>
      match has_var c g with
      | Some (_, h) => (a, XVal g (nth g (as_vals a) []) (if h then Some (nth g (as_wlog a) (0, 0)) else None))
      | None => (a, XAny)
      end
  | OpSetVal g data =>
      match has_var c g with
      | Some (true, _) =>
          let old := nth g (as_vals a) [] in
          (mkAS (upd (as_vals a) g (splice old 0 (firstn (length old) data))) (as_wlog a) (upd (as_marks a) g m_none)
                (as_conns a) (as_owner a) (as_queue a), XAny)
      | _ => (a, XAny)
      end
  | _ => (a, XAny)
  end.

(* ------------------------------------------------------------------ helpers for the monitors *)
Fixpoint list_eqb (x y : list N) : bool :=
  match x, y with
  | [], [] => true
  | p :: x', q :: y' => (p =? q) && list_eqb x' y'
  | _, _ => false
  end.

Definition is_sec_code (e : N) : bool := (e =? 5) || (e =? 15).
Definition is_sec (r : ares) : bool := match r with AErr e => is_sec_code e | AOk => false end.

(* the handle is the value or the CCCD of a protected characteristic *)
Definition protected_handle (c : cfg) (h : N) : bool :=
  match attr_of c h with
  | Some (AValue s ch _ _) | Some (ACccd s ch _) => spec_protected c s ch
  | _ => false
  end.

(* the handle is a characteristic value that must not be readable *)
Definition unreadable_handle (c : cfg) (h : N) : bool :=
  match attr_of c h with
  | Some (AValue _ ch _ _) => negb (spec_readable ch)
  | _ => false
  end.

(* the handles of the entries of a Read By Type Response  09 <len> ( handle value ){n} *)
Fixpoint entry_handles (fuel : nat) (l : nat) (bytes : list N) : list N :=
  match fuel, bytes with
  | S f, lo :: hi :: _ => (lo + 256 * hi) :: entry_handles f l (skipn l bytes)
  | _, _ => []
  end.

(* the handles of a Read Multiple Request *)
Fixpoint pair_handles (bytes : list N) : list N :=
  match bytes with
  | lo :: hi :: t => (lo + 256 * hi) :: pair_handles t
  | _ => []
  end.

(* requests whose response the monitors scan for handles (Read By Type, Read Multiple) *)
Definition scanned_in (o : srv_op) : bool :=
  match o with
  | OpIn _ (op :: _) _ => (op =? 8) || (op =? 14)
  | _ => false
  end.
Definition is_out (o : srv_op) : bool := match o with OpOut _ _ => true | _ => false end.

(* a monitor over the reference semantics: dead (None) after a FAULT - memory safety is C01's clause, and the
   implementation's process is gone (the remaining outputs are SKIPPED) *)
Definition mon := option astate.
Definition minit (c : cfg) : mon := Some (ainit c).
Definition mstep_with (judge : cfg -> astate -> srv_op -> expect -> srv_out -> verdict)
           (c : cfg) (m : mon) (o : srv_op) (r : srv_out) : verdict * mon :=
  match m, r with
  | Some a, OFault => (Ok, None)
  | Some a, _ => let '(a', x) := astep c a o in (judge c a o x r, Some a')
  | None, _ => (Ok, None)
  end.

Fixpoint monitor_from_with (judge : cfg -> astate -> srv_op -> expect -> srv_out -> verdict)
         (c : cfg) (m : mon) (pos : nat) (tr : list (srv_op * srv_out)) : option (nat * nat) :=
  match tr with
  | [] => None
  | (o, r) :: t =>
      match mstep_with judge c m o r with
      | (Ok, m') => monitor_from_with judge c m' (S pos) t
      | (Bad tag, _) => Some (pos, tag)
      end
  end.
