(* Executable model of the run-time ATT server: bluetoe::server<Options...>::l2cap_input and its 14
   handlers, l2cap_output, notify / indicate, client_disconnected; the attribute access functions of
   service.hpp / characteristic.hpp / characteristic_value.hpp; write_queue.hpp;
   client_characteristic_configuration.hpp. Definitions only, no proofs.

   Bounded-buffer discipline (DESIGN section 3): the request is a list read with [rd] (nth_error),
   the response is written with [put] into a buffer of the REAL capacity handed in by the caller
   (initial content 0xAA as in the harness); an access outside either, or a failing assert() of the
   code, is the outcome [None] = Fault. The code is transcribed AS IT IS; the known defects that are
   reproduced here are listed in docs/ATT_MODEL.md ("transcribed defects"). *)
From BT Require Import Base.ListX AttDb.AttDbModel NQueue.NQueueModel.
Local Open Scope N_scope.

Notation "'do' x <- a ; b" := (match a with Some x => b | None => None end)
  (at level 200, x pattern, a at level 100, b at level 200, right associativity).

(* ------------------------------------------------------------------ state *)
Record conn := mkConn {
  client_mtu : N;                 (* connection_data::client_mtu_ *)
  cccd : list N;                  (* client_characteristic_configurations<>::configs_ *)
  encrypted : bool;               (* link_state *)
  pairing : N;                    (* device_pairing_status 0..3, 0 = no_key *)
  nq : NQueueModel.state }.       (* notification_queue< numbers, ... > *)

Record srv_state := mkSt {
  vals : list (list N);           (* per characteristic (global number): bound variable / handler buffer *)
  hlogs : list (N * N * N);       (* per characteristic: handler calls (reads, writes, empty writes) *)
  wq_owner : option nat;          (* write_queue::current_client_ *)
  wq_elems : list (list N);       (* the queued elements; buffer_end_ = sum (length + 2) *)
  conns : list conn }.

Definition n_conns := 3%nat.
Definition init_byte (ci : nat) (j : nat) : N := (N.of_nat ci * 37 + N.of_nat j * 11 + 1) mod 256.
Definition init_val (ci : nat) (ch : char_decl) : list N :=
  match c_value ch with
  | VBind size _ | VHandler size _ _ _ => map (init_byte ci) (seq 0 (N.to_nat size))
  | _ => []
  end.
Fixpoint init_vals (l : list (service_decl * char_decl)) (ci : nat) : list (list N) :=
  match l with [] => [] | (_, ch) :: t => init_val ci ch :: init_vals t (S ci) end.

Definition init_conn (c : cfg) : conn :=
  mkConn default_att_mtu (repeat 0 (N.to_nat ((number_of_client_configs c * 2 + 7) / 8))) false 0
         (NQueueModel.init (map N.to_nat (priority_numbers c))).

Definition srv_init (c : cfg) : srv_state :=
  mkSt (init_vals (all_chars c) O) (map (fun _ => (0, 0, 0)) (all_chars c)) None [] (repeat (init_conn c) n_conns).

Definition get_conn (st : srv_state) (cid : nat) : option conn := nth_error (conns st) cid.
Definition set_conn (st : srv_state) (cid : nat) (k : conn) : srv_state :=
  mkSt (vals st) (hlogs st) (wq_owner st) (wq_elems st) (upd (conns st) cid k).
Definition set_vals (st : srv_state) (v : list (list N)) : srv_state :=
  mkSt v (hlogs st) (wq_owner st) (wq_elems st) (conns st).
Definition set_hlogs (st : srv_state) (h : list (N * N * N)) : srv_state :=
  mkSt (vals st) h (wq_owner st) (wq_elems st) (conns st).
Definition set_wq (st : srv_state) (o : option nat) (e : list (list N)) : srv_state :=
  mkSt (vals st) (hlogs st) o e (conns st).

(* connection_data::negotiated_mtu *)
Definition negotiated_mtu (c : cfg) (k : conn) : N := N.min (max_mtu c) (client_mtu k).

(* ------------------------------------------------------------------ buffers *)
Definition fill_byte := 170.     (* 0xAA: content of a fresh output buffer in the harness *)

Definition takeN {A} (n : N) (l : list A) : list A := firstn (N.to_nat n) l.
Definition dropN {A} (n : N) (l : list A) : list A := skipn (N.to_nat n) l.

(* write [bs] at [pos]; Fault if it does not fit into the real buffer *)
Definition put (b : list N) (pos : N) (bs : list N) : option (list N) :=
  if pos + len bs <=? len b then Some (takeN pos b ++ bs ++ dropN (pos + len bs) b) else None.

Definition rd (pdu : list N) (i : N) : option N :=
  if i <? len pdu then nth_error pdu (N.to_nat i) else None.
Definition rd16 (pdu : list N) (i : N) : option N :=
  do lo <- rd pdu i; do hi <- rd pdu (i + 1); Some (lo + 256 * hi).
(* the bytes [from, to) of the request *)
Definition slice (pdu : list N) (from to : N) : option (list N) :=
  if (from <=? to) && (to <=? len pdu) then Some (takeN (to - from) (dropN from pdu)) else None.

Definition le16 (x : N) : list N := [x mod 256; (x / 256) mod 256].

(* ------------------------------------------------------------------ client characteristic configuration *)
(* client_characteristic_configuration::flags( index ) *)
Definition cccd_get (d : list N) (i : N) : N :=
  N.land (N.shiftr (nth (N.to_nat (i / 4)) d 0) ((i mod 4) * 2)) 3.
(* flags( index, new_flags ) *)
Definition cccd_set (d : list N) (i v : N) : list N :=
  let sh := (i mod 4) * 2 in
  let old := nth (N.to_nat (i / 4)) d 0 in
  upd d (N.to_nat (i / 4)) ((N.lor (N.ldiff old (N.shiftl 3 sh)) (N.shiftl (N.land v 3) sh)) mod 256).

(* ------------------------------------------------------------------ attribute access *)
Inductive acc_res := Success | Err (code : N) | ValueEqual.

Definition err_invalid_handle := 1.
Definition err_read_not_permitted := 2.
Definition err_write_not_permitted := 3.
Definition err_invalid_pdu := 4.
Definition err_insufficient_authentication := 5.
Definition err_request_not_supported := 6.
Definition err_invalid_offset := 7.
Definition err_prepare_queue_full := 9.
Definition err_attribute_not_found := 10.
Definition err_attribute_not_long := 11.
Definition err_invalid_attribute_value_length := 13.
Definition err_insufficient_encryption := 15.
Definition err_unsupported_group_type := 16.

(* encryption_requirements< RequiresEncryption >::check *)
Definition security_check (req : bool) (enc : bool) (pair : N) : acc_res :=
  if negb req then Success
  else if enc then Success
  else if pair =? 0 then Err err_insufficient_authentication else Err err_insufficient_encryption.

(* attribute_value_read_access (read part): data copied to args.buffer *)
Definition mem_read (mem : list N) (off maxlen : N) : acc_res * list N :=
  if len mem <? off then (Err err_invalid_offset, [])
  else (Success, takeN (N.min maxlen (len mem - off)) (dropN off mem)).

Definition fixed_bytes (size value : N) : list N :=
  map (fun i => (value / 2 ^ (8 * N.of_nat i)) mod 256) (seq 0 (N.to_nat size)).

Definition get_val (st : srv_state) (gci : nat) : list N := nth gci (vals st) [].
Definition log_call (st : srv_state) (gci : nat) (f : N * N * N -> N * N * N) : srv_state :=
  set_hlogs st (upd (hlogs st) gci (f (nth gci (hlogs st) (0, 0, 0)))).

(* harness handler_write / bind write: [data] at [off] into a value of fixed size *)
Definition mem_write (mem : list N) (off : N) (data : list N) : acc_res * list N :=
  if len mem <? off then (Err err_invalid_offset, mem)
  else if len mem <? len data + off then (Err err_invalid_attribute_value_length, mem)
  else (Success, takeN off mem ++ data ++ dropN (off + len data) mem).

(* value_impl::characteristic_value_access, read. [sec] = (encrypted, pairing status) *)
Definition value_read (c : cfg) (st : srv_state) (sec : bool * N) (s : service_decl) (ch : char_decl)
           (gci : nat) (off maxlen : N) : srv_state * acc_res * list N :=
  match security_check (char_requires_encryption c s ch) (fst sec) (snd sec) with
  | Success =>
      match c_value ch with
      | VBind _ _ =>
          if c_no_read ch then (st, Err err_read_not_permitted, [])
          else let '(r, d) := mem_read (get_val st gci) off maxlen in (st, r, d)
      | VFixed size v =>
          if c_no_read ch then (st, Err err_read_not_permitted, [])
          else let '(r, d) := mem_read (fixed_bytes size v) off maxlen in (st, r, d)
      | VString b => let '(r, d) := mem_read b off maxlen in (st, r, d)
      | VHandler _ hrd _ blob =>
          if negb hrd then (st, Err err_read_not_permitted, [])      (* invoke_read_handler< no_such_type > *)
          else if negb blob && negb (off =? 0) then (st, Err err_attribute_not_long, [])
          else let st' := log_call st gci (fun '(r, w, e) => (r + 1, w, e)) in
               let '(r, d) := mem_read (get_val st gci) off maxlen in (st', r, d)
      end
  | r => (st, r, [])
  end.

(* characteristic_value_access, write; [data = None] is the probe of check_write (empty, offset 0) *)
Definition value_write (c : cfg) (st : srv_state) (sec : bool * N) (s : service_decl) (ch : char_decl)
           (gci : nat) (off : N) (data : list N) : srv_state * acc_res :=
  match security_check (char_requires_encryption c s ch) (fst sec) (snd sec) with
  | Success =>
      match c_value ch with
      | VBind _ k =>
          if k || c_no_write ch then (st, Err err_write_not_permitted)
          else let '(r, m) := mem_write (get_val st gci) off data in
               (set_vals st (upd (vals st) gci m), r)
      | VFixed _ _ => (st, Err err_write_not_permitted)
      | VString _ => (st, Err err_write_not_permitted)
      | VHandler _ _ hwr blob =>
          if negb hwr then (st, Err err_write_not_permitted)      (* invoke_write_handler< no_such_type > *)
          else if negb blob && negb (off =? 0) then (st, Err err_attribute_not_long)
          else let st' := log_call st gci (fun '(r, w, e) => (r, w + 1, if len data =? 0 then e + 1 else e)) in
               let '(r, m) := mem_write (get_val st gci) off data in
               (set_vals st' (upd (vals st') gci m), r)
      end
  | r => (st, r)
  end.

(* any other access type (compare_value, compare_128bit_uuid) on a characteristic value *)
Definition value_other (c : cfg) (sec : bool * N) (s : service_decl) (ch : char_decl) : acc_res :=
  match security_check (char_requires_encryption c s ch) (fst sec) (snd sec) with
  | Success =>
      match c_value ch with
      | VFixed _ _ => Err err_write_not_permitted
      | VHandler _ _ _ _ => Err err_request_not_supported
      | _ => Err err_write_not_permitted
      end
  | r => r
  end.

(* char_declaration_access: properties, value handle, uuid. The value handle is
   handle_by_index( attribute_index + 1 ); assert( != invalid_attribute_handle ) *)
Definition char_decl_value (c : cfg) (ch : char_decl) (index : N) : option (list N) :=
  let vh := handle_by_index c (index + 1) in
  if vh =? invalid_handle then None
  else Some (char_properties ch :: le16 vh ++ uuid_bytes (c_uuid ch)).

(* attribute.access( read ): Some (srv_state, result, bytes written to the buffer) | None = Fault.
   [index] is the attribute index handed to access(). *)
Definition access_read (c : cfg) (st : srv_state) (cid : nat) (a : attr) (index off maxlen : N)
  : option (srv_state * acc_res * list N) :=
  do k <- get_conn st cid;
  let sec := (encrypted k, pairing k) in
  match a with
  | AService s =>
      let '(r, d) := mem_read (uuid_bytes (s_uuid s)) off maxlen in Some (st, r, d)
  | AInclude u =>
      let '(r, d) := mem_read (include_value c u) off maxlen in Some (st, r, d)
  | ACharDecl _ ch =>
      do v <- char_decl_value c ch index;
      let '(r, d) := mem_read v off maxlen in Some (st, r, d)
  | AValue s ch gci _ => Some (value_read c st sec s ch gci off maxlen)
  | ACccd s ch cci =>
      match security_check (char_requires_encryption c s ch) (fst sec) (snd sec) with
      | Success =>
          let '(r, d) := mem_read [cccd_get (cccd k) (cccd_position c cci); 0] off maxlen in Some (st, r, d)
      | r => Some (st, r, [])
      end
  | AUserDesc n => let '(r, d) := mem_read n off maxlen in Some (st, r, d)
  | ADesc _ v => let '(r, d) := mem_read v off maxlen in Some (st, r, d)
  end.

(* the CCCD attribute, write of [data] at [off] with the connection's configuration *)
Definition cccd_write (c : cfg) (st : srv_state) (cid : nat) (k : conn) (cci off : N) (data : list N) : srv_state * acc_res :=
  if 2 <? off then (st, Err err_invalid_offset)
  else if 2 <? len data + off then (st, Err err_invalid_attribute_value_length)
  else if off =? 0 then
    let pos := cccd_position c cci in
    let old := cccd_get (cccd k) pos in
    let ser := takeN 2 (data ++ dropN (len data) [old; 0]) in
    let v := nth 0 ser 0 + 256 * nth 1 ser 0 in
    (set_conn st cid (mkConn (client_mtu k) (cccd_set (cccd k) pos v) (encrypted k) (pairing k) (nq k)), Success)
  else (st, Success).

(* attribute.access( write ) with the connection's configuration and security attributes *)
Definition access_write (c : cfg) (st : srv_state) (cid : nat) (a : attr) (off : N) (data : list N)
  : option (srv_state * acc_res) :=
  do k <- get_conn st cid;
  let sec := (encrypted k, pairing k) in
  match a with
  | AService _ | AInclude _ | ACharDecl _ _ | ADesc _ _ => Some (st, Err err_write_not_permitted)
  | AUserDesc n => Some (st, if len n <? off then Err err_invalid_offset else Err err_write_not_permitted)
  | AValue s ch gci _ => Some (value_write c st sec s ch gci off data)
  | ACccd s ch cci =>
      match security_check (char_requires_encryption c s ch) (fst sec) (snd sec) with
      | Success => Some (cccd_write c st cid k cci off data)
      | r => Some (st, r)
      end
  end.

(* attribute_access_arguments::check_write( cc, cs, server ): an EMPTY write at offset 0 with the
   connection's client configuration and security attributes (fix/C07-check-write-connection; before,
   default security attributes and a null configuration: DESIGN 7 item 7). A write handler is still
   called with the empty write (known finding C07). *)
Definition access_check_write (c : cfg) (st : srv_state) (cid : nat) (a : attr) : option (srv_state * acc_res) :=
  access_write c st cid a 0 [].

(* attribute.access( compare_value ): only the service declaration ever answers value_equal *)
Definition access_compare_value (c : cfg) (st : srv_state) (cid : nat) (a : attr) (data : list N) : acc_res :=
  match a with
  | AService s => if bytes_eqb (uuid_bytes (s_uuid s)) data then ValueEqual else Err err_write_not_permitted
  | AInclude u => if bytes_eqb (include_value c u) data then ValueEqual else Err err_read_not_permitted
  | AValue s ch _ _ => value_other c (false, 0) s ch
  | ACccd s ch _ =>
      match security_check (char_requires_encryption c s ch) false 0 with
      | Success => Err err_write_not_permitted
      | r => r
      end
  | AUserDesc n => Err err_write_not_permitted
  | _ => Err err_write_not_permitted
  end.

(* access_result_to_att_code *)
Definition att_code (r : acc_res) (default : N) : N :=
  match r with Err code => code | _ => default end.

(* ------------------------------------------------------------------ responses *)
(* a handler result: output buffer and out_size *)
Definition resp := (list N * N)%type.

(* error_response *)
Definition error_response (opcode code handle : N) (b : list N) (out_size : N) : option resp :=
  if 5 <=? out_size then
    do b' <- put b 0 (1 :: opcode :: le16 handle ++ [code]); Some (b', 5)
  else Some (b, 0).

Inductive checked (A : Type) := Failed (r : resp) | Passed (a : A).
Arguments Failed {A} r.
Arguments Passed {A} a.

(* check_size_and_handle_range< A, B > *)
Definition check_size_and_handle_range (c : cfg) (pdu b : list N) (out_size sa sb : N)
  : option (checked (N * N)) :=
  do opcode <- rd pdu 0;
  if negb (len pdu =? sa) && negb (len pdu =? sb) then
    do r <- error_response opcode err_invalid_pdu 0 b out_size; Some (Failed r)
  else
    do sh <- rd16 pdu 1; do eh <- rd16 pdu 3;
    if (sh =? 0) || (eh <? sh) then
      do r <- error_response opcode err_invalid_handle sh b out_size; Some (Failed r)
    else if first_index_by_handle c sh =? invalid_index then
      do r <- error_response opcode err_attribute_not_found sh b out_size; Some (Failed r)
    else Some (Passed (sh, eh)).

(* check_handle *)
Definition check_handle (c : cfg) (pdu b : list N) (out_size : N) : option (checked (N * N)) :=
  do opcode <- rd pdu 0;
  do h <- rd16 pdu 1;
  if h =? 0 then do r <- error_response opcode err_invalid_handle h b out_size; Some (Failed r)
  else
    let i := index_by_handle c h in
    if i =? invalid_index then do r <- error_response opcode err_invalid_handle h b out_size; Some (Failed r)
    else Some (Passed (h, i)).

(* check_size_and_handle< A > *)
Definition check_size_and_handle (c : cfg) (pdu b : list N) (out_size sa : N) : option (checked (N * N)) :=
  do opcode <- rd pdu 0;
  if negb (len pdu =? sa) then do r <- error_response opcode err_invalid_pdu 0 b out_size; Some (Failed r)
  else check_handle c pdu b out_size.

(* std::size_t decrement with wrap around *)
Definition dec_index (i : N) : N := if i =? 0 then invalid_index else i - 1.

(* "if the ending handle points not on an existing attribute, the search will end at the next, lower handle" *)
Definition ending_index_of (c : cfg) (eh : N) : N :=
  let e := first_index_by_handle c eh in
  if negb (e =? invalid_index) && negb (handle_by_index c e =? eh) then dec_index e else e.

(* ------------------------------------------------------------------ Exchange MTU *)
Definition handle_exchange_mtu (c : cfg) (st : srv_state) (cid : nat) (pdu b : list N) (out_size : N)
  : option (srv_state * resp) :=
  do opcode <- rd pdu 0;
  if negb (len pdu =? 3) then do r <- error_response opcode err_invalid_pdu 0 b out_size; Some (st, r)
  else
    do mtu <- rd16 pdu 1;
    if mtu <? default_att_mtu then do r <- error_response opcode err_invalid_pdu 0 b out_size; Some (st, r)
    else
      do k <- get_conn st cid;
      let st' := set_conn st cid (mkConn mtu (cccd k) (encrypted k) (pairing k) (nq k)) in
      do b' <- put b 0 (3 :: le16 (max_mtu c)); Some (st', (b', 3)).

(* ------------------------------------------------------------------ Find Information *)
(* write_128bit_uuid( out, attribute_at( start - 1 ) ): the uuid of the characteristic declaration
   in front of the value attribute; assert( uuid == characteristic ), assert( size == 19 ) *)
Definition uuid128_of_decl (c : cfg) (index : N) : option (list N) :=
  if index =? 0 then None else
  do a <- attribute_at c (index - 1);
  match a with
  | ACharDecl _ ch =>
      do v <- char_decl_value c ch 1;        (* access( read, 1 ): attribute index 1 *)
      if len v =? 19 then Some (dropN 3 v) else None
  | _ => None
  end.

(* collect_handle_uuid_tuples; [e] is the ending HANDLE (fix/C02-C03-discovery). Attributes of the other
   uuid format are skipped and the scan goes on: DESIGN 7 item 3 *)
Fixpoint collect_handle_uuid_tuples (fuel : nat) (c : cfg) (start e : N) (only16 : bool) (b : list N) (out out_end : N)
  : option (list N * N) :=
  match fuel with
  | O => Some (b, out)
  | S f =>
      let size_per_tuple := if only16 then 4 else 18 in
      if (start <? number_of_attributes c) && (handle_by_index c start <=? e)
         && (size_per_tuple <=? out_end - out) then
        do a <- attribute_at c start;
        let is16 := negb (attr_uuid a =? internal_128bit_uuid) in
        if Bool.eqb only16 is16 then
          do b1 <- put b out (le16 (handle_by_index c start));
          do u <- (if is16 then Some (le16 (attr_uuid a)) else uuid128_of_decl c start);
          do b2 <- put b1 (out + 2) u;
          collect_handle_uuid_tuples f c (start + 1) e only16 b2 (out + size_per_tuple) out_end
        else collect_handle_uuid_tuples f c (start + 1) e only16 b out out_end
      else Some (b, out)
  end.

Definition handle_find_information (c : cfg) (pdu b : list N) (out_size : N) : option resp :=
  do chk <- check_size_and_handle_range c pdu b out_size 5 5;
  match chk with
  | Failed r => Some r
  | Passed (sh, eh) =>
      let start_index := first_index_by_handle c sh in
      do a <- attribute_at c start_index;
      let only16 := negb (attr_uuid a =? internal_128bit_uuid) in
      if eh <? handle_by_index c start_index then          (* the range lies within a gap *)
        do opcode <- rd pdu 0; error_response opcode err_attribute_not_found sh b out_size
      else
      do b1 <- put b 0 [5];
      do bp <- (if negb (1 =? out_size) then do b2 <- put b1 1 [if only16 then 1 else 2]; Some (b2, 2)
                else Some (b1, 1));
      let '(b2, p) := bp in
      do r <- collect_handle_uuid_tuples (S (N.to_nat (number_of_attributes c))) c start_index eh only16 b2 p out_size;
      Some r
  end.

(* ------------------------------------------------------------------ Find By Type Value *)
(* services_by_group< collect_find_by_type_groups, value_filter >::each over the services; [ei] is the
   ending HANDLE; only <<Primary Service>> declarations are considered (fix/C02-C03-discovery) *)
Fixpoint services_by_group (c : cfg) (st : srv_state) (cid : nat) (ss : list service_decl) (index si ei : N)
         (value : list N) (b : list N) (cur e : N) (found : bool) : option (list N * N * bool) :=
  match ss with
  | [] => Some (b, cur, found)
  | s :: t =>
      let next := index + svc_nattrs s in
      if (negb (si =? invalid_index) && (si <=? index)) && (handle_by_index c index <=? ei) then
        do a <- attribute_at c index;
        if negb (attr_uuid a =? uuid_primary_service) then services_by_group c st cid t next si ei value b cur e found else
        match access_compare_value c st cid a value with
        | ValueEqual =>
            (* collect_find_by_type_groups::operator() *)
            if 4 <=? e - cur then
              do b1 <- put b cur (le16 (handle_by_index c index) ++ le16 (handle_by_index c (index + svc_nattrs s - 1)));
              services_by_group c st cid t next si ei value b1 (cur + 4) e true
            else services_by_group c st cid t next si ei value b cur e found
        | _ => services_by_group c st cid t next si ei value b cur e found
        end
      else services_by_group c st cid t next si ei value b cur e found
  end.

Definition handle_find_by_type_value (c : cfg) (st : srv_state) (cid : nat) (pdu b : list N) (out_size : N) : option resp :=
  do chk <- check_size_and_handle_range c pdu b out_size 9 23;
  match chk with
  | Failed r => Some r
  | Passed (sh, eh) =>
      do opcode <- rd pdu 0;
      do ty <- rd16 pdu 5;
      if negb (ty =? uuid_primary_service) then error_response opcode err_unsupported_group_type sh b out_size
      else
        do value <- slice pdu 7 (len pdu);
        do r <- services_by_group c st cid (services c) 0 (first_index_by_handle c sh) eh value b 1 out_size false;
        let '(b1, cur, found) := r in
        if found then
          do b2 <- put b1 0 [7];
          Some (b2, ((cur - 1) mod 256) + 1)       (* collect_find_by_type_groups::size() is std::uint8_t *)
        else error_response opcode err_attribute_not_found sh b1 out_size
  end.

(* ------------------------------------------------------------------ Read / Read Blob *)
Definition handle_read_common (c : cfg) (st : srv_state) (cid : nat) (pdu b : list N) (out_size : N)
           (rsp h index off : N) : option (srv_state * resp) :=
  do opcode <- rd pdu 0;
  do a <- attribute_at c index;
  do r <- access_read c st cid a index off (out_size - 1);
  let '(st', rc, d) := r in
  match rc with
  | Success => do b1 <- put b 1 d; do b2 <- put b1 0 [rsp]; Some (st', (b2, 1 + len d))
  | _ => do e <- error_response opcode (att_code rc err_read_not_permitted) h b out_size; Some (st', e)
  end.

Definition handle_read (c : cfg) (st : srv_state) (cid : nat) (pdu b : list N) (out_size : N) : option (srv_state * resp) :=
  do chk <- check_size_and_handle c pdu b out_size 3;
  match chk with
  | Failed r => Some (st, r)
  | Passed (h, i) => handle_read_common c st cid pdu b out_size 11 h i 0
  end.

Definition handle_read_blob (c : cfg) (st : srv_state) (cid : nat) (pdu b : list N) (out_size : N) : option (srv_state * resp) :=
  do chk <- check_size_and_handle c pdu b out_size 5;
  match chk with
  | Failed r => Some (st, r)
  | Passed (h, i) => do off <- rd16 pdu 3; handle_read_common c st cid pdu b out_size 13 h i off
  end.

(* ------------------------------------------------------------------ Read By Type *)
(* uuid_filter *)
Definition base_uuid_prefix : list N := [251; 52; 155; 95; 128; 0; 0; 128; 0; 16; 0; 0].

Inductive ufilter := F16 (u : N) | F128 (bytes : list N).
(* uuid_filter( input + 5, in_size == 5 + 16 ) *)
Definition make_uuid_filter (pdu : list N) (is128 : bool) : option ufilter :=
  if is128 then
    do bytes <- slice pdu 5 21;
    if bytes_eqb (takeN 12 bytes) base_uuid_prefix && (nth 14 bytes 1 =? 0) && (nth 15 bytes 1 =? 0)
    then do u <- rd16 pdu 17; Some (F16 u)
    else Some (F128 bytes)
  else do u <- rd16 pdu 5; Some (F16 u).
(* operator(): a 128 bit filter compares through access( compare_128bit_uuid ), which the value attribute
   of a characteristic with a 128 bit uuid answers; the internal marker 0x0001 is no 16 bit type
   (fix/C02-C03-discovery) *)
Definition uuid_filter_match (f : ufilter) (a : attr) : bool :=
  match f with
  | F16 u => (u =? attr_uuid a) && negb (attr_uuid a =? internal_128bit_uuid)
  | F128 bytes =>
      match a with
      | AValue _ ch _ _ => match c_uuid ch with U128 b => bytes_eqb b bytes | U16 _ => false end
      | _ => false
      end
  end.

Record collect := mkCol { co_buf : list N; co_cur : N; co_size : N; co_first : bool }.

(* collect_attributes::operator(); begin_ = 2, end_ = out_size. A length-mismatching attribute is
   skipped and the scan goes on: DESIGN 7 item 2 *)
Definition collect_attribute (c : cfg) (st : srv_state) (cid : nat) (k : collect) (e index : N) (a : attr)
  : option (srv_state * collect) :=
  if 2 <=? e - co_cur k then
    let max_data := N.min (e - co_cur k) 255 - 2 in
    do r <- access_read c st cid a index 0 max_data;
    let '(st', rc, d) := r in
    match rc with
    | Success =>
        if 253 <? len d then None else               (* assert( read.buffer_size <= maximum_pdu_size ) *)
        do b1 <- put (co_buf k) (co_cur k + 2) d;
        let size := if co_first k then (len d + 2) mod 256 else co_size k in
        if len d + 2 =? size then
          do b2 <- put b1 (co_cur k) (le16 (handle_by_index c index));
          Some (st', mkCol b2 (co_cur k + 2 + (len d mod 256)) size false)
        else Some (st', mkCol b1 (co_cur k) size false)
    | _ => Some (st', k)
    end
  else Some (st, k).

(* all_attributes: for ( index = first_index_by_handle( starting_handle );
     index <= last_index && handle_by_index( index ) <= ending_handle; ++index ); [eh] = ending handle *)
Fixpoint all_attributes (fuel : nat) (c : cfg) (st : srv_state) (cid : nat) (f : ufilter) (k : collect) (e index last eh : N)
  : option (srv_state * collect) :=
  match fuel with
  | O => Some (st, k)
  | S n =>
      if (index <=? last) && (handle_by_index c index <=? eh) then
        do a <- attribute_at c index;
        if uuid_filter_match f a then
          do r <- collect_attribute c st cid k e index a;
          let '(st', k') := r in all_attributes n c st' cid f k' e (index + 1) last eh
        else all_attributes n c st cid f k e (index + 1) last eh
      else Some (st, k)
  end.

(* last_handle_index: the attribute at or AFTER the ending handle *)
Definition last_handle_index (c : cfg) (eh : N) : N :=
  let m := first_index_by_handle c eh in
  if m =? invalid_index then number_of_attributes c - 1 else m.

Definition handle_read_by_type (c : cfg) (st : srv_state) (cid : nat) (pdu b : list N) (out_size : N) : option (srv_state * resp) :=
  do chk <- check_size_and_handle_range c pdu b out_size 7 21;
  match chk with
  | Failed r => Some (st, r)
  | Passed (sh, eh) =>
      do opcode <- rd pdu 0;
      do f <- make_uuid_filter pdu (len pdu =? 21);
      do r <- all_attributes (S (N.to_nat (number_of_attributes c))) c st cid f (mkCol b 2 0 true) out_size
                (first_index_by_handle c sh) (last_handle_index c eh) eh;
      let '(st', k) := r in
      if negb (co_cur k =? 2) then
        do b1 <- put (co_buf k) 0 [9; co_size k];
        Some (st', (b1, 2 + ((co_cur k - 2) mod 256)))      (* collect_attributes::size() is std::uint8_t *)
      else do e <- error_response opcode err_attribute_not_found sh (co_buf k) out_size; Some (st', e)
  end.

(* ------------------------------------------------------------------ Read By Group Type *)
Record pcollect := mkPC { pc_buf : list N; pc_out : N; pc_index : N; pc_stopped : bool; pc_first : bool; pc_is128 : bool }.

(* service<>::read_primary_service_response *)
Definition read_primary_service_response (c : cfg) (s : service_decl) (b : list N) (out e index : N) (is128 : bool)
  : option (list N * N) :=
  let data_size := if is128 then 20 else 6 in
  if Bool.eqb is128 (is_128bit (s_uuid s)) && (data_size <=? e - out) then
    do b1 <- put b out (le16 (handle_by_index c index) ++ le16 (handle_by_index c (index + svc_nattrs s - 1)));
    let '(_, d) := mem_read (uuid_bytes (s_uuid s)) 0 (e - (out + 4)) in
    do b2 <- put b1 (out + 4) d;
    Some (b2, out + 4 + len d)
  else Some (b, out).

(* collect_primary_services::each; [si] = first_index_by_handle( starting_handle ), [eh] the ending
   HANDLE, compared with the handle of the service declaration; only <<Primary Service>> declarations
   are considered (fix/C02-C03-discovery) *)
Fixpoint collect_primary_services (c : cfg) (ss : list service_decl) (k : pcollect) (si eh e : N) : option pcollect :=
  match ss with
  | [] => Some k
  | s :: t =>
      let next := pc_index k + svc_nattrs s in
      if negb (pc_stopped k) && negb (s_secondary s) && (negb (si =? invalid_index) && (si <=? pc_index k))
         && (handle_by_index c (pc_index k) <=? eh) then
        let s128 := is_128bit (s_uuid s) in
        (* first_: attribute_data_size_ (= output[ 1 ]) is written *)
        do b1 <- (if pc_first k then put (pc_buf k) 1 [if s128 then 20 else 6] else Some (pc_buf k));
        let is128 := if pc_first k then s128 else pc_is128 k in
        let stopped := if pc_first k then false else negb (Bool.eqb (pc_is128 k) s128) in
        do r <- read_primary_service_response c s b1 (pc_out k) e (pc_index k) is128;
        let '(b2, out) := r in
        collect_primary_services c t (mkPC b2 out next stopped false is128) si eh e
      else collect_primary_services c t (mkPC (pc_buf k) (pc_out k) next (pc_stopped k) (pc_first k) (pc_is128 k)) si eh e
  end.

Definition handle_read_by_group_type (c : cfg) (pdu b : list N) (out_size : N) : option resp :=
  do chk <- check_size_and_handle_range c pdu b out_size 7 21;
  match chk with
  | Failed r => Some r
  | Passed (sh, eh) =>
      do opcode <- rd pdu 0;
      do ty <- rd16 pdu 5;
      if (len pdu =? 21) || negb (ty =? uuid_primary_service) then
        error_response opcode err_unsupported_group_type sh b out_size
      else
        do b1 <- put b 0 [17];
        do k <- collect_primary_services c (services c)
                  (mkPC b1 2 (first_index_by_handle c 1) false true true) (first_index_by_handle c sh) eh out_size;
        if pc_out k =? 2 then error_response opcode err_attribute_not_found sh (pc_buf k) out_size
        else Some (pc_buf k, pc_out k)
  end.

(* ------------------------------------------------------------------ Read Multiple *)
Fixpoint read_multiple_loop (c : cfg) (st : srv_state) (cid : nat) (opcode : N) (hs : list N) (b0 b : list N) (p out_size : N)
  : option (srv_state * resp) :=
  match hs with
  | lo :: hi :: t =>
      let h := lo + 256 * hi in
      if h =? 0 then do e <- error_response opcode err_invalid_handle h b out_size; Some (st, e)
      else
        let i := index_by_handle c h in
        if i =? invalid_index then do e <- error_response opcode err_invalid_handle h b out_size; Some (st, e)
        else
          do a <- attribute_at c i;
          do r <- access_read c st cid a i 0 (out_size - p);
          let '(st', rc, d) := r in
          match rc with
          | Success =>
              do b1 <- put b p d;
              if out_size <? p + len d then None          (* assert( out_ptr <= end_output ) *)
              else read_multiple_loop c st' cid opcode t b0 b1 (p + len d) out_size
          | _ => do e <- error_response opcode (att_code rc err_read_not_permitted) h b out_size; Some (st', e)
          end
  | _ => Some (st, (b, p))
  end.

Definition handle_read_multiple (c : cfg) (st : srv_state) (cid : nat) (pdu b : list N) (out_size : N) : option (srv_state * resp) :=
  do opcode <- rd pdu 0;
  if (len pdu <? 5) || (len pdu mod 2 =? 0) then
    do e <- error_response opcode err_invalid_pdu 0 b out_size; Some (st, e)
  else
    do b1 <- put b 0 [15];
    do hs <- slice pdu 1 (len pdu);
    read_multiple_loop c st cid opcode hs b b1 1 out_size.

(* ------------------------------------------------------------------ Write Request / Command *)
Definition handle_write_request (c : cfg) (st : srv_state) (cid : nat) (pdu b : list N) (out_size : N) : option (srv_state * resp) :=
  do opcode <- rd pdu 0;
  if len pdu <? 3 then do e <- error_response opcode err_invalid_pdu 0 b out_size; Some (st, e)
  else
    do chk <- check_handle c pdu b out_size;
    match chk with
    | Failed r => Some (st, r)
    | Passed (h, i) =>
        do a <- attribute_at c i;
        do data <- slice pdu 3 (len pdu);
        do r <- access_write c st cid a 0 data;
        let '(st', rc) := r in
        match rc with
        | Success => do b1 <- put b 0 [19]; Some (st', (b1, 1))
        | _ => do e <- error_response opcode (att_code rc err_write_not_permitted) h b out_size; Some (st', e)
        end
    end.

Definition handle_write_command (c : cfg) (st : srv_state) (cid : nat) (pdu b : list N) (out_size : N) : option (srv_state * resp) :=
  do r <- handle_write_request c st cid pdu b out_size;
  let '(st', (b', _)) := r in Some (st', (b', 0)).

(* ------------------------------------------------------------------ write queue (write_queue.hpp) *)
Definition wq_end (st : srv_state) : N := sumN (fun e => len e + 2) (wq_elems st).

(* allocate_from_write_queue( size, client ) + std::copy of the element *)
Definition wq_allocate (s : N) (st : srv_state) (cid : nat) (elem : list N) : option srv_state :=
  let owned_by_other := match wq_owner st with Some o => negb (Nat.eqb o cid) | None => false end in
  if (s - wq_end st <? len elem + 2) || owned_by_other then None
  else Some (set_wq st (Some cid) (wq_elems st ++ [elem])).

(* free_write_queue( client ) *)
Definition wq_free (st : srv_state) (cid : nat) : srv_state :=
  match wq_owner st with
  | Some o => if Nat.eqb o cid then set_wq st None [] else st
  | None => st
  end.

(* ------------------------------------------------------------------ Prepare Write / Execute Write *)
Definition handle_prepare_write (c : cfg) (st : srv_state) (cid : nat) (pdu b : list N) (out_size : N) : option (srv_state * resp) :=
  do opcode <- rd pdu 0;
  match wqueue c with
  | None => do e <- error_response opcode err_request_not_supported 0 b out_size; Some (st, e)
  | Some qs =>
      if len pdu <? 5 then do e <- error_response opcode err_invalid_pdu 0 b out_size; Some (st, e)
      else
        do chk <- check_handle c pdu b out_size;
        match chk with
        | Failed r => Some (st, r)
        | Passed (h, i) =>
            do a <- attribute_at c i;
            do r <- access_check_write c st cid a;
            let '(st1, rc) := r in
            match rc with
            | Success =>
                do elem <- slice pdu 1 (len pdu);
                match wq_allocate qs st1 cid elem with
                | None => do e <- error_response opcode err_prepare_queue_full h b out_size; Some (st1, e)
                | Some st2 =>
                    let n := N.min out_size (len pdu) in
                    do echo <- slice pdu 1 n;
                    do b1 <- put b 0 [23];
                    do b2 <- put b1 1 echo;
                    Some (st2, (b2, n))
                end
            | _ => do e <- error_response opcode (att_code rc err_write_not_permitted) h b out_size; Some (st1, e)
            end
        end
  end.

(* the loop of handle_execute_write_request over the client's queue elements *)
Fixpoint execute_writes (c : cfg) (st : srv_state) (cid : nat) (elems : list (list N)) : option (srv_state * option (N * N)) :=
  match elems with
  | [] => Some (st, None)
  | e :: t =>
      do h <- rd16 e 0; do off <- rd16 e 2;
      do a <- attribute_at c (index_by_handle c h);
      do r <- access_write c st cid a off (dropN 4 e);
      let '(st', rc) := r in
      match rc with
      | Success => execute_writes c st' cid t
      | Err code => Some (st', Some (h, code))                  (* access_result_to_att_code( rc, invalid_offset ) *)
      | ValueEqual => Some (st', Some (h, err_invalid_offset))
      end
  end.

Definition handle_execute_write (c : cfg) (st : srv_state) (cid : nat) (pdu b : list N) (out_size : N) : option (srv_state * resp) :=
  do opcode <- rd pdu 0;
  match wqueue c with
  | None => do e <- error_response opcode err_request_not_supported 0 b out_size; Some (st, e)
  | Some _ =>
      if negb (len pdu =? 2) then do e <- error_response opcode err_invalid_pdu 0 b out_size; Some (st, e)
      else
        do flag <- rd pdu 1;
        if negb (flag =? 0) && negb (flag =? 1) then do e <- error_response opcode err_invalid_pdu 0 b out_size; Some (st, e)
        else
          let mine := match wq_owner st with Some o => Nat.eqb o cid | None => false end in
          do r <- (if (flag =? 1) && mine then execute_writes c st cid (wq_elems st) else Some (st, None));
          let '(st1, failure) := r in
          let st2 := wq_free st1 cid in
          match failure with
          | Some (h, code) => do e <- error_response opcode code h b out_size; Some (st2, e)
          | None => do b1 <- put b 0 [25]; Some (st2, (b1, 1))
          end
  end.

(* ------------------------------------------------------------------ Handle Value Confirmation *)
Definition nq_step (k : conn) (o : NQueueModel.op) : conn * NQueueModel.out :=
  let '(q, r) := NQueueModel.step (nq k) o in
  (mkConn (client_mtu k) (cccd k) (encrypted k) (pairing k) q, r).

Definition handle_confirmation (c : cfg) (st : srv_state) (cid : nat) (pdu b : list N) (out_size : N) : option (srv_state * resp) :=
  do opcode <- rd pdu 0;
  if negb (len pdu =? 1) then do e <- error_response opcode err_invalid_pdu 0 b out_size; Some (st, e)
  else
    do k <- get_conn st cid;
    Some (set_conn st cid (fst (nq_step k Confirm)), (b, 0)).

(* ------------------------------------------------------------------ l2cap_input *)
(* Some (srv_state, response) | None = Fault (out-of-range access or failing assert). [out_cap] is the
   real size of the caller's buffer (= the out_size passed in). *)
Definition att_input (c : cfg) (st : srv_state) (cid : nat) (pdu : list N) (out_cap : N) : option (srv_state * list N) :=
  do k <- get_conn st cid;
  let out_size := N.min out_cap (negotiated_mtu c k) in
  if len pdu =? 0 then None                              (* assert( in_size != 0 ) *)
  else if out_size <? default_att_mtu then None          (* assert( out_size >= default_att_mtu_size ) *)
  else
    let b := repeat fill_byte (N.to_nat out_cap) in
    do opcode <- rd pdu 0;
    do r <- (
      if opcode =? 1 then Some (st, (b, 0))
      else if opcode =? 2 then handle_exchange_mtu c st cid pdu b out_size
      else if opcode =? 4 then do x <- handle_find_information c pdu b out_size; Some (st, x)
      else if opcode =? 6 then do x <- handle_find_by_type_value c st cid pdu b out_size; Some (st, x)
      else if opcode =? 8 then handle_read_by_type c st cid pdu b out_size
      else if opcode =? 10 then handle_read c st cid pdu b out_size
      else if opcode =? 12 then handle_read_blob c st cid pdu b out_size
      else if opcode =? 16 then do x <- handle_read_by_group_type c pdu b out_size; Some (st, x)
      else if opcode =? 14 then handle_read_multiple c st cid pdu b out_size
      else if opcode =? 18 then handle_write_request c st cid pdu b out_size
      else if opcode =? 82 then handle_write_command c st cid pdu b out_size
      else if opcode =? 22 then handle_prepare_write c st cid pdu b out_size
      else if opcode =? 24 then handle_execute_write c st cid pdu b out_size
      else if opcode =? 30 then handle_confirmation c st cid pdu b out_size
      else do x <- error_response opcode err_request_not_supported 0 b out_size; Some (st, x));
    let '(st', (b', n)) := r in
    if n <=? len b' then Some (st', takeN n b') else None.   (* the caller reads out_size bytes of its buffer *)

(* ------------------------------------------------------------------ l2cap_output *)
(* out_size is clipped to the negotiated MTU like in l2cap_input (fix of DESIGN 7 item 8). The entry is
   dequeued (an indication becomes outstanding) before the CCCD is looked at; when nothing is sent for
   a dequeued indication the queue is told not to wait for a confirmation: [unsent_indication]
   = connection.indication_confirmed() (fix of item 10) *)
Definition unsent_indication (st : srv_state) (cid : nat) (kd : kind) : srv_state :=
  match kd with
  | KNotif => st
  | KInd => match get_conn st cid with
            | Some k => set_conn st cid (fst (nq_step k Confirm))
            | None => st
            end
  end.

Definition att_output (c : cfg) (st : srv_state) (cid : nat) (out_cap : N) : option (srv_state * list N) :=
  do k <- get_conn st cid;
  let out_size := N.min out_cap (negotiated_mtu c k) in
  let '(k1, r) := nq_step k Dequeue in
  let st1 := set_conn st cid k1 in
  let b := repeat fill_byte (N.to_nat out_cap) in
  match r with
  | OEntry (Some (kd, i)) =>
      let required := match kd with KNotif => 1 | KInd => 2 end in
      let '(ai, ci) := find_notification_data_by_index c (N.of_nat i) in
      if negb (N.land (cccd_get (cccd k1) ci) required =? 0) && (3 <=? out_size) then
        do a <- attribute_at c ai;
        do x <- access_read c st1 cid a ai 0 (out_size - 3);
        let '(st2, rc, d) := x in
        match rc with
        | Success =>
            do b1 <- put b 3 d;
            do b2 <- put b1 0 ((match kd with KNotif => 27 | KInd => 29 end) :: le16 (handle_by_index c ai));
            Some (st2, takeN (3 + len d) b2)
        | _ => Some (unsent_indication st2 cid kd, [])
        end
      else Some (unsent_indication st1 cid kd, [])
  | _ => Some (st1, [])
  end.

(* ------------------------------------------------------------------ notify / indicate *)
(* the l2cap layer's callback of the harness: the request is queued on every connection *)
Fixpoint queue_all (l : list conn) (o : NQueueModel.op) : list conn * list bool :=
  match l with
  | [] => ([], [])
  | k :: t =>
      let '(k', r) := nq_step k o in
      let '(t', rs) := queue_all t o in
      (k' :: t', (match r with OBool x => x | _ => false end) :: rs)
  end.

Definition request (st : srv_state) (kd : kind) (data : N * N) : srv_state * list bool :=
  let i := N.to_nat (snd data) in
  let '(l, rs) := queue_all (conns st) (match kd with KNotif => QueueN i | KInd => QueueI i end) in
  (mkSt (vals st) (hlogs st) (wq_owner st) (wq_elems st) l, rs).

(* server::notify( value ) / indicate( value ): None = assert( data.valid() ) *)
Definition notify_by_value (c : cfg) (st : srv_state) (kd : kind) (gci : nat) : option (srv_state * list bool) :=
  do d <- find_notification_data c gci; Some (request st kd d).

(* server::notify< UUID >() / indicate< UUID >() with the uuid of characteristic [gci] *)
Definition notify_by_uuid (c : cfg) (st : srv_state) (kd : kind) (gci : nat) : option (srv_state * list bool) :=
  do x <- nth_error (all_chars c) gci;
  do d <- find_notification_by_uuid c (c_uuid (snd x)); Some (request st kd d).

(* which entry points the harness can instantiate (static_asserts of server::notify<UUID>()) *)
Definition by_value_available (c : cfg) (gci : nat) : bool :=
  match nth_error (all_chars c) gci with
  | Some (_, ch) => has_cccd ch && match c_value ch with VBind _ _ => true | _ => false end
  | None => false
  end.
Definition by_uuid_available (c : cfg) (kd : kind) (gci : nat) : bool :=
  match nth_error (all_chars c) gci with
  | Some (_, ch) =>
      match find_char_by_uuid c (c_uuid ch) with
      | Some x => match kd with KNotif => v_has_notification (ci_char x) | KInd => v_has_indication (ci_char x) end
      | None => false
      end
  | None => false
  end.

(* ------------------------------------------------------------------ operations *)
Inductive srv_op :=
| OpIn (cid : nat) (pdu : list N) (out_size : N)
| OpOut (cid : nat) (out_size : N)
| OpSec (cid : nat) (enc : bool) (pair : N)
| OpDisc (cid : nat)
| OpNotify (by_uuid : bool) (kd : kind) (gci : nat)
| OpVal (gci : nat)
| OpSetVal (gci : nat) (data : list N).

Inductive srv_out :=
| OBytes (l : list N)
| OFault
| OBits (l : list bool)
| ONone
| ONa
| OValue (l : list N) (log : option (N * N * N)).

Definition has_var (c : cfg) (gci : nat) : option (bool * bool) :=   (* (writable, handler) *)
  match nth_error (all_chars c) gci with
  | Some (_, ch) => match c_value ch with
                    | VBind _ k => Some (negb k, false)
                    | VHandler _ _ _ _ => Some (true, true)
                    | _ => None
                    end
  | None => None
  end.

Definition srv_step (c : cfg) (st : srv_state) (o : srv_op) : srv_state * srv_out :=
  match o with
  | OpIn cid pdu n =>
      match att_input c st cid pdu n with Some (st', r) => (st', OBytes r) | None => (st, OFault) end
  | OpOut cid n =>
      match att_output c st cid n with Some (st', r) => (st', OBytes r) | None => (st, OFault) end
  | OpSec cid e p =>
      match get_conn st cid with
      | Some k => (set_conn st cid (mkConn (client_mtu k) (cccd k) e (p mod 4) (nq k)), ONone)
      | None => (st, ONone)
      end
  | OpDisc cid => (set_conn (wq_free st cid) cid (init_conn c), ONone)     (* client_disconnected + new connection data *)
  | OpNotify by_uuid kd gci =>
      if by_uuid then
        if by_uuid_available c kd gci then
          match notify_by_uuid c st kd gci with Some (st', r) => (st', OBits r) | None => (st, OFault) end
        else (st, ONa)
      else
        if by_value_available c gci then
          match notify_by_value c st kd gci with Some (st', r) => (st', OBits r) | None => (st, OFault) end
        else (st, ONa)
  | OpVal gci =>
      match has_var c gci with
      | Some (_, h) => (st, OValue (get_val st gci) (if h then Some (nth gci (hlogs st) (0, 0, 0)) else None))
      | None => (st, ONa)
      end
  | OpSetVal gci data =>
      match has_var c gci with
      | Some (true, _) =>
          let old := get_val st gci in
          let n := N.min (len data) (len old) in
          (set_vals st (upd (vals st) gci (takeN n data ++ dropN n old)), ONone)
      | _ => (st, ONa)
      end
  end.

Fixpoint srv_run (c : cfg) (st : srv_state) (ops : list srv_op) : list (srv_op * srv_out) :=
  match ops with
  | [] => []
  | o :: t => let '(st', r) := srv_step c st o in (o, r) :: srv_run c st' t
  end.
