(* Observer shared by the monitors of C08, C09, C10, C11 (notification path of the GATT server).

   The observer looks only at operations and their observed outputs (never at model state). Beside the
   trace it keeps the abstract objects of the four properties:
     per connection   the client MTU of the last valid Exchange MTU, whether the link is encrypted, per
                      characteristic the two CCCD bits the connection last wrote (None = not known),
                      the requested and not yet transmitted notifications / indications, whether an
                      indication is awaiting its confirmation, which accepted requests MUST be transmitted
                      (client subscribed ever since the request was accepted) and an upper bound [o_slack]
                      of the queued requests that may be consumed without a PDU (client not subscribed)
     per server       the current value of every characteristic as far as the trace shows it (initial
                      content of the harness, val / setval, forgotten after a write to the value)
   What the configuration declares is read from the data base functions verified by C04
   (attribute_at, handle_by_index): [char_table]. *)
From BT Require Import Base.ListX AttDb.AttDbModel NQueue.NQueueModel AttSrv.AttSrvModel.
Local Open Scope N_scope.

Inductive verdict := Ok | Bad (tag : nat).

(* ------------------------------------------------------------------ the declared characteristics *)
Record cent := mkCent {
  ce_vh : N;                    (* handle of the value attribute *)
  ce_ch : N;                    (* handle of the CCCD, 0 = no CCCD *)
  ce_size : N;                  (* size of the value *)
  ce_init : option (list N);    (* content at the start of a case (None: not observable) *)
  ce_enc : bool;                (* requires an encrypted link *)
  ce_readable : bool;           (* a notification reads the value of THIS characteristic (see attributable) and can read it *)
  ce_const : bool;              (* the value never changes *)
  ce_first : nat }.             (* first characteristic with the same uuid: the target of notify< UUID >() *)

Fixpoint attrs_from (c : cfg) (n : nat) (i : N) : list (N * attr) :=
  match n with
  | O => []
  | S m => match attribute_at c i with
           | Some a => (i, a) :: attrs_from c m (i + 1)
           | None => attrs_from c m (i + 1)
           end
  end.
Definition attr_table (c : cfg) : list (N * attr) := attrs_from c (N.to_nat (number_of_attributes c)) 0.

Definition cccd_handle_of (c : cfg) (tab : list (N * attr)) (cci : N) : N :=
  match find (fun x => match snd x with ACccd _ _ k => k =? cci | _ => false end) tab with
  | Some x => handle_by_index c (fst x)
  | None => 0
  end.

Fixpoint first_uuid (l : list (service_decl * char_decl)) (u : uuid) (i : nat) : nat :=
  match l with
  | [] => i
  | x :: t => if uuid_eqb (c_uuid (snd x)) u then i else first_uuid t u (S i)
  end.

(* every service has a characteristic: then (and, in general, only then: known finding
   C10-empty-service-shifts-notification-attribute) the attribute l2cap_output reads for a queued request is the
   value attribute of the requested characteristic (C10_right_characteristic_partial), i.e. a transmitted PDU can
   be attributed to its request by its handle. The liveness bookkeeping (must-requests) relies on that *)
Definition attributable (c : cfg) : bool :=
  forallb (fun s => negb (Nat.eqb (length (s_chars s)) 0)) (services c).

Definition cent_of (c : cfg) (tab : list (N * attr)) (i : N) (s : service_decl) (ch : char_decl) (g : nat) (cci : N) : cent :=
  mkCent (handle_by_index c i)
         (if has_cccd ch then cccd_handle_of c tab cci else 0)
         (match c_value ch with VBind n _ | VFixed n _ | VHandler n _ _ _ => n | VString b => len b end)
         (match c_value ch with
          | VBind n _ | VHandler n _ _ _ => Some (map (init_byte g) (seq 0 (N.to_nat n)))
          | VFixed n v => Some (fixed_bytes n v)
          | VString b => Some b
          end)
         (char_requires_encryption c s ch)
         (attributable c &&
          match c_value ch with
          | VBind _ _ | VFixed _ _ => negb (c_no_read ch)
          | VString _ => true
          | VHandler _ hrd _ blob => hrd
          end)
         (match c_value ch with
          | VBind _ k => k
          | VFixed _ _ | VString _ => true
          | VHandler _ _ _ _ => false
          end)
         (first_uuid (all_chars c) (c_uuid ch) O).

Definition char_table (c : cfg) : list cent :=
  let tab := attr_table c in
  flat_map (fun x => match snd x with
                     | AValue s ch g cci => [cent_of c tab (fst x) s ch g cci]
                     | _ => []
                     end) tab.

Fixpoint find_idx {A} (f : A -> bool) (l : list A) : option nat :=
  match l with
  | [] => None
  | x :: t => if f x then Some O else match find_idx f t with Some i => Some (S i) | None => None end
  end.
Definition by_cccd_handle (tab : list cent) (h : N) : option nat :=
  if h =? 0 then None else find_idx (fun e => ce_ch e =? h) tab.
Definition by_value_handle (tab : list cent) (h : N) : option nat :=
  if h =? 0 then None else find_idx (fun e => ce_vh e =? h) tab.

Definition cent_dflt := mkCent 0 0 0 None false false true O.
Definition cent_at (tab : list cent) (g : nat) : cent := nth g tab cent_dflt.

(* ------------------------------------------------------------------ observer state *)
Record oconn := mkOC {
  o_mtu : N;
  o_enc : bool;
  o_cccd : list (option N);
  o_since : list (option (nat * nat));   (* the last CCCD write elsewhere since this entry was written / read *)
  o_prep : bool;                         (* a Prepare Write on a CCCD was accepted and may still be queued *)
  o_pend : list (N * N);                 (* per characteristic, (notification, indication): 0 not requested, 1 requested, 2 transmitted *)
  o_must : list (bool * bool);           (* accepted while subscribed, subscribed ever since: must be transmitted *)
  o_out : bool;                          (* an indication was transmitted and not yet confirmed *)
  o_slack : N }.

Record obs := mkObs {
  ob_tab : list cent;
  ob_conns : list oconn;
  ob_vals : list (option (list N));
  ob_cb : option N }.                    (* subscription callbacks expected since the last `cbs` *)

Definition oc_init (n : nat) : oconn :=
  mkOC default_att_mtu false (repeat (Some 0) n) (repeat None n) false (repeat (0, 0) n) (repeat (false, false) n) false 0.

Definition obs_init (c : cfg) : obs :=
  let tab := char_table c in
  mkObs tab (repeat (oc_init (length tab)) n_conns) (map ce_init tab) (Some 0).

Definition oc_at (m : obs) (cid : nat) : oconn := nth cid (ob_conns m) (oc_init O).
Definition set_oc (m : obs) (cid : nat) (k : oconn) : obs :=
  mkObs (ob_tab m) (upd (ob_conns m) cid k) (ob_vals m) (ob_cb m).
Definition set_cb (m : obs) (x : option N) : obs := mkObs (ob_tab m) (ob_conns m) (ob_vals m) x.
Definition set_obvals (m : obs) (v : list (option (list N))) : obs := mkObs (ob_tab m) (ob_conns m) v (ob_cb m).

Definition neg_mtu (c : cfg) (k : oconn) : N := N.min (max_mtu c) (o_mtu k).
(* the size l2cap_input / l2cap_output work with: the caller's buffer clipped to the negotiated MTU *)
Definition eff_size (c : cfg) (k : oconn) (n : N) : N := N.min n (neg_mtu c k).

Definition kbits (v : option N) (kd : kind) : bool :=
  match v with Some x => negb (N.land x (kbit kd) =? 0) | None => false end.
Definition pick {A} (kd : kind) (p : A * A) : A := match kd with KNotif => fst p | KInd => snd p end.
Definition put_k {A} (kd : kind) (p : A * A) (x : A) : A * A :=
  match kd with KNotif => (x, snd p) | KInd => (fst p, x) end.

Definition count_must (l : list (bool * bool)) : N :=
  sumN (fun p => b2n (fst p) + b2n (snd p)) l.

(* the value the CCCD holds after an accepted write of [data] (at most 2 bytes) at offset 0 *)
Definition cccd_new (old : option N) (data : list N) : option N :=
  match data with [] => old | b :: _ => Some (N.land b 3) end.

(* a write to a CCCD is accepted: at most two bytes, link security sufficient *)
Definition sec_ok (e : cent) (k : oconn) : bool := negb (ce_enc e) || o_enc k.

(* a request of kind kd for characteristic g that the queue of this connection accepted must be
   transmitted: the client is subscribed for that kind and the value can be read *)
Definition must_cond (e : cent) (k : oconn) (g : nat) (kd : kind) : bool :=
  kbits (nth g (o_cccd k) None) kd && ce_readable e && sec_ok e k.

(* connection [cid] stored [nv] in the CCCD of characteristic [g] *)
Definition drop_must (k : oconn) (g : nat) (nv : option N) : list (bool * bool) * N :=
  let mu := nth g (o_must k) (false, false) in
  let dn := fst mu && negb (kbits nv KNotif) in
  let di := snd mu && negb (kbits nv KInd) in
  (upd (o_must k) g (fst mu && negb dn, snd mu && negb di), o_slack k + b2n dn + b2n di).

Definition mark_since (cid g : nat) (cid' : nat) (k : oconn) : oconn :=
  mkOC (o_mtu k) (o_enc k) (o_cccd k)
       (if Nat.eqb cid cid' then upd (map (fun _ => Some (cid, g)) (o_since k)) g None
        else map (fun _ => Some (cid, g)) (o_since k))
       (o_prep k) (o_pend k) (o_must k) (o_out k) (o_slack k).

Fixpoint map_i {A B} (f : nat -> A -> B) (i : nat) (l : list A) : list B :=
  match l with [] => [] | x :: t => f i x :: map_i f (S i) t end.

Definition apply_cccd_write (m : obs) (cid g : nat) (nv : option N) : obs :=
  let k := oc_at m cid in
  let old := nth g (o_cccd k) None in
  let '(mu, sl) := drop_must k g nv in
  let k' := mkOC (o_mtu k) (o_enc k) (upd (o_cccd k) g nv) (o_since k) (o_prep k) (o_pend k) mu (o_out k) sl in
  let cb := match ob_cb m, old, nv with
            | Some n, Some a, Some b => Some (if a =? b then n else n + 1)
            | _, _, _ => None
            end in
  mkObs (ob_tab m) (map_i (mark_since cid g) O (upd (ob_conns m) cid k')) (ob_vals m) cb.

(* a CCCD of this connection was read and showed the expected value *)
Definition touch_cccd (m : obs) (cid g : nat) : obs :=
  let k := oc_at m cid in
  set_oc m cid (mkOC (o_mtu k) (o_enc k) (o_cccd k) (upd (o_since k) g None) (o_prep k) (o_pend k) (o_must k) (o_out k) (o_slack k)).

Definition forget_value (m : obs) (g : nat) : obs :=
  if ce_const (cent_at (ob_tab m) g) then m else set_obvals m (upd (ob_vals m) g None).
Definition forget_all_values (m : obs) : obs :=
  set_obvals m (map_i (fun g v => if ce_const (cent_at (ob_tab m) g) then v else None) O (ob_vals m)).

(* ------------------------------------------------------------------ one observed step *)
Definition starts (b : N) (l : list N) : bool := match l with x :: _ => x =? b | [] => false end.

Definition set_mtu (m : obs) (cid : nat) (v : N) : obs :=
  let k := oc_at m cid in
  set_oc m cid (mkOC v (o_enc k) (o_cccd k) (o_since k) (o_prep k) (o_pend k) (o_must k) (o_out k) (o_slack k)).

(* every request that must be transmitted may now be dropped (link security changed, tiny buffer) *)
Definition release_must (k : oconn) (enc : bool) : oconn :=
  mkOC (o_mtu k) enc (o_cccd k) (o_since k) (o_prep k) (o_pend k) (map (fun _ => (false, false)) (o_must k)) (o_out k)
       (o_slack k + count_must (o_must k)).

Definition eligible_must (k : oconn) : bool :=
  existsb (fun p => fst p || (snd p && negb (o_out k))) (o_must k).

(* a Write Request / Command / Prepare Write on handle h *)
Definition adv_write (m : obs) (cid : nat) (opc h : N) (data resp : list N) : obs :=
  match by_cccd_handle (ob_tab m) h with
  | Some g =>
      let k := oc_at m cid in
      let e := cent_at (ob_tab m) g in
      let old := nth g (o_cccd k) None in
      if opc =? 18 then
        match resp with
        | [19] => apply_cccd_write m cid g (if len data <=? 2 then cccd_new old data else None)
        | _ => m
        end
      else if opc =? 82 then
        if (len data <=? 2) && sec_ok e k then apply_cccd_write m cid g (cccd_new old data) else m
      else (* 22: Prepare Write; data = offset (2 bytes) + value *)
        if starts 23 resp then
          let m1 := apply_cccd_write m cid g None in
          let k1 := oc_at m1 cid in
          set_cb (set_oc m1 cid (mkOC (o_mtu k1) (o_enc k1) (o_cccd k1) (o_since k1) true (o_pend k1) (o_must k1) (o_out k1) (o_slack k1))) (ob_cb m)
        else m
  | None =>
      match by_value_handle (ob_tab m) h with
      | Some g => if opc =? 22 then m else forget_value m g
      | None => m
      end
  end.

Definition adv_in (c : cfg) (m : obs) (cid : nat) (pdu : list N) (n : N) (resp : list N) : obs :=
  match pdu with
  | [2; lo; hi] => if (default_att_mtu <=? lo + 256 * hi) && starts 3 resp then set_mtu m cid (lo + 256 * hi) else m
  | [30] =>
      let k := oc_at m cid in
      set_oc m cid (mkOC (o_mtu k) (o_enc k) (o_cccd k) (o_since k) (o_prep k) (o_pend k) (o_must k) false (o_slack k))
  | [10; lo; hi] =>
      match by_cccd_handle (ob_tab m) (lo + 256 * hi) with
      | Some g => if starts 11 resp then touch_cccd m cid g else m
      | None => m
      end
  | 24 :: _ =>
      let k := oc_at m cid in
      let m1 := forget_all_values m in
      if o_prep k then
        (* prepared CCCD writes may have been executed: nothing is known about this connection's CCCDs any more *)
        set_cb (set_oc m1 cid (mkOC (o_mtu k) (o_enc k) (map (fun _ => None) (o_cccd k)) (o_since k) false (o_pend k)
                                   (map (fun _ => (false, false)) (o_must k)) (o_out k) (o_slack k + count_must (o_must k)))) None
      else m1
  | opc :: lo :: hi :: data =>
      if (opc =? 18) || (opc =? 82) || (opc =? 22) then adv_write m cid opc (lo + 256 * hi) data resp else m
  | _ => m
  end.

(* a Handle Value Notification / Indication for characteristic g was transmitted on connection cid *)
Definition adv_sent (m : obs) (cid g : nat) (kd : kind) : obs :=
  let k := oc_at m cid in
  let pe := nth g (o_pend k) (0, 0) in
  let mu := nth g (o_must k) (false, false) in
  let was_must := pick kd mu in
  (* the PDU is not the one of a must-request of this characteristic: it may be the PDU of another request
     under this handle (which attribute a PDU carries is C10's business), so it cannot be attributed: none of the
     must-requests of this connection is insisted on any longer (they join the slack) *)
  let unattributed := negb was_must in
  let mu_all := if unattributed then map (fun _ => (false, false)) (o_must k) else o_must k in
  let slack := if unattributed then o_slack k + count_must (o_must k) else o_slack k in
  set_oc m cid (mkOC (o_mtu k) (o_enc k) (o_cccd k) (o_since k) (o_prep k)
                     (upd (o_pend k) g (put_k kd pe 2))
                     (upd mu_all g (put_k kd (nth g mu_all (false, false)) false))
                     (match kd with KInd => true | KNotif => o_out k end)
                     (if was_must then slack else slack - 1)).

(* a notification / indication whose handle is not the value handle of any characteristic was transmitted:
   a queued request was consumed WITH a PDU (so it is not lost in the sense of C11; that the PDU carries the
   wrong attribute is judged by C10). It cannot be attributed to a request *)
Definition adv_sent_unknown (m : obs) (cid : nat) (kd : kind) : obs :=
  let k := oc_at m cid in
  set_oc m cid (mkOC (o_mtu k) (o_enc k) (o_cccd k) (o_since k) (o_prep k) (o_pend k)
                     (map (fun _ => (false, false)) (o_must k))
                     (match kd with KInd => true | KNotif => o_out k end)
                     (o_slack k + count_must (o_must k) - 1)).

Definition adv_out (c : cfg) (m : obs) (cid : nat) (n : N) (pdu : list N) : obs :=
  let k := oc_at m cid in
  match pdu with
  | [] =>
      if eff_size c k n <? 3 then set_oc m cid (release_must k (o_enc k))
      else if eligible_must k then
        set_oc m cid (mkOC (o_mtu k) (o_enc k) (o_cccd k) (o_since k) (o_prep k) (o_pend k) (o_must k) (o_out k) (o_slack k - 1))
      else m
  | opc :: lo :: hi :: _ =>
      match by_value_handle (ob_tab m) (lo + 256 * hi) with
      | Some g => if opc =? 27 then adv_sent m cid g KNotif else if opc =? 29 then adv_sent m cid g KInd else m
      | None => if opc =? 27 then adv_sent_unknown m cid KNotif else if opc =? 29 then adv_sent_unknown m cid KInd else m
      end
  | _ => m
  end.

(* server.notify / indicate for characteristic g: [bits] = per connection "newly queued" *)
Fixpoint adv_request (tab : list cent) (g : nat) (kd : kind) (l : list oconn) (bits : list bool) : list oconn :=
  match l, bits with
  | k :: t, b :: bt =>
      let pe := nth g (o_pend k) (0, 0) in
      let mu := nth g (o_must k) (false, false) in
      let must := b && must_cond (cent_at tab g) k g kd in
      mkOC (o_mtu k) (o_enc k) (o_cccd k) (o_since k) (o_prep k)
           (upd (o_pend k) g (put_k kd pe 1))
           (if must then upd (o_must k) g (put_k kd mu true) else o_must k)
           (o_out k)
           (if b && negb must then o_slack k + 1 else o_slack k)
      :: adv_request tab g kd t bt
  | _, _ => l
  end.

Definition target (m : obs) (by_uuid : bool) (g : nat) : nat :=
  if by_uuid then ce_first (cent_at (ob_tab m) g) else g.

Definition advance (c : cfg) (m : obs) (o : srv_op) (r : srv_out) : obs :=
  match o, r with
  | OpIn cid pdu n, OBytes resp =>
      if (len pdu =? 0) || (n <? default_att_mtu) then m else adv_in c m cid pdu n resp
  | OpOut cid n, OBytes pdu => adv_out c m cid n pdu
  | OpSec cid e _, _ => set_oc m cid (release_must (oc_at m cid) e)
  | OpDisc cid, _ => set_oc m cid (oc_init (length (ob_tab m)))
  | OpNotify by_uuid kd g, OBits bits =>
      mkObs (ob_tab m) (adv_request (ob_tab m) (target m by_uuid g) kd (ob_conns m) bits) (ob_vals m) (ob_cb m)
  | OpVal g, OValue l _ => set_obvals m (upd (ob_vals m) g (Some l))
  | OpSetVal g data, ONone =>
      match nth g (ob_vals m) None with
      | Some old => let n := N.min (len data) (len old) in
                    set_obvals m (upd (ob_vals m) g (Some (takeN n data ++ dropN n old)))
      | None => m
      end
  | _, _ => m
  end.

(* operations on which a FAULT (sanitizer / assert abort) is a violation of these properties; faults of
   the attribute requests are C01's business (known findings there) *)
Definition fault_relevant (o : srv_op) : bool :=
  match o with
  | OpIn _ (opc :: _) _ => (opc =? 2) || (opc =? 30) || (opc =? 18) || (opc =? 82)
  | OpIn _ [] _ => false
  | _ => true
  end.

(* a generic monitor loop: [check] gives the violated clause, the observer advances *)
Section Loop.
  Variable check : cfg -> obs -> srv_op -> srv_out -> option nat.
  Definition mstep_of (c : cfg) (m : obs) (o : srv_op) (r : srv_out) : verdict * obs :=
    match check c m o r with
    | Some t => (Bad t, m)
    | None => (Ok, advance c m o r)
    end.
  Fixpoint monitor_from_of (c : cfg) (m : obs) (pos : nat) (tr : list (srv_op * srv_out)) : option (nat * nat) :=
    match tr with
    | [] => None
    | (o, r) :: t =>
        match mstep_of c m o r with
        | (Ok, m') => monitor_from_of c m' (S pos) t
        | (Bad tag, _) => Some (pos, tag)
        end
    end.
End Loop.
