(* C06: the monitor accepts every trace of the model, now including Read By Type and Read Multiple (whose
   responses the monitor scans for handles of values that must not be readable), for well formed configurations
   without include_service<> and without the known finding (read handler + no_read_access). *)
From Coq Require Import Lia ZifyBool.
From BT Require Import Base.ListX AttDb.AttDbModel AttDb.AttDbProofs NQueue.NQueueModel AttSrv.AttSrvModel
  AttSrv.AttSrvSpecC01 AttSrv.AttSrvProofsC01 AttSrv.AttSrvSpecVal AttSrv.AttSrvProofsVal AttSrv.AttSrvSpecC06
  AttSrv.AttSrvProofsC06 AttSrv.AttSrvProofsScan AttSrv.AttSrvProofsC05Scan.
Local Open Scope N_scope.

Lemma readable_not_unreadable c k h : no_k1 c -> readable_here c k h -> unreadable_handle c h = false.
Proof.
  intros NK (a & HA & M). unfold unreadable_handle. rewrite HA. destruct a as [| | |s ch g cci| | |]; try reflexivity.
  apply attr_of_some in HA. pose proof (NK _ _ _ _ _ HA) as K1. cbn [may_read] in M. apply andb_true_iff in M. destruct M as [_ M].
  unfold model_readable in M. unfold k1 in K1. unfold spec_readable. destruct (c_value ch); try (rewrite M; reflexivity); try reflexivity.
  subst rd. cbn [andb] in K1. rewrite K1. reflexivity.
Qed.

Lemma judge_step_ok c st a o :
  wf c -> no_includes c -> no_k1 c -> sim c st a -> snd (srv_step c st o) <> OFault ->
  (sat_cond c (snd (astep c a o)) -> sat c (snd (astep c a o)) (snd (srv_step c st o))) ->
  AttSrvSpecC06.judge c a o (snd (astep c a o)) (snd (srv_step c st o)) = Ok.
Proof.
  intros Hw Hn NK Sm NF Sat.
  destruct (not_scanned o) eqn:PO; [apply AttSrvProofsC06.judge_ok; assumption|].
  destruct o as [cid pdu n|cid n|cid e p|cid|by_uuid kd g|g|g data]; try discriminate PO.
  destruct pdu as [|op hs]; [discriminate PO|].
  assert (SC : (op =? 8) || (op =? 14) = true) by (unfold not_scanned, scanned_in in PO; apply negb_false_iff in PO; exact PO).
  rewrite (xany_scanned c a cid op hs n SC). cbn [srv_step] in *.
  destruct (att_input c st cid (op :: hs) n) as [[st' rs]|] eqn:EI; [|cbn in NF; contradiction]. cbn [snd].
  destruct (get_conn st cid) as [k|] eqn:G; [|unfold att_input in EI; rewrite G in EI; discriminate].
  destruct (att_input_inv _ _ _ _ _ _ _ _ _ G EI) as (Ho & b' & m & L & -> & D).
  unfold AttSrvSpecC06.judge.
  destruct (op =? 8) eqn:E8.
  - apply N.eqb_eq in E8. subst op. cbn [N.eqb Pos.eqb] in D.
    destruct (takeN m b') as [|r0 t0] eqn:ET; [reflexivity|].
    destruct (N.eq_dec r0 9) as [->|N9].
    2:{ destruct r0 as [|p9]; [destruct t0 as [|? ?]; reflexivity|].
        repeat (destruct p9 as [p9|p9|]; try (destruct t0 as [|? ?]; reflexivity)); try contradiction. }
    destruct t0 as [|l entries]; [reflexivity|].
    rewrite existsb_false_forall; [reflexivity|]. intros h Hin. apply (readable_not_unreadable c k h NK).
    eapply (read_by_type_handles c st cid k (8 :: hs) _ _ st' b' m Hw Hn G Ho); eauto.
    rewrite AttSrvProofsC01.len_repeat. lia.
  - destruct (op =? 14) eqn:E14; [|discriminate SC]. apply N.eqb_eq in E14. subst op. cbn [N.eqb Pos.eqb] in D.
    destruct (read_multiple_handles c st cid k hs _ _ st' b' m G Ho D L) as [RS _].
    destruct (takeN m b') as [|r0 t0] eqn:ET; [reflexivity|].
    destruct (N.eq_dec r0 15) as [->|N15].
    2:{ destruct r0 as [|p9]; try reflexivity. repeat (destruct p9 as [p9|p9|]; try reflexivity); try contradiction. }
    rewrite existsb_false_forall; [reflexivity|]. intros h Hin. apply (readable_not_unreadable c k h NK). eapply RS; eauto.
Qed.

(* every history: Read By Type and Read Multiple included *)
Theorem monitor_sound_all c ops :
  wf c -> no_includes c -> no_k1 c -> AttSrvSpecC06.monitor c (srv_run c (srv_init c) ops) = None.
Proof.
  intros Hw Hn NK. unfold AttSrvSpecC06.monitor, AttSrvSpecC06.monitor_from, minit.
  apply (monitor_sound_with_step AttSrvSpecC06.judge (fun _ => true)).
  - intros st a o Sm _ NF Sat. apply (judge_step_ok c st a o Hw Hn NK Sm NF Sat).
  - apply sim_init.
  - apply AttSrvProofsC07.forallb_true.
Qed.
