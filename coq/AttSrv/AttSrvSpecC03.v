(* Property C03: primary service discovery never reports secondary services.

   The abstract object: the declared services with the handle range the declaration assigns to them
   ([groups]: first handle = handle of the service declaration, last handle = handle of the last
   attribute of the service, AttDbSpec.assign). "Discover All Primary Services" (Read By Group Type for
   <<Primary Service>>) and "Discover Primary Service by Service UUID" (Find By Type Value for <<Primary
   Service>> = uuid) report exactly

       svc_matching c u lo hi = the declared PRIMARY services (with that uuid) whose declaration handle
                                lies in lo..hi

   with their handle ranges, and never a secondary service.

   Executable monitor [c03_step] over observed (request, response) pairs. Clauses (tags):
     primary_only        a reported group does not start at the declaration of a declared primary service
                         (in particular: it is a secondary service)
     group_range         the reported end group handle is not the last handle of that service
     group_uuid          the reported / requested uuid is not the uuid of that service
     services_exact      the response leaves out a primary service in front of a reported one, reports one
                         outside the range, is not ascending, is empty, or Attribute Not Found is
                         answered although a primary service (with that uuid) is declared in the range
     services_enumerated a client session (continued at last end group handle + 1) did not enumerate
                         [svc_matching] of the first request
     invalid_range       lo = 0 or lo > hi is not answered with Invalid Handle
     shape               response not parseable *)
From BT Require Import Base.ListX AttDb.AttDbModel AttDb.AttDbSpec NQueue.NQueueModel AttSrv.AttSrvModel
  AttSrv.AttSrvSpecC02.
Local Open Scope N_scope.

(* (first handle, last handle, service) of every declared service, in declaration order *)
Fixpoint svc_groups (ss : list service_decl) (hs : list N) : list (N * N * service_decl) :=
  match ss with
  | [] => []
  | s :: t =>
      let n := N.to_nat (svc_nattrs s) in
      (nth 0 hs 0, nth (n - 1) hs 0, s) :: svc_groups t (skipn n hs)
  end.
Definition groups (c : cfg) : list (N * N * service_decl) := svc_groups (services c) (assign c).

Definition uuid_wanted (u : option uuid) (s : service_decl) : bool :=
  match u with Some x => uuid_eqb (s_uuid s) x | None => true end.

(* the primary service declarations in lo..hi (with the uuid), as elements of the attribute table *)
Definition svc_matching (c : cfg) (u : option uuid) (lo hi : N) : list (N * attr) :=
  filter (fun e => match snd e with AService s => uuid_wanted u s | _ => false end) (matching c KGroup lo hi).

(* what a complete discovery has to deliver *)
Definition primary_services (c : cfg) (u : option uuid) (lo hi : N) : list (N * N * uuid) :=
  map (fun g => (fst (fst g), snd (fst g), s_uuid (snd g)))
      (filter (fun g => in_range lo hi (fst (fst g)) && negb (s_secondary (snd g)) && uuid_wanted u (snd g)) (groups c)).

Definition ct_primary_only := 1%nat.
Definition ct_group_range := 2%nat.
Definition ct_group_uuid := 3%nat.
Definition ct_exact := 4%nat.
Definition ct_enumerated := 5%nat.
Definition ct_invalid_range := dt_invalid_range.     (* 7, 8: the tags of the shared session_step *)
Definition ct_shape := dt_shape.

Definition find_group (c : cfg) (h : N) : option (N * N * service_decl) :=
  find (fun g => fst (fst g) =? h) (groups c).

(* one reported group *)
Definition judge_group (c : cfg) (e : entry) : verdict :=
  match e with
  | EGroup h l u =>
      match find_group c h with
      | Some (_, last_h, s) =>
          if s_secondary s then Bad ct_primary_only
          else if negb (last_h =? l) then Bad ct_group_range
          else if negb (uuid_eqb (s_uuid s) u) then Bad ct_group_uuid
          else Ok
      | None => Bad ct_primary_only
      end
  | _ => Bad ct_shape
  end.

Fixpoint first_bad (l : list verdict) : verdict :=
  match l with
  | [] => Ok
  | Ok :: t => first_bad t
  | Bad x :: _ => Bad x
  end.

Definition judge_groups (c : cfg) (u : option uuid) (lo hi : N) (es : list entry) : verdict :=
  let hs := map entry_handle es in
  match first_bad (map (judge_group c) es) with
  | Bad t => Bad t
  | Ok =>
      if match es with [] => true | _ => false end then Bad ct_exact
      else if negb (forallb (in_range lo hi) hs) then Bad ct_exact
      else if negb (ascending hs) then Bad ct_exact
      else if negb (run_ok (fun _ => true) (svc_matching c u lo hi) hs) then Bad ct_exact
      else Ok
  end.

(* 07 (first last)* : the uuid of the groups is the requested one *)
Definition parse_fbtv_resp (u : uuid) (resp : list N) : presp :=
  match resp with
  | [1; o; a; b; code] => if o =? 6 then PError (w16 a b) code else PBroken
  | 7 :: body =>
      parse_entries (fun ch => EGroup (w16 (nth 0 ch 0) (nth 1 ch 0)) (w16 (nth 2 ch 0) (nth 3 ch 0)) u) 4 body
  | _ => PBroken
  end.

Definition c03_init : mon := repeat None n_conns.

Definition c03_judge (c : cfg) (m : mon) (cid : nat) (k : dkind) (u : option uuid) (lo hi : N) (p : presp) : verdict * mon :=
  if (lo =? 0) || (hi <? lo) then (judge_invalid_range lo p, upd m cid None)
  else session_step m cid k lo hi p (judge_groups c u lo hi)
                    (fun l => svc_matching c u l hi) (fun _ => true) ct_exact ct_enumerated.

(* the requests this property judges *)
Inductive c03_req := RGroup (lo hi : N) | RValue (u : uuid) (lo hi : N).
Definition c03_parse (pdu : list N) : option c03_req :=
  match pdu with
  | op :: a :: b :: x :: y :: t0 :: t1 :: v =>
      if (t0 =? 0) && (t1 =? 40) then
        (* Read By Group Type: 10 lo hi 00 28 *)
        if (op =? 16) && match v with [] => true | _ => false end then Some (RGroup (w16 a b) (w16 x y))
        (* Find By Type Value: 06 lo hi 00 28 value (2 or 16 bytes) *)
        else if (op =? 6) && ((length v =? 2)%nat || (length v =? 16)%nat)
        then Some (RValue (uuid_of_bytes v) (w16 a b) (w16 x y))
        else None
      else None
  | _ => None
  end.

Definition c03_step (c : cfg) (m : mon) (o : srv_op) (r : srv_out) : verdict * mon :=
  match o with
  | OpIn cid pdu n =>
      if n <? default_att_mtu then (Ok, m)
      else
        match c03_parse pdu with
        | Some (RGroup lo hi) =>
            match r with
            | OBytes resp => c03_judge c m cid KGroup None lo hi (parse_resp 16 resp)
            | _ => (Bad ct_shape, upd m cid None)
            end
        | Some (RValue u lo hi) =>
            match r with
            | OBytes resp => c03_judge c m cid (KType u) (Some u) lo hi (parse_fbtv_resp u resp)
            | _ => (Bad ct_shape, upd m cid None)
            end
        | None => (Ok, m)
        end
  | OpDisc cid => (Ok, upd m cid None)
  | _ => (Ok, m)
  end.

Fixpoint c03_monitor_from (c : cfg) (m : mon) (pos : nat) (tr : list (srv_op * srv_out)) : option (nat * nat) :=
  match tr with
  | [] => None
  | (o, r) :: t =>
      match c03_step c m o r with
      | (Ok, m') => c03_monitor_from c m' (S pos) t
      | (Bad tag, _) => Some (pos, tag)
      end
  end.
Definition c03_monitor (c : cfg) (tr : list (srv_op * srv_out)) : option (nat * nat) := c03_monitor_from c c03_init O tr.
